package query

//verif:property C04
//verif:pkg lib/query
//verif:setup VerifC04ValuesSetup
//verif:harness VerifC04AggregatedValues mode=bv tier=quick split=6

import (
	"strings"

	"github.com/mithrandie/csvq/lib/parser"
	"github.com/mithrandie/csvq/lib/value"
)

var verifC04ValSrc = []string{
	"select g, count(v), listagg(v, '|') from t group by g",
	"select g, count(v), listagg(v, '|') within group (order by id desc) from t group by g",
	"select g, count(distinct v), listagg(distinct v, '|') from t group by g",
	"select g, count(v) over (partition by g), listagg(v, '|') over (partition by g) from t",
	"select g, count(v), listagg(v) from t group by g",
	"select g, count(v), listagg(v, '') within group (order by id) from t group by g",
}
var verifC04ValQueries []parser.SelectQuery

func VerifC04ValuesSetup() {
	for _, s := range verifC04ValSrc {
		verifC04ValQueries = append(verifC04ValQueries, verifParseSelect(s))
	}
}

// Aggregates that list the values of their bucket (COUNT and LISTAGG, plain, ordered, DISTINCT, as analytic
// functions, with and without a separator) over 3 (4) rows in two buckets whose values are NULL, the empty
// text or a letter: the list has exactly the bucket's non-NULL values - the empty text is a value -
// in the stated order, one separator between neighbours, and as many items as COUNT reports.
func VerifC04AggregatedValues() {
	tx := verifNewTx()
	scope := NewReferenceScope(tx)
	n := verifBound(3, 4)
	menu := []string{"\x00", "", "a", "b"}
	g := make([]int, n)
	v := make([]string, n)
	rows := make([][]value.Primary, n)
	for i := range rows {
		g[i] = verifChoice("g", 2)
		v[i] = menu[verifChoice("v", len(menu))]
		var cell value.Primary = value.NewNull()
		if v[i] != "\x00" {
			cell = value.NewString(v[i])
		}
		rows[i] = []value.Primary{value.NewInteger(int64(i)), value.NewInteger(int64(g[i])), cell}
	}
	verifTempTable(scope, "t", []string{"id", "g", "v"}, rows)
	qi := verifChoice("query", len(verifC04ValSrc))
	if qi == 0 || qi == 2 || qi == 3 {
		// one worker per record: a bucket's rows may be seen by the first and the last worker only
		tx.Flags.CPU = 3
		GetGoroutineManager().MinimumRequiredPerCore = 1
	}
	view, err := Select(verifCtx(), scope, verifC04ValQueries[qi])
	verifAssert("select succeeds", err == nil)
	if err != nil {
		return
	}
	items := func(bucket int) []string {
		var out []string
		add := func(i int) {
			if g[i] != bucket || v[i] == "\x00" {
				return
			}
			if qi == 2 {
				for _, o := range out {
					if o == v[i] {
						return
					}
				}
			}
			out = append(out, v[i])
		}
		if qi == 1 {
			for i := n - 1; i >= 0; i-- {
				add(i)
			}
		} else {
			for i := 0; i < n; i++ {
				add(i)
			}
		}
		return out
	}
	sep := "|"
	if qi >= 4 {
		sep = ""
	}
	for _, rec := range view.RecordSet {
		bucket := verifIdOf(rec[0][0])
		it := items(bucket)
		verifAssert("COUNT is the number of non-NULL values of the bucket", verifIdOf(rec[1][0]) == len(it))
		if len(it) == 0 {
			verifAssert("LISTAGG of a bucket without values is NULL", value.IsNull(rec[2][0]))
		} else {
			s, ok := rec[2][0].(*value.String)
			verifAssert("LISTAGG lists exactly the bucket's values, in order", ok && s.Raw() == strings.Join(it, sep))
		}
	}
	verifObserve("rows", int64(view.RecordLen()))
	verifReach("end")
}
