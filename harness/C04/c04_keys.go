package query

//verif:property C04
//verif:pkg lib/query
//verif:harness VerifC04TextKeys mode=bv tier=quick split=12
//verif:harness VerifC04Normalise mode=bv tier=quick split=4
//verif:harness VerifC04KeyDecodable mode=bv tier=quick split=6

import (
	"math"
	"strconv"
	"strings"
	"time"

	"github.com/mithrandie/csvq/lib/value"
	"github.com/mithrandie/ternary"
)

// verifC04Text returns a text cell of n symbolic bytes over an alphabet that contains every
// character the key format uses as delimiter or tag ( : [ ] S N I \ ) plus two letters in both
// cases; blanks and digits are excluded here (trimming and numeric texts: VerifC04Normalise).
func verifC04Text(tag string, n int) string {
	b := make([]byte, n)
	for i := range b {
		c := verifByte(tag)
		ok := verifOr(verifOr(verifOr(c == ':', c == '['), verifOr(c == ']', c == 'S')), verifOr(verifOr(c == 'x', c == 'X'), verifOr(c == '\\', c == 'y')))
		verifAssume(ok)
		b[i] = c
	}
	return string(b)
}

func verifUpperEq(a, b string) bool {
	if len(a) != len(b) {
		return false
	}
	eq := true
	for i := 0; i < len(a); i++ {
		x, y := int(a[i]), int(b[i])
		x = verifIteInt(verifAnd(x >= 'a', x <= 'z'), x-32, x)
		y = verifIteInt(verifAnd(y >= 'a', y <= 'z'), y-32, y)
		eq = verifAnd(eq, x == y)
	}
	return eq
}

// Injectivity of the bucket key over text tuples: two rows of two text columns (each text of
// 0..4 bytes, thorough 0..5) get the same key iff they agree column by column (case-insensitive;
// exact under --strict-equal).  Every length combination is explored.
func VerifC04TextKeys() {
	tx := verifNewTx()
	flags := tx.Flags
	flags.StrictEqual = verifChoice("strict", 2) == 1
	// The key writer branches on every byte (escaping), so paths grow as 2^bytes.  Bounds:
	// --strict-equal: one long (0..4, thorough 0..5) and one short (0..1) text per row, crosswise;
	// default mode (adds case folding and the failed numeric/boolean conversions): texts of 0..1 bytes
	// (thorough 0..2).
	// quick: --strict-equal with the crosswise short texts empty (0..4 | 0 | 0 | 0..4), default
	// mode with texts of 0..1 bytes; thorough: (0..5 | 0..1 | 0..1 | 0..5) and 0..2.
	L, S := verifBound(5, 6), verifBound(1, 2)
	if !flags.StrictEqual {
		L, S = verifBound(2, 3), verifBound(2, 3)
	}
	l1, l2 := verifChoice("len", L), verifChoice("len", S)
	m1, m2 := verifChoice("len", S), verifChoice("len", L)
	a1, a2 := verifC04Text("a", l1), verifC04Text("a", l2)
	b1, b2 := verifC04Text("b", m1), verifC04Text("b", m2)
	ka, kb := GetComparisonKeysBuf(), GetComparisonKeysBuf()
	SerializeComparisonKeys(ka, []value.Primary{value.NewString(a1), value.NewString(a2)}, flags)
	SerializeComparisonKeys(kb, []value.Primary{value.NewString(b1), value.NewString(b2)}, flags)
	same := ka.String() == kb.String()
	var want bool
	if flags.StrictEqual {
		want = verifAnd(a1 == b1, a2 == b2)
	} else {
		want = verifAnd(verifUpperEq(a1, b1), verifUpperEq(a2, b2))
	}
	verifObserveBool("same", same)
	verifAssert("no two different rows share a bucket (text keys)", verifImplies(same, want))
	verifAssert("no bucket is split (text keys)", verifImplies(want, same))
	PutComparisonkeysBuf(ka)
	PutComparisonkeysBuf(kb)
	verifReach("end")
}

// One cell of any class.  norm: (rung, payload) of the documented normalisation, written from the
// manual (integer, float, datetime, boolean, else case-insensitive trimmed text).
type verifC04Cell struct {
	p      value.Primary
	rung   int // 0 null 1 int 2 float 3 datetime 4 bool 5 text 6 none(ternary unknown etc -> null key)
	i      int64
	f      float64
	t      int64
	b      bool
	s      string
	class  int
	strict string // class tag + exact payload for --strict-equal
}

var verifC04Floats = []float64{0, math.Copysign(0, -1), 1, 1.5, -2, math.NaN(), math.Inf(1), 1e19, 2.5e19, -1e19, 9223372036854775808, 1e300}

// instants inside and outside the years 1678..2262 (where a time has a nanosecond count); the third and
// fourth are exactly 2^64 ns apart
var verifC04Instants = []time.Time{time.Unix(1328260695, 0).In(time.UTC), time.Unix(1328260696, 0).In(time.UTC), time.Date(1400, 1, 1, 0, 0, 0, 0, time.UTC), time.Date(1984, 7, 21, 23, 34, 33, 709551616, time.UTC), time.Date(9999, 12, 31, 0, 0, 0, 0, time.UTC)}
var verifC04Strings = []string{"1", " 1 ", "01", "1.0", "1.5", "+1", "true", "TRUE", "t", "abc", " AbC ", "abd", "", " ", "2012-02-03 09:18:15", "2012-02-03T09:18:15Z", "x:y", "[N]", "-0", "1e0", "1e19", "25000000000000000000"}

func verifC04Cell1(tag string) *verifC04Cell {
	c := &verifC04Cell{class: verifChoice(tag+"class", 7)}
	switch c.class {
	case 0:
		c.p, c.rung = value.NewNull(), 0
	case 1:
		c.i = verifInt64(tag + "int")
		verifAssume(c.i >= -1)
		verifAssume(c.i <= 2)
		c.i = int64(verifConcretize(int(c.i)))
		c.p, c.rung = value.NewInteger(c.i), 1
	case 2:
		c.f = verifC04Floats[verifChoice(tag+"float", len(verifC04Floats))]
		c.p, c.rung = value.NewFloat(c.f), 2
	case 3:
		c.b = verifBool(tag + "bool")
		c.p, c.rung = value.NewBoolean(c.b), 4
	case 4:
		t := [3]ternary.Value{ternary.FALSE, ternary.UNKNOWN, ternary.TRUE}[verifChoice(tag+"ternary", 3)]
		c.p = value.NewTernary(t)
		switch t {
		case ternary.TRUE:
			c.rung, c.b = 4, true
		case ternary.FALSE:
			c.rung, c.b = 4, false
		default:
			c.rung = 6
		}
	case 5:
		ti := verifC04Instants[verifChoice(tag+"sec", len(verifC04Instants))]
		c.t = ti.Unix()
		c.p, c.rung = value.NewDatetime(ti), 3
	default:
		c.s = verifC04Strings[verifChoice(tag+"string", len(verifC04Strings))]
		c.p = value.NewString(c.s)
		c.rung = 5
		t := strings.TrimSpace(c.s)
		if _, err := strconv.ParseInt(t, 10, 64); err == nil {
			c.rung = 1
		} else if _, err := strconv.ParseFloat(t, 64); err == nil {
			c.rung = 2
		} else if strings.HasPrefix(t, "2012-") {
			c.rung = 3
		} else if _, err := strconv.ParseBool(t); err == nil {
			c.rung = 4
		}
	}
	return c
}

// The bucket key of single cells of every class against csvq's own equality (value.Equivalent,
// decided separately in C06): cells with equal keys are NULL together or Equivalent (no merge),
// and cells that are Equivalent and of the same class get equal keys (no split).
func VerifC04Normalise() {
	tx := verifNewTx()
	flags := tx.Flags
	x := verifC04Cell1("x.")
	y := verifC04Cell1("y.")
	kx, ky := GetComparisonKeysBuf(), GetComparisonKeysBuf()
	SerializeComparisonKeys(kx, []value.Primary{x.p}, flags)
	SerializeComparisonKeys(ky, []value.Primary{y.p}, flags)
	same := kx.String() == ky.String()
	eq := value.Equivalent(x.p, y.p, flags.DatetimeFormat, flags.GetTimeLocation()) == ternary.TRUE
	nullKey := func(c *verifC04Cell) bool { return c.rung == 0 || c.rung == 6 }
	bothNull := nullKey(x) && nullKey(y)
	verifObserveBool("same", same)
	// Equality is not transitive across the boolean/integer junction (false = 0 and 0 = '-0' hold,
	// false = '-0' is UNKNOWN), and a bucketing must be an equivalence: rows that both equal the
	// integer 0 (or both equal 1) may share a bucket.
	viaInt := false
	for _, w := range []int64{0, 1} {
		wi := value.NewInteger(w)
		if value.Equivalent(x.p, wi, flags.DatetimeFormat, flags.GetTimeLocation()) == ternary.TRUE &&
			value.Equivalent(y.p, wi, flags.DatetimeFormat, flags.GetTimeLocation()) == ternary.TRUE {
			viaInt = true
		}
	}
	bothNaN := x.class == 2 && y.class == 2 && math.IsNaN(x.f) && math.IsNaN(y.f) // same normal form
	verifAssert("equal keys imply NULL together or equal values", verifImplies(same, bothNull || eq || viaInt || bothNaN))
	if x.rung == y.rung {
		// same rung of the documented normalisation and equal there: one bucket
		verifAssert("equal values of one normal form are not split", verifImplies(eq, same))
	}
	if x.class == 6 && y.class == 6 {
		// texts that are not numbers/datetimes/booleans compare case-insensitively, trimmed
		tx, ty := strings.ToUpper(strings.TrimSpace(x.s)), strings.ToUpper(strings.TrimSpace(y.s))
		if tx == ty {
			verifAssert("texts equal after trimming and case folding share a bucket", same)
		}
	}
	PutComparisonkeysBuf(kx)
	PutComparisonkeysBuf(ky)
	verifReach("end")
}


// Unique decodability of the bucket key: the key of a row of two text cells (0..2 bytes each,
// thorough 0..3, over the delimiter alphabet) splits at its unescaped ':' separators into exactly
// two fields, and each field, with its [S] tag removed and escapes undone, is the (normalised)
// text of its cell.  Any key format with this property is injective on rows of any length.
func VerifC04KeyDecodable() {
	tx := verifNewTx()
	flags := tx.Flags
	flags.StrictEqual = verifChoice("strict", 2) == 1
	L := verifBound(3, 4)
	c1, c2 := verifC04Text("a", verifChoice("len", L)), verifC04Text("b", verifChoice("len", L))
	kb := GetComparisonKeysBuf()
	SerializeComparisonKeys(kb, []value.Primary{value.NewString(c1), value.NewString(c2)}, flags)
	key := kb.String()
	// reference decoder
	var fields [][]byte
	var cur []byte
	for i := 0; i < len(key); i++ {
		ch := key[i]
		if ch == '\\' {
			verifAssert("an escape character is followed by a character", i+1 < len(key))
			if i+1 < len(key) {
				cur = append(cur, key[i+1])
			}
			i++
			continue
		}
		if ch == ':' {
			fields = append(fields, cur)
			cur = nil
			continue
		}
		cur = append(cur, ch)
	}
	fields = append(fields, cur)
	verifAssert("the key splits into one field per column", len(fields) == 2)
	for fi, want := range []string{c1, c2} {
		if fi >= len(fields) {
			break
		}
		f := fields[fi]
		verifAssert("field carries the string tag", len(f) >= 3 && f[0] == '[' && f[1] == 'S' && f[2] == ']')
		if len(f) < 3 {
			continue
		}
		got := string(f[3:])
		if flags.StrictEqual {
			verifAssert("decoded field is the cell text", got == want)
		} else {
			verifAssert("decoded field is the case-folded cell text", verifUpperEq(got, want))
		}
	}
	PutComparisonkeysBuf(kb)
	verifObserve("keylen", int64(len(key)))
	verifReach("end")
}
