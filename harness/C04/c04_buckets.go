package query

//verif:property C04
//verif:pkg lib/query
//verif:setup VerifC04BucketsSetup
//verif:harness VerifC04Buckets mode=bv tier=quick split=6

import (
	"strconv"
	"strings"

	"github.com/mithrandie/csvq/lib/parser"
	"github.com/mithrandie/csvq/lib/value"
	"github.com/mithrandie/ternary"
)

var verifC04Queries [10]parser.SelectQuery

func VerifC04BucketsSetup() {
	verifC04Queries[0] = verifParseSelect("select k, count(*), min(id), max(id), listagg(id, ',') from t group by k")
	verifC04Queries[1] = verifParseSelect("select distinct k from t")
	verifC04Queries[2] = verifParseSelect("select k from t union select k from u")
	verifC04Queries[3] = verifParseSelect("select k from t intersect select k from u")
	verifC04Queries[4] = verifParseSelect("select k from t except select k from u")
	verifC04Queries[5] = verifParseSelect("select id, count(*) over (partition by k), listagg(id, ',') over (partition by k) from t")
	// the rows are reordered by one analytic function's ORDER BY before another one partitions by the same column
	verifC04Queries[6] = verifParseSelect("select id, count(*) over (partition by k), row_number() over (order by k desc, id desc) from t")
	// two analytic functions partitioning by different, non-leading columns
	verifC04Queries[7] = verifParseSelect("select id, count(*) over (partition by k), count(*) over (partition by g), count(*) over (partition by id), count(*) over (partition by g, k) from t")
	// DISTINCT inside aggregates, in default and in strict mode
	verifC04Queries[8] = verifParseSelect("select count(distinct k), count(k), count(distinct 7), count(7), count(distinct null) from t")
	// the numeric and structured aggregates over the bucket's rows
	verifC04Queries[9] = verifParseSelect("select k, sum(id), avg(id), median(id), json_agg(id), var(id), stdev(id) from t group by k")
}

var verifC04Big bool

var verifC04Menu = []string{"a", " A ", "b", "1", "x:y"}
var verifC04NumMenu = []string{"1", "1.0"}

// verifC04KeyCell: a key from one of two families - texts with case / blank / delimiter variants
// next to integers, or the spellings of small numbers as integer, float and text.
var verifC04BigInts = []int64{9007199254740992, 9007199254740993, 9223372036854775807, 9223372036854775806}

func verifC04KeyCell(tag string, numeric bool) value.Primary {
	if verifC04Big {
		// neighbouring 64-bit integers that a float64 cannot tell apart
		c := verifChoice(tag, 1+len(verifC04BigInts))
		if c == 0 {
			return value.NewNull()
		}
		return value.NewInteger(verifC04BigInts[c-1])
	}
	menu := verifC04Menu
	if numeric {
		menu = verifC04NumMenu
	}
	c := verifChoice(tag, 2+len(menu))
	switch c {
	case 0:
		return value.NewNull()
	case 1:
		i := verifInt64(tag + ".int")
		verifAssume(i >= 0)
		verifAssume(i <= 1)
		if numeric && verifBool(tag+".float") {
			return value.NewFloat(float64(verifConcretize(int(i)))) // the same number as a float
		}
		return value.NewInteger(int64(verifConcretize(int(i))))
	}
	return value.NewString(menu[c-2])
}

func verifIntCell(p value.Primary) int64 {
	if i, ok := p.(*value.Integer); ok {
		return i.Raw()
	}
	if f, ok := p.(*value.Float); ok {
		return int64(f.Raw())
	}
	if s, ok := p.(*value.String); ok {
		v, _ := strconv.ParseInt(s.Raw(), 10, 64)
		return v
	}
	return -999
}

// GROUP BY, DISTINCT, UNION, INTERSECT, EXCEPT and PARTITION BY through the real Select pipeline on
// 3 rows (thorough 4): rows share a bucket exactly when their keys are NULL together or equal
// (csvq's own equality), buckets appear in first-occurrence order and every aggregate sees exactly
// the rows of its bucket.
func VerifC04Buckets() {
	tx := verifNewTx()
	scope := NewReferenceScope(tx)
	flags := tx.Flags
	n := verifBound(3, 4)
	family := verifChoice("family", 3)
	numeric := family == 1
	verifC04Big = family == 2
	keys := make([]value.Primary, n)
	rows := make([][]value.Primary, n)
	for i := 0; i < n; i++ {
		keys[i] = verifC04KeyCell("k", numeric)
		rows[i] = []value.Primary{value.NewInteger(int64(i)), keys[i], nil}
	}
	for i := 0; i < n; i++ {
		rows[i][2] = keys[n-1-i] // g: the same keys in reverse row order
	}
	verifTempTable(scope, "t", []string{"id", "k", "g"}, rows)
	qi := verifChoice("query", 10)
	// u holds the key of row 0 (twice) and one extra key - or, for the set operators, no row at all
	var extra value.Primary = value.NewNull()
	uEmpty := qi >= 2 && qi <= 4 && verifBool("u.empty")
	if uEmpty {
		verifTempTable(scope, "u", []string{"k"}, [][]value.Primary{})
	} else if qi >= 2 && qi <= 4 {
		extra = verifC04KeyCell("u", numeric)
		verifTempTable(scope, "u", []string{"k"}, [][]value.Primary{{keys[0]}, {extra}, {keys[0]}})
	}
	same := func(a, b value.Primary) bool {
		if value.IsNull(a) || value.IsNull(b) {
			return value.IsNull(a) && value.IsNull(b)
		}
		return value.Equivalent(a, b, flags.DatetimeFormat, flags.GetTimeLocation()) == ternary.TRUE
	}
	// classes of t in first-occurrence order
	class := make([]int, n)
	var reps []int
	for i := 0; i < n; i++ {
		class[i] = -1
		for ci, r := range reps {
			if same(keys[i], keys[r]) {
				class[i] = ci
				break
			}
		}
		if class[i] < 0 {
			class[i] = len(reps)
			reps = append(reps, i)
		}
	}
	strict := qi == 8 && verifChoice("strict", 2) == 1
	flags.StrictEqual = strict
	view, err := Select(verifCtx(), scope, verifC04Queries[qi])
	verifAssert("select succeeds", err == nil)
	switch qi {
	case 7:
		verifAssert("two partitions: all rows kept", view.RecordLen() == n)
		for r := 0; r < view.RecordLen(); r++ {
			id := int(verifIntCell(view.RecordSet[r][0][0]))
			ck, cg := 0, 0
			for i := 0; i < n; i++ {
				if class[i] == class[id] {
					ck++
				}
				if same(keys[n-1-i], keys[n-1-id]) {
					cg++
				}
			}
			verifAssert("count(*) over the partition by k", verifIntCell(view.RecordSet[r][1][0]) == int64(ck))
			verifAssert("count(*) over the partition by g", verifIntCell(view.RecordSet[r][2][0]) == int64(cg))
			verifAssert("count(*) over the partition by the leading column", verifIntCell(view.RecordSet[r][3][0]) == 1)
		}
	case 8:
		identical := func(a, b value.Primary) bool {
			switch x := a.(type) {
			case *value.Integer:
				y, ok := b.(*value.Integer)
				return ok && x.Raw() == y.Raw()
			case *value.Float:
				y, ok := b.(*value.Float)
				return ok && x.Raw() == y.Raw()
			case *value.String:
				y, ok := b.(*value.String)
				return ok && x.Raw() == y.Raw()
			}
			return false
		}
		distinct, nonNull := 0, 0
		for i := 0; i < n; i++ {
			if value.IsNull(keys[i]) {
				continue
			}
			nonNull++
			first := true
			for j := 0; j < i; j++ {
				if value.IsNull(keys[j]) {
					continue
				}
				if (strict && identical(keys[i], keys[j])) || (!strict && same(keys[i], keys[j])) {
					first = false
				}
			}
			if first {
				distinct++
			}
		}
		verifAssert("one result row", view.RecordLen() == 1)
		if view.RecordLen() == 1 {
			verifAssert("count(distinct k) counts the buckets of the non-NULL keys", verifIntCell(view.RecordSet[0][0][0]) == int64(distinct))
			verifAssert("count(k) counts the non-NULL keys", verifIntCell(view.RecordSet[0][1][0]) == int64(nonNull))
			verifAssert("count(distinct <constant>) counts one value", verifIntCell(view.RecordSet[0][2][0]) == 1)
			verifAssert("count(<constant>) counts the rows", verifIntCell(view.RecordSet[0][3][0]) == int64(n))
			verifAssert("count(distinct NULL) counts nothing", verifIntCell(view.RecordSet[0][4][0]) == 0)
		}
	case 0:
		verifAssert("one group per class", view.RecordLen() == len(reps))
		for g := 0; g < view.RecordLen(); g++ {
			rec := view.RecordSet[g]
			verifAssert("groups in first-occurrence order", same(rec[0][0], keys[reps[g]]))
			cnt, min, max := 0, -1, -1
			var ids []string
			for i := 0; i < n; i++ {
				if class[i] == g {
					cnt++
					if min < 0 {
						min = i
					}
					max = i
					ids = append(ids, strconv.Itoa(i))
				}
			}
			verifAssert("count(*) over the bucket", verifIntCell(rec[1][0]) == int64(cnt))
			verifAssert("min(id) over the bucket", verifIntCell(rec[2][0]) == int64(min))
			verifAssert("max(id) over the bucket", verifIntCell(rec[3][0]) == int64(max))
			verifAssert("listagg(id) over the bucket", rec[4][0].(*value.String).Raw() == strings.Join(ids, ","))
		}
	case 9:
		verifAssert("one group per class", view.RecordLen() == len(reps))
		num := func(p value.Primary) float64 {
			switch x := p.(type) {
			case *value.Integer:
				return float64(x.Raw())
			case *value.Float:
				return x.Raw()
			}
			return -999
		}
		for g := 0; g < view.RecordLen() && g < len(reps); g++ {
			rec := view.RecordSet[g]
			var ids []float64
			js := "["
			for i := 0; i < n; i++ {
				if class[i] == g {
					if len(ids) > 0 {
						js += ","
					}
					ids = append(ids, float64(i))
					js += strconv.Itoa(i)
				}
			}
			js += "]"
			sum := 0.0
			for _, x := range ids {
				sum += x
			}
			cnt := float64(len(ids))
			med := ids[len(ids)/2]
			if len(ids)%2 == 0 {
				med = (ids[len(ids)/2-1] + ids[len(ids)/2]) / 2
			}
			verifAssert("sum(id) over the bucket", num(rec[1][0]) == sum)
			verifAssert("avg(id) over the bucket", num(rec[2][0]) == sum/cnt)
			verifAssert("median(id) over the bucket", num(rec[3][0]) == med)
			j, ok := rec[4][0].(*value.String)
			verifAssert("json_agg(id) over the bucket", ok && j.Raw() == js)
			if len(ids) < 2 {
				verifAssert("var / stdev of a single row", value.IsNull(rec[5][0]) && value.IsNull(rec[6][0]))
			} else {
				ss := 0.0
				for _, x := range ids {
					ss += (x - sum/cnt) * (x - sum/cnt)
				}
				v := num(rec[5][0])
				verifAssert("var(id) over the bucket", v > ss/(cnt-1)-1e-9 && v < ss/(cnt-1)+1e-9)
				sd := num(rec[6][0])
				verifAssert("stdev(id) over the bucket", sd*sd > ss/(cnt-1)-1e-6 && sd*sd < ss/(cnt-1)+1e-6)
			}
		}
	case 1:
		verifAssert("distinct: one row per class", view.RecordLen() == len(reps))
		for g := 0; g < view.RecordLen(); g++ {
			verifAssert("distinct: first occurrence kept, in order", view.RecordSet[g][0][0] == keys[reps[g]])
		}
	case 2, 3, 4:
		// expected set semantics over t (classes) and u = {keys[0], extra}
		inU := func(k value.Primary) bool { return !uEmpty && (same(k, keys[0]) || same(k, extra)) }
		var want []value.Primary
		switch qi {
		case 2:
			for _, r := range reps {
				want = append(want, keys[r])
			}
			if !uEmpty && !func() bool {
				for _, r := range reps {
					if same(extra, keys[r]) {
						return true
					}
				}
				return false
			}() {
				want = append(want, extra)
			}
		case 3:
			for _, r := range reps {
				if inU(keys[r]) {
					want = append(want, keys[r])
				}
			}
		default:
			for _, r := range reps {
				if !inU(keys[r]) {
					want = append(want, keys[r])
				}
			}
		}
		verifAssert("set operator: number of rows", view.RecordLen() == len(want))
		for g := 0; g < view.RecordLen() && g < len(want); g++ {
			verifAssert("set operator: rows and order", same(view.RecordSet[g][0][0], want[g]))
		}
	case 6:
		verifAssert("partition after reordering: all rows kept", view.RecordLen() == n)
		for r := 0; r < view.RecordLen(); r++ {
			id := int(verifIntCell(view.RecordSet[r][0][0]))
			cnt := 0
			for i := 0; i < n; i++ {
				if class[i] == class[id] {
					cnt++
				}
			}
			verifAssert("count(*) over the partition after another function reordered the rows", verifIntCell(view.RecordSet[r][1][0]) == int64(cnt))
		}
	default:
		verifAssert("partition: all rows kept", view.RecordLen() == n)
		for r := 0; r < view.RecordLen(); r++ {
			id := int(verifIntCell(view.RecordSet[r][0][0]))
			cnt := 0
			var ids []string
			for i := 0; i < n; i++ {
				if class[i] == class[id] {
					cnt++
					ids = append(ids, strconv.Itoa(i))
				}
			}
			verifAssert("count(*) over the partition", verifIntCell(view.RecordSet[r][1][0]) == int64(cnt))
			verifAssert("listagg over the partition", view.RecordSet[r][2][0].(*value.String).Raw() == strings.Join(ids, ","))
		}
	}
	verifObserve("rows", int64(view.RecordLen()))
	verifReach("end")
}
