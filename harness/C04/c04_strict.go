package query

//verif:property C04
//verif:pkg lib/query
//verif:setup VerifC04StrictSetup
//verif:harness VerifC04StrictBuckets mode=bv tier=quick split=4

import (
	"github.com/mithrandie/csvq/lib/parser"
	"github.com/mithrandie/csvq/lib/value"
)

var verifC04StrictQ []parser.SelectQuery

func VerifC04StrictSetup() {
	for _, s := range []string{
		"select k, count(*) from t group by k",
		"select distinct k from t",
		"select id, count(*) over (partition by k) from t",
		"select id, row_number() over (partition by k order by id), count(*) over (partition by k order by id desc) from t",
		"select k from t union select k from t",
	} {
		verifC04StrictQ = append(verifC04StrictQ, verifParseSelect(s))
	}
}

// Under --strict-equal two values share a bucket only if they have the same type and the same text: the
// spellings '1', '1.0', '01' of one number, the integer 1, the float 1.0, 'a' and 'A', a date with and
// without its time, and NULL, on 3 rows (thorough 4), through GROUP BY, DISTINCT, PARTITION BY (two forms)
// and UNION.  (Texts with edge blanks are left out: csvq trims them also in strict mode, see DESIGN.md §7.)
func VerifC04StrictBuckets() {
	tx := verifNewTx()
	tx.Flags.StrictEqual = true
	scope := NewReferenceScope(tx)
	n := verifBound(3, 4)
	menu := []value.Primary{value.NewNull(), value.NewString("1"), value.NewString("1.0"), value.NewString("01"), value.NewInteger(1), value.NewFloat(1),
		value.NewString("a"), value.NewString("A"), value.NewString("2012-02-03"), value.NewString("2012-02-03 00:00:00")}
	pick := make([]int, n)
	rows := make([][]value.Primary, n)
	for i := range rows {
		pick[i] = verifChoice("k", len(menu))
		rows[i] = []value.Primary{value.NewInteger(int64(i)), menu[pick[i]]}
	}
	verifTempTable(scope, "t", []string{"id", "k"}, rows)
	qi := verifChoice("query", len(verifC04StrictQ))
	view, err := Select(verifCtx(), scope, verifC04StrictQ[qi])
	verifAssert("select succeeds", err == nil)
	if err != nil {
		return
	}
	// buckets in first-occurrence order: the menu entries are pairwise different under strict equality
	var reps []int
	size := map[int]int{}
	for i := 0; i < n; i++ {
		if size[pick[i]] == 0 {
			reps = append(reps, pick[i])
		}
		size[pick[i]]++
	}
	switch qi {
	case 0, 1, 4:
		verifAssert("one row per bucket", view.RecordLen() == len(reps))
		for g := 0; g < view.RecordLen() && g < len(reps); g++ {
			verifAssert("buckets in first-occurrence order, with the first row's value", verifSamePrimary(view.RecordSet[g][0][0], menu[reps[g]]))
			if qi == 0 {
				verifAssert("count(*) of the bucket", verifIdOf(view.RecordSet[g][1][0]) == size[reps[g]])
			}
		}
	default:
		verifAssert("all rows kept", view.RecordLen() == n)
		for r := 0; r < view.RecordLen(); r++ {
			id := verifIdOf(view.RecordSet[r][0][0])
			if id < 0 || id >= n {
				verifAssert("row identity", false)
				return
			}
			if qi == 2 {
				verifAssert("count(*) over the strict partition", verifIdOf(view.RecordSet[r][1][0]) == size[pick[id]])
			} else {
				before, after := 0, 0
				for j := 0; j < n; j++ {
					if pick[j] == pick[id] && j <= id {
						before++
					}
					if pick[j] == pick[id] && j >= id {
						after++
					}
				}
				verifAssert("row_number() within the strict partition", verifIdOf(view.RecordSet[r][1][0]) == before)
				verifAssert("running count(*) within the strict partition", verifIdOf(view.RecordSet[r][2][0]) == after)
			}
		}
	}
	verifObserve("rows", int64(view.RecordLen()))
	verifReach("end")
}
