package query

//verif:property C19
//verif:pkg lib/query
//verif:harness VerifC19RecordSetSizing mode=real tier=quick

import (
	"io"

	"github.com/mithrandie/go-text"
)

// verifRows is a RecordReader that yields n one-cell rows of w bytes each.
type verifRows struct {
	n, w, i int
}

func (r *verifRows) Read() ([]text.RawText, error) {
	if r.i >= r.n {
		return nil, io.EOF
	}
	r.i++
	return []text.RawText{make(text.RawText, r.w)}, nil
}

// readRecordSet re-sizes its record buffer once, at the 301st record, from the ratio of the file
// size (bytes on disk) to the bytes decoded so far.  The two are independent numbers - a decoder
// may expand or shrink the text (Shift_JIS, UTF-16, BOM), the file may grow or be truncated while
// it is read - so the file size is an arbitrary int64 here and the decoded width of the first 300
// rows is 0..3 bytes per row: for every such pair loading ends without an internal error and with
// all 302 records.  (Real arithmetic stands for float64; sizes up to 2^62.)
func VerifC19RecordSetSizing() {
	size := verifInt64("file-size")
	verifAssume(verifAnd(size >= 0, size <= 1<<62))
	w := verifChoice("row-width", 4)
	rs, err := readRecordSet(verifCtx(), &verifRows{n: 302, w: w}, size)
	if err != nil {
		_, fatal := err.(*FatalError)
		verifAssert("loading never ends in an internal Fatal Error", !fatal)
	}
	verifAssert("all records are loaded", err != nil || len(rs) == 302)
	verifReach("end")
}
