package value

//verif:property C19
//verif:pkg lib/value
//verif:harness VerifC19DatetimeText mode=bv tier=quick split=8

import "time"

// Every text is tried as a datetime when it is compared, sorted, grouped or cast.  StrToTime picks
// the layout from bytes at fixed positions (s[4], s[10], s[len-6]): for every text of 0..12 bytes
// (thorough 0..14) over the characters that steer it, it returns without indexing outside the text.
func VerifC19DatetimeText() {
	n := verifChoice("len", verifBound(13, 15))
	b := make([]byte, n)
	for i := range b {
		c := verifByte("c")
		ok := verifOr(verifOr(verifOr(c == '1', c == '-'), verifOr(c == '/', c == ' ')), verifOr(verifOr(c == 'T', c == 'Z'), verifOr(c == '+', c == ':')))
		verifAssume(ok)
		b[i] = c
	}
	_, ok := StrToTime(string(b), nil, time.UTC)
	verifObserveBool("datetime", ok)
	verifReach("end")
}
