package query

//verif:property C19
//verif:pkg lib/query
//verif:setup VerifC19FormatSetup
//verif:harness VerifC19FormatStrings mode=bv tier=quick split=8

import (
	"github.com/mithrandie/csvq/lib/parser"
	"github.com/mithrandie/csvq/lib/value"
)

var verifC19FormatFn []parser.QueryExpression

func VerifC19FormatSetup() {
	for _, s := range []string{"format(@fmt, @a)", "format(@fmt, @a, @b)", "datetime_format(@d, @fmt)", "number_format(@b, @n, @fmt, @fmt)"} {
		q := verifParseSelect("select " + s)
		verifC19FormatFn = append(verifC19FormatFn, q.SelectEntity.(parser.SelectEntity).SelectClause.(parser.SelectClause).Fields[0].(parser.Field).Object)
	}
}

// Format strings are small programs interpreted by csvq (FORMAT placeholders with flag, width and
// precision; DATETIME_FORMAT specifiers): for every format string of up to 4 characters (thorough 5)
// over the characters those interpreters distinguish, with a short text, a number or NULL as the
// value, the function returns a value or an ordinary error - never an internal failure.
func VerifC19FormatStrings() {
	fi := verifChoice("fn", len(verifC19FormatFn))
	n := verifChoice("len", verifBound(5, 6))
	b := make([]byte, n)
	for i := range b {
		c := verifByte("c")
		ok := verifOr(verifOr(verifOr(c == '%', c == '.'), verifOr(c == '-', c == '+')), verifOr(verifOr(verifOr(c == '0', c == '5'), verifOr(c == 's', c == 'd')), verifOr(verifOr(c == 'T', c == 'q'), verifOr(verifOr(c == 'x', c == ' '), verifOr(c == 'e', c == 'Y')))))
		verifAssume(ok)
		b[i] = c
	}
	tx := verifNewTx()
	scope := NewReferenceScope(tx)
	verifVar(scope, "fmt", value.NewString(string(b)))
	var a value.Primary
	switch verifChoice("value", 4) {
	case 0:
		a = value.NewString("ab")
	case 1:
		a = value.NewInteger(12)
	case 2:
		a = value.NewFloat(-2.5)
	default:
		a = value.NewNull()
	}
	verifVar(scope, "a", a)
	verifVar(scope, "b", value.NewInteger(-7))
	verifVar(scope, "n", value.NewInteger(2))
	verifVar(scope, "d", value.NewDatetime(verifEpoch()))
	_, err := Evaluate(verifCtx(), scope, verifC19FormatFn[fi])
	if err != nil {
		_, fatal := err.(*FatalError)
		verifAssert("no internal failure", !fatal)
	}
	verifObserveBool("error", err != nil)
	verifReach("end")
}
