package query

//verif:property C19
//verif:pkg lib/query
//verif:setup VerifC19DegenerateSetup
//verif:harness VerifC19DegenerateTables mode=bv tier=quick split=6

import (
	"github.com/mithrandie/csvq/lib/parser"
)

var verifC19DegSrc = []string{
	"select * from %T;", "select count(*) from %T;", "select count(*), json_object() from %T;", "select json_object() from %T;",
	"delete from %T;", "update %T set a = 1;", "insert into %T values (1);", "insert into %T select 1;", "replace into %T (a) using (a) values (1);",
	"replace into %T (a) using (a, a) values (1);", "replace into %T (a, a) using (a) values (1, 2);", "insert into %T (a, a) values (1, 2);",
	"alter table %T add z;", "alter table %T drop a;", "alter table %T rename a to b;", "alter table %T add (p, q) first;",
	"select distinct * from %T;", "select * from %T order by 1;", "select a, count(*) from %T group by a;", "select * from %T union select * from %T;",
	"select row_number() over (order by 1), count(*) over () from %T;", "select * from %T x cross join %T y;", "select * from %T x natural join %T y;",
	"select * from %T x inner join %T y using (a);", "select * from %T x full join %T y on x.a = y.a;", "select * from %T limit 1 with ties;", "select * from %T limit 50 percent;",
	"select * from (select 1 as a from %T where false) join (select 1 as a) using (a);", "select * from (select 1 as a from %T where false) natural join (select 1 as a);",
	"select * from (select 1 as a) left join (select 1 as a from %T where false) using (a);", "select * from (select 1 as a from %T where false) s inner join (select 1 as a) u using (a);",
	"select count(*), json_object(), max(a), listagg(a) from %T where false;", "select json_object(a), json_agg(a) from %T where false;", "select sum(a), avg(a), median(a), stdev(a), var(a) from %T where false;",
	"select (select a from %T where false), exists (select 1 from %T where false), 1 in (select a from %T where false), 1 > all (select a from %T where false);",
	"declare c cursor for select * from %T where false; open c; var @x; fetch c into @x; fetch last c into @x; fetch absolute 0 c into @x; select cursor c is in range, cursor c count;",
	"select * from %T where a in (select a from %T) for update;", "create table `n.csv` select * from %T;", "create table `n.csv` (x) select * from %T where false;",
	"update %T set a = a where a in (select a from %T);", "delete x from %T x inner join %T y on x.a = y.a;", "update x set x.a = y.a from %T x cross join %T y;",
	"select * from (select * from t where false) x full join %T y on x.a = y.a;", "select * from %T x full join (select * from t where false) y on x.a = y.a;",
	"select * from (select * from t where false) x left join %T y on x.a = y.a;", "select * from %T x right join (select * from t where false) y using (a);",
	"select * from (select * from t where false) x full join t y using (a);", "select * from t x full join (select * from t where false) y using (a);",
	"with recursive r (n) as (select 1 from %T union all select n + 1 from r where n < 2) select * from r;", "select * from %T x, lateral (select count(*) as c from %T y where y.a = x.a) s;",
}
var verifC19DegTables = []string{"`e.csv`", "z", "`h.csv`", "t"}
var verifC19DegStmts [][][]parser.Statement
var verifC19DegDecl []parser.Statement

func VerifC19DegenerateSetup() {
	for _, tn := range verifC19DegTables {
		var l [][]parser.Statement
		for _, s := range verifC19DegSrc {
			l = append(l, verifParse(verifC19Subst(s, tn)))
		}
		verifC19DegStmts = append(verifC19DegStmts, l)
	}
	verifC19DegDecl = verifParse("declare z view (a); insert into z values (1); alter table z drop a; declare t view (a); insert into t values (1), (1);")
}

func verifC19Subst(src, name string) string {
	out := ""
	for i := 0; i < len(src); i++ {
		if src[i] == '%' && i+1 < len(src) && src[i+1] == 'T' {
			out += name
			i++
		} else {
			out += string(src[i])
		}
	}
	return out
}

// Degenerate tables - an empty file (a table without any column), a temporary table that lost its only
// column but kept its record, a file with a header line and no record, an ordinary table as a control -
// under ~45 statements of every kind (queries with every clause, joins with empty sides, aggregates over
// nothing, cursors on empty results, data-changing and defining statements, duplicate column lists): each
// ends normally or with an ordinary error, never with a Go panic or an internal Fatal Error.
func VerifC19DegenerateTables() {
	verifFileWrite("e.csv", "")
	verifFileWrite("h.csv", "a\n")
	tx := verifNewTx()
	tx.Flags.Quiet = true
	proc := NewProcessor(tx)
	_, err := proc.Execute(verifCtx(), verifC19DegDecl)
	verifAssert("the temporary tables are declared", err == nil)
	ti := verifChoice("table", len(verifC19DegTables))
	si := verifChoice("statement", len(verifC19DegSrc))
	_, err = proc.Execute(ContextForStoringResults(verifCtx()), verifC19DegStmts[ti][si])
	_, fatal := err.(*FatalError)
	verifAssert("no internal failure", !fatal)
	for _, v := range tx.SelectedViews {
		for _, rec := range v.RecordSet {
			verifAssert("every record has as many fields as the header", len(rec) == v.FieldLen())
		}
	}
	_ = proc.AutoRollback()
	_ = proc.ReleaseResourcesWithErrors()
	verifObserveBool("error", err != nil)
	verifReach("end")
}
