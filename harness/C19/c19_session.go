package query

//verif:property C19
//verif:pkg lib/query
//verif:setup VerifC19SessionSetup
//verif:harness VerifC19SessionAfterFailures mode=bv tier=quick split=6

import (
	"github.com/mithrandie/csvq/lib/parser"
)

var verifC19SessStmts [][]parser.Statement

func VerifC19SessionSetup() {
	for _, s := range []string{
		"select * from t;",
		"update t set v = 'z' where id = '1';",
		"select * from t for update;",
		"commit;",
		"rollback;",
		"alter table t add w default 'd';",
	} {
		verifC19SessStmts = append(verifC19SessStmts, verifParse(s))
	}
}

// A session that goes on after statements have failed (the interactive shell, a library caller): a
// history of 4 steps (thorough 5) over reading and data-changing statements, COMMIT and ROLLBACK on a table
// file that another program damages (a record with too few fields), removes or repairs in between.  Every statement ends normally or with an error - never with a Go panic
// or an internal Fatal Error - and at the end, after ROLLBACK and release, no control file is left.
func VerifC19SessionAfterFailures() {
	const good = "id,v\n1,a\n2,b\n"
	verifFileWrite("t.csv", good)
	tx := verifNewTx()
	tx.Flags.Quiet = true
	proc := NewProcessor(tx)
	steps := verifBound(4, 5)
	held := false
	// the session starts by reading the table and ends with COMMIT, ROLLBACK and the release of its resources
	_, _ = proc.Execute(ContextForStoringResults(verifCtx()), verifC19SessStmts[0])
	for s := 0; s < steps; s++ {
		op := verifChoice("step", len(verifC19SessStmts)+3)
		if op >= len(verifC19SessStmts) {
			if held {
				continue // the table is locked by this transaction: other programs keep out (C09)
			}
			switch op - len(verifC19SessStmts) {
			case 0:
				verifFileWrite("t.csv", "id,v\n1,a\n2\n")
			case 1:
				verifFileRemove("t.csv")
			default:
				verifFileWrite("t.csv", good)
			}
			continue
		}
		_, err := proc.Execute(ContextForStoringResults(verifCtx()), verifC19SessStmts[op])
		_, fatal := err.(*FatalError)
		verifAssert("no internal failure", !fatal)
		verifObserveBool("error", err != nil)
		held = verifFileExists(".t.csv.lock")
	}
	_, err := proc.Execute(verifCtx(), verifC19SessStmts[3])
	_, fatal := err.(*FatalError)
	verifAssert("no internal failure at the final COMMIT", !fatal)
	_, _ = proc.Execute(verifCtx(), verifC19SessStmts[4])
	e1 := proc.AutoRollback()
	e2 := proc.ReleaseResourcesWithErrors()
	verifAssert("rollback and release end without an error", e1 == nil && e2 == nil)
	verifAssert("no control files are left", !verifFileExists(".t.csv.lock") && !verifFileExists(".t.csv.temp"))
	verifReach("end")
}
