package file

//verif:property C19
//verif:pkg lib/file
//verif:harness VerifC19ForeignLockHolder mode=bv tier=quick

import (
	"context"
	"time"
)

// Another program (not csvq: no .lock file) holds an advisory lock on the data file and never
// releases it.  Opening the table for reading (exclusive holder) or for update (any holder) with a
// wait timeout, from a context that itself never ends, must end - with the documented lock-wait
// timeout error - and leave no control files; it must not wait forever.  The deadline of the wait
// fires at a retry chosen by the engine (at the latest the third).
func VerifC19ForeignLockHolder() {
	verifFileWrite("t.csv", "a\n1\n")
	exclusive := verifChoice("holder-exclusive", 2) == 1
	forUpdate := verifChoice("for-update", 2) == 1
	verifForeignFlock("t.csv", exclusive)
	verifTimers(true)
	c := NewContainer()
	var h *Handler
	var err error
	returned := verifWithin(func() {
		if forUpdate {
			h, err = c.CreateHandlerForUpdate(context.Background(), "t.csv", 30*time.Millisecond, time.Millisecond)
		} else {
			h, err = c.CreateHandlerForRead(context.Background(), "t.csv", 30*time.Millisecond, time.Millisecond)
		}
	})
	verifAssert("the attempt ends instead of waiting forever", returned)
	if !returned {
		return
	}
	blocked := exclusive || forUpdate
	if blocked {
		_, isTimeout := err.(*TimeoutError)
		verifAssert("a blocked attempt ends with the lock-wait timeout error", err != nil && isTimeout)
	} else {
		verifAssert("a shared holder does not block a reader", err == nil)
		if err == nil {
			verifAssert("close succeeds", c.Close(h) == nil)
		}
	}
	verifAssert("no control files are left", verifControlFilesLeft() == 0)
	verifObserveBool("timeout", err != nil)
	verifReach("end")
}
