package query

//verif:property C19
//verif:pkg lib/query
//verif:harness VerifC19ColumnNames mode=bv tier=quick split=4
//verif:harness VerifC19CellTexts mode=bv tier=quick split=4

import (
	"github.com/mithrandie/csvq/lib/option"
	"github.com/mithrandie/csvq/lib/value"
)

// Column names are object paths in JSON output and labels in LTSV: two columns named from a menu of
// nested, conflicting, empty-segment and special-character names, encoded in every output format:
// text or an ordinary error, never an internal failure.
func VerifC19ColumnNames() {
	names := []string{"a", "a.b", "a.b.c", "b", "a..b", ".a", "a.", "", "x:y", "a\nb", "a`b", "a\\.b"}
	n1 := names[verifChoice("name", len(names))]
	n2 := names[verifChoice("name", len(names))]
	formats := []option.Format{option.JSON, option.JSONL, option.LTSV, option.CSV, option.FIXED, option.GFM, option.BOX, option.TEXT, option.ORG}
	f := formats[verifChoice("format", len(formats))]
	view := NewView()
	view.Header = NewHeader("t", []string{n1, n2})
	view.RecordSet = RecordSet{NewRecord([]value.Primary{value.NewInteger(1), value.NewString("s")})}
	tx := verifNewTx()
	opts := tx.Flags.ExportOptions.Copy()
	opts.Format = f
	var sink verifSink
	_, err := EncodeView(verifCtx(), &sink, view, opts, tx.Palette)
	if err != nil {
		_, fatal := err.(*FatalError)
		verifAssert("no internal failure", !fatal)
	}
	verifObserveBool("error", err != nil)
	verifReach("end")
}

type verifSink struct{ n int }

func (s *verifSink) Write(p []byte) (int, error) { s.n += len(p); return len(p), nil }

// A text cell of 0..2 symbolic bytes (thorough 0..3) over line breaks, the table-drawing characters,
// a blank and a letter, printed in every output format: text or an ordinary error.
func VerifC19CellTexts() {
	formats := []option.Format{option.JSON, option.JSONL, option.LTSV, option.CSV, option.FIXED, option.GFM, option.BOX, option.TEXT, option.ORG}
	f := formats[verifChoice("format", len(formats))]
	n := verifChoice("cell-len", verifBound(3, 4))
	cell := make([]byte, n)
	for i := range cell {
		c := verifByte("cell")
		verifAssume(verifOr(verifOr(c == '\r', c == '\n'), verifOr(verifOr(c == '|', c == '\t'), verifOr(c == 'a', c == ' '))))
		cell[i] = c
	}
	view := NewView()
	view.Header = NewHeader("t", []string{"a", "b"})
	view.RecordSet = RecordSet{NewRecord([]value.Primary{value.NewInteger(1), value.NewString(string(cell))}), NewRecord([]value.Primary{value.NewNull(), value.NewString("z")})}
	tx := verifNewTx()
	opts := tx.Flags.ExportOptions.Copy()
	opts.Format = f
	var sink verifSink
	_, err := EncodeView(verifCtx(), &sink, view, opts, tx.Palette)
	if err != nil {
		_, fatal := err.(*FatalError)
		verifAssert("no internal failure", !fatal)
	}
	verifObserveBool("error", err != nil)
	verifReach("end")
}
