package query

//verif:property C19
//verif:pkg lib/query
//verif:setup VerifC19Setup
//verif:harness VerifC19LoadArbitraryCsv mode=bv tier=quick split=10
//verif:harness VerifC19FileStates mode=bv tier=quick split=2
//verif:harness VerifC19FunctionArgs mode=bv tier=quick split=8

import (
	"github.com/mithrandie/csvq/lib/parser"
	"github.com/mithrandie/csvq/lib/value"
)

var verifC19Select, verifC19SelectL, verifC19SelectT []parser.Statement
var verifC19Fn []parser.QueryExpression

var verifC19FnSrc = []string{
	"lpad(@s, @n, 'x')", "rpad(@s, @n, @s)", "substring(@s, @n)", "substring(@s, @n, @m)", "substr(@s, @n, @m)", "list_elem(@s, 'b', @n)",
	"round(@f, @n)", "ceil(@f, @n)", "floor(@f, @n)", "pow(@n, @m)", "@n / @m", "@n % @m", "-@n", "abs(@n)", "bin(@n)", "hex(@n)", "oct(@n)",
	"add_day(@d, @n)", "add_month(@d, @n)", "add_year(@d, @n)", "add_nano(@d, @n)", "trunc_month(@d)", "datetime(@n)", "datetime_format(@d, @s)",
	"integer(@f)", "integer(@s)", "float(@s)", "string(@n)", "boolean(@n)", "ternary(@s)", "datetime(@s)",
	"instr(@s, @s)", "replace(@s, @s, @s)", "format(@s, @n)", "number_format(@n, @m)", "enotation(@n)", "base64_decode(@s)", "hex_decode(@s)",
	"rand(@n, @m)", "width(@s)", "nullif(@n, @m)", "coalesce(@z, @n)", "json_value(@s, @s)", "json_object()",
	"count(@n)", "regexp_match(@s, @s)", "@s like @s",
}

func VerifC19Setup() {
	verifC19Select = verifParse("select * from `f.csv`; select count(*), max(1) from `f.csv`; select distinct * from `f.csv`;")
	verifC19SelectL = verifParse("select * from `f.ltsv`; select count(*) from `f.ltsv`;")
	verifC19SelectT = verifParse("select * from t; insert into `new/x.csv` values (1); select * from `d.csv`;")
	for _, s := range verifC19FnSrc {
		q := verifParseSelect("select " + s)
		verifC19Fn = append(verifC19Fn, q.SelectEntity.(parser.SelectEntity).SelectClause.(parser.SelectClause).Fields[0].(parser.Field).Object)
	}
}

// A data file of up to 4 arbitrary bytes (thorough 5) over the characters the CSV/LTSV readers
// treat specially, loaded by the real loaders with every combination of --no-header and
// --allow-uneven-fields: the statement ends with rows or with an error, never with a recovered
// panic (Fatal Error), and every record of a loaded table has as many fields as the header.
func VerifC19LoadArbitraryCsv() {
	n := verifChoice("len", verifBound(5, 6))
	alpha := []byte{',', '"', '\n', '\r', 'a', ' ', ':', '\t'}
	b := make([]byte, n)
	for i := range b {
		b[i] = alpha[verifChoice("c", len(alpha))]
	}
	ltsv := verifChoice("ltsv", 2) == 1
	tx := verifNewTx()
	tx.Flags.Quiet = true
	tx.Flags.ImportOptions.NoHeader = verifChoice("no-header", 2) == 1
	tx.Flags.ImportOptions.AllowUnevenFields = verifChoice("uneven", 2) == 1
	proc := NewProcessor(tx)
	stmts := verifC19Select
	if ltsv {
		verifFileWrite("f.ltsv", string(b))
		stmts = verifC19SelectL
	} else {
		verifFileWrite("f.csv", string(b))
	}
	_, err := proc.Execute(ContextForStoringResults(verifCtx()), stmts)
	if err == nil {
		for _, v := range tx.SelectedViews {
			for r := range v.RecordSet {
				verifAssert("every record has as many fields as the header", len(v.RecordSet[r]) == v.FieldLen())
			}
		}
	} else {
		_, fatal := err.(*FatalError)
		verifAssert("no internal failure", !fatal)
	}
	_ = proc.ReleaseResourcesWithErrors()
	verifObserveBool("error", err != nil)
	verifReach("end")
}

// Hostile file-system states: missing table, table in a missing directory, a directory in place of
// a table, a removed working directory (also for SHOW RUNINFO and the runtime information), an injected I/O
// fault: every statement ends with an
// ordinary error.
func VerifC19FileStates() {
	state := verifChoice("state", 9)
	tx := verifNewTx()
	tx.Flags.Quiet = true
	proc := NewProcessor(tx)
	var stmts []parser.Statement
	switch state {
	case 0:
		stmts = verifParse("select * from nosuch;")
	case 1:
		stmts = verifParse("create table `nodir/x.csv` (a);")
	case 2:
		verifFileWrite("dir.csv/inner", "x")
		verifFileRemove("dir.csv/inner")
		stmts = verifParse("select * from `dir.csv`;")
	case 3:
		verifFileWrite("t.csv", "a\n1\n")
		verifFileRemove(".")
		stmts = verifParse("select * from t;")
	case 7:
		// session statements in a removed working directory
		verifFileWrite("t.csv", "a\n1\n")
		verifFileRemove(".")
		stmts = verifParse("show runinfo;")
	case 8:
		verifFileWrite("t.csv", "a\n1\n")
		verifFileRemove(".")
		stmts = verifParse("show tables; select @#working_directory;")
	case 4:
		verifFileWrite("t.csv", "a\n1\n")
		verifFaults(1)
		stmts = verifParse("update t set a = 2; commit;")
	case 5:
		// the same file as a table and as an inline table in one transaction
		verifFileWrite("t.csv", "a\n1\n")
		stmts = verifParse("select * from t; select * from csv_inline(',', `t.csv`); update t set a = 2; select * from csv_inline(',', `t.csv`); rollback;")
	default:
		verifFileWrite("t.csv", "a\n1\n")
		stmts = verifParse("select * from csv_inline(',', `t.csv`); select * from t; select * from csv(',', `t.csv`);")
	}
	_, err := proc.Execute(verifCtx(), stmts)
	verifFaults(0)
	if err != nil {
		_, fatal := err.(*FatalError)
		verifAssert("no internal failure", !fatal)
	}
	_ = proc.AutoRollback()
	_ = proc.ReleaseResourcesWithErrors()
	verifObserveBool("error", err != nil)
	verifReach("end")
}

// Built-in functions and operators with NULL, negative, zero and large arguments: a value or an
// ordinary error, never a panic.
func VerifC19FunctionArgs() {
	tx := verifNewTx()
	scope := NewReferenceScope(tx)
	ints := []int64{0, -1, 1, 3, -100, 100, 9223372036854775807, -9223372036854775808}
	nArg := ints[verifChoice("n", len(ints))]
	mArg := ints[verifChoice("m", len(ints))]
	strs := []string{"", "abc", "%d", "[", "{\"a\":1}", "ａ", "-1"}
	verifVar(scope, "n", value.NewInteger(nArg))
	verifVar(scope, "m", value.NewInteger(mArg))
	verifVar(scope, "s", value.NewString(strs[verifChoice("s", len(strs))]))
	verifVar(scope, "f", value.NewFloat([]float64{0, -2.5, 1e300}[verifChoice("f", 3)]))
	verifVar(scope, "d", value.NewDatetime(verifEpoch()))
	verifVar(scope, "z", value.NewNull())
	fi := verifChoice("fn", len(verifC19FnSrc))
	if (mArg > 1000 || mArg < -1000) && !(fi == 3 || fi == 4 || fi == 5) {
		// an extreme second number only for the substring / list functions: as a precision or an
		// exponent it asks for an absurd amount of memory (resource exhaustion, not an internal failure)
		verifReach("skipped: extreme second number")
		return
	}
	if (fi == 0 || fi == 1) && nArg > 1000 && nArg < 1<<62 {
		verifReach("skipped: padding to an absurd length is resource exhaustion, not an internal failure")
		return
	}
	_, err := Evaluate(verifCtx(), scope, verifC19Fn[fi])
	if err != nil {
		_, fatal := err.(*FatalError)
		verifAssert("no internal failure", !fatal)
	}
	verifObserveBool("error", err != nil)
	verifReach("end")
}
