package query

//verif:property C19
//verif:pkg lib/query
//verif:setup VerifC19StatementsSetup
//verif:harness VerifC19OddStatements mode=bv tier=quick split=8

import (
	"math"
	"time"

	"github.com/mithrandie/csvq/lib/parser"
	"github.com/mithrandie/csvq/lib/value"
)

var verifC19StmtSrc = []string{
	"execute @v;", "execute @v using 1;", "prepare p from 'select'; execute p;", "prepare p from 'select ?'; execute p; execute p using 1, 2;",
	"source @v;", "chdir @v;", "pwd;", "echo @v;", "print @v;", "printf @v;", "printf '%s %s', @v;", "printf '%q', @v, @v;",
	"show runinfo;", "show tables;", "show views;", "show cursors;", "show functions;", "show statements;", "show flags;", "show nosuch;",
	"show fields from nosuch;", "show fields from t;", "show @@cpu;", "show @@nosuch;",
	"set @@cpu to @v;", "set @@limit_recursion to @v;", "set @@delimiter to @v;", "set @@encoding to @v;", "set @@format to @v;",
	"set @@wait_timeout to @v;", "set @@datetime_format to @v;", "set @@timezone to @v;", "set @@line_break to @v;", "set @@delimiter_positions to @v;",
	"add @v to @@datetime_format;", "remove @v from @@datetime_format;", "set @%V to @v; unset @%V;",
	"fetch c into @a;", "open c;", "close c;", "dispose cursor c;", "dispose view nosuch;", "dispose function f;", "dispose prepare p;",
	"declare c cursor for p; open c;", "declare c cursor for select 1; fetch c into @a;", "declare c cursor for select 1; open c; open c;",
	"declare c cursor for select 1; open c; fetch absolute @v c into @a; select cursor c is in range, cursor c count;",
	"trigger error;", "trigger error @v;", "trigger error 70000 'x';", "trigger error 0 'x';",
	"declare f function (@x default 1, @y default @x) as begin return @y; end; select f(), f(@v), f(1, 2, 3);",
	"declare g aggregate (c, @p default 1) as begin return @p; end; select g(1), g(@v, @v) from t;",
	"select @@nosuch; ", "select @#nosuch;", "select @%NOSUCH_VAR;", "var @v := 2;", "@undeclared := 1;", "dispose @undeclared;",
	"alter table t set header to @v;", "alter table t set format to @v;", "alter table t set delimiter to @v;", "alter table t set encoding to @v;",
	"alter table t set line_break to @v;", "alter table t set delimiter_positions to @v;", "alter table t set json_escape to @v;", "alter table t set nosuch to @v;",
	"create table t (a);", "create table `n.csv` (a, a);", "create table `n.csv` (a, b) as select 1;", "alter table t add a;", "alter table t drop nosuch;", "alter table t rename a to a;",
	"select * from t limit @v;", "select * from t limit @v percent;", "select * from t offset @v;", "select * from t order by @v;", "select * from t group by @v;",
	"select a from t group by a having @v;", "select nosuch from t;", "select t.* from t u;", "select 1 from t t, t t;",
	"insert into t values (1, 2, 3);", "insert into t (nosuch) values (1);", "update t set nosuch = 1;", "update nosuch set a = 1;", "delete from t, t;", "replace into t (a) using (nosuch) values (1);",
	"while @i in nosuch do print 1; end while;", "while true do exit 300; end while;", "if @v then print 1; elseif @v then print 2; end if;",
	"case @v when @v then print 1; end case;", "select format('%99999999999999999999d', @v), format('%099999999999999999999f', @v), format('%.99999999999999999999f', @v), format('%-99999999999999999999s|', @v);", "printf '%99999999999999999999s', @v;",
	"commit; rollback; commit;",
}
var verifC19Stmts [][]parser.Statement

func VerifC19StatementsSetup() {
	for _, s := range verifC19StmtSrc {
		verifC19Stmts = append(verifC19Stmts, verifParse(s))
	}
}

// Session statements, declarations, flags, cursors, prepared statements and table attributes used in
// ways nobody intended, with an argument @v of every value class (NULL, integers incl. the extremes,
// floats incl. NaN and infinity, boolean, datetime, empty / ordinary / statement-like texts): each program ends normally or
// with an ordinary error - never with a Go panic or a [Fatal Error].
func VerifC19OddStatements() {
	verifFileWrite("t.csv", "a\n1\n2\n")
	tx := verifNewTx()
	tx.Flags.Quiet = true
	proc := NewProcessor(tx)
	args := []value.Primary{
		value.NewNull(), value.NewInteger(0), value.NewInteger(-1), value.NewInteger(9223372036854775807), value.NewInteger(-9223372036854775808),
		value.NewFloat(1.5), value.NewFloat(math.NaN()), value.NewFloat(math.Inf(1)), value.NewBoolean(true), value.NewDatetime(time.Unix(1328260695, 0).In(time.UTC)),
		value.NewString(""), value.NewString("abc"), value.NewString("select 1"), value.NewString("%s %d"), value.NewString("[1, 3]"), value.NewString("exit"),
	}
	verifVar(proc.ReferenceScope, "v", args[verifChoice("v", len(args))])
	verifVar(proc.ReferenceScope, "a", value.NewNull())
	verifVar(proc.ReferenceScope, "i", value.NewNull())
	si := verifChoice("program", len(verifC19StmtSrc))
	_, err := proc.Execute(verifCtx(), verifC19Stmts[si])
	if err != nil {
		_, fatal := err.(*FatalError)
		if fatal {
			verifTrace("FATAL", si, err.Error())
		}
		verifAssert("no internal failure", !fatal)
	}
	_ = proc.AutoRollback()
	_ = proc.ReleaseResourcesWithErrors()
	verifObserveBool("error", err != nil)
	verifReach("end")
}
