package query

//verif:property C18
//verif:pkg lib/query
//verif:harness VerifC18Totality mode=bv tier=quick split=12
//verif:harness VerifC18PrintParse mode=bv tier=quick split=8

import (
	"github.com/mithrandie/csvq/lib/parser"
	"github.com/mithrandie/csvq/lib/value"
)

var verifC18Alphabet = []byte{'\'', '"', '`', '\\', '@', '-', '/', '*', '(', ')', '1', 'a', ' ', '.', ';', '#', '$', '%', 'e', '\n', ',', '=', '<', '!', ':', '|', '?', '+', 'x', '0', '\r', '\t'}

var verifC18Templates = []struct{ pre, post string }{
	{"", ""},
	{"select ", ""},
	{"select ", " from t"},
	{"select 1 ", ";"},
	{"select '", ""},
	{"var @a := ", ";"},
	{"select a from t where a ", ""},
	{"/* ", ""},
	{"select `", ""},
	{"select \"", ""},
	{"select '", "' from"},   // a syntax error after a (possibly multi-line) quoted token
	{"select `", "` +\n+"},
	// comments on a later line, the last one running to the end of the input
	{"select 1 +\n  ", " -- c"},
	{"select 1;\n\nselect 2 /* x\ny */ + ", "-- comment"},
	{"-- a\nselect (", " -- b"},
}

func verifC18Text(tag string, n int) string {
	b := make([]byte, n)
	for i := range b {
		b[i] = verifC18Alphabet[verifChoice(tag, len(verifC18Alphabet))]
	}
	return string(b)
}

// Totality of the real lexer and goyacc parser: for every text made of a fixed context and up to 2
// characters (thorough 3) from an alphabet of every punctuation class, Parse terminates without a
// panic and returns statements or a syntax error whose line and column lie inside the input.
func VerifC18Totality() {
	t := verifC18Templates[verifChoice("template", len(verifC18Templates))]
	n := verifChoice("len", verifBound(3, 4))
	ansi := verifChoice("ansi", 2) == 1
	src := t.pre + verifC18Text("c", n) + t.post
	stmts, _, err := parser.Parse(src, "", false, ansi)
	if err != nil {
		se, ok := err.(*parser.SyntaxError)
		verifAssert("a parse failure is a syntax error", ok)
		if ok {
			// lines of the input: LF, CR and CR LF each end one line
			lines := 1
			lineLen := []int{0}
			for i := 0; i < len(src); i++ {
				if src[i] == '\n' || (src[i] == '\r' && (i+1 == len(src) || src[i+1] != '\n')) {
					lines++
					lineLen = append(lineLen, 0)
				} else if src[i] != '\r' {
					lineLen[len(lineLen)-1]++
				}
			}
			verifAssert("error line inside the input", se.Line >= 1 && se.Line <= lines)
			verifAssert("error column inside the input", se.Char >= 0 && se.Char <= len(src)+1)
			if se.Line >= 1 && se.Line <= lines {
				verifAssert("error column inside its line", se.Char <= lineLen[se.Line-1]+1)
			}
		}
		verifReach("syntax-error")
		return
	}
	// what parses prints, and what is printed parses again to the same print
	for _, st := range stmts {
		if q, ok := st.(parser.SelectQuery); ok {
			p1 := q.String()
			again, _, e2 := parser.Parse(p1, "", false, false)
			verifAssert("the printed query parses", e2 == nil && len(again) == 1)
			if e2 == nil && len(again) == 1 {
				q2, ok2 := again[0].(parser.SelectQuery)
				verifAssert("the printed query is a query", ok2)
				if ok2 {
					verifAssert("printing is stable", q2.String() == p1)
				}
			}
		}
	}
	verifObserve("statements", int64(len(stmts)))
	verifReach("parsed")
}

var verifC18Queries = []string{
	"select %s",
	"select %s as x, 1 + 2 * 3, -(4 - 5) % 2",
	"select a, b from t where a = %s and (b < 1 or not b >= 2) order by a desc nulls last limit 3 offset 1",
	"select count(*), listagg(distinct a, %s) within group (order by a) from t group by b having count(*) > 1",
	"select case when a is null then %s when a like 'x%%' then 'y' else b end, a between 1 and 2, a in (1, 2, %s) from t",
	"select rank() over (partition by a order by b), count(a) over (partition by a order by b rows between 1 preceding and current row), first_value(a) ignore nulls over () from t",
	"select * from t inner join u on t.a = u.a left join v using (a) cross join w natural join z",
	"with c (x) as (select %s) select x from c union all select x from c intersect select 1 except select 2",
	"select (select max(a) from t), exists (select 1 from t), a = any (select a from u), (a, b) in ((1, %s)) from t",
	"select @v, @@flag, @%%env, @#info, 1.5e3, true, null, unknown, %s || 'b', substring(%s from 2 for 3) from dual",
	"select %s from t for update",
	"select integer(%s), json_value('a', %s), if(a, %s, 'n') from `file name.csv` as f",
	"select a from t order by a asc nulls first, b desc, c nulls last, d desc nulls first",
	"select distinct a, b from t order by 1 limit 10 percent with ties",
	"select a from t order by a offset 2 rows fetch next 3 rows only",
	"select a is not null, a is not true, a not like %s, a not in (1, 2), a not between 1 and 2, a <> 1, a != 2, a <= 3, a == 4 from t",
	"select sum(a) over (order by b rows between unbounded preceding and 1 following), lag(a, 1, 0) over (partition by c), ntile(2) over (order by a desc nulls last) from t",
	"select a, b into @x, @y from t where exists (select 1 from u where u.a = t.a order by b desc nulls first)",
	"select median(distinct a), listagg(a, %s) within group (order by b desc nulls last), userfn(a, %s) from t as t1, u as u1 where t1.a = u1.a",
	"select %s from stdin",
	"select - -1, - - -a, -(-2), ! !true, +a, - +1 from t",
	"select * from t natural left join u natural right outer join v full outer join w on v.a = w.a left join x using (a)",
	"select sum(a) over (order by b rows between 0 preceding and 0 following), count(a) over (order by b rows 0 preceding), max(a) over (order by b rows between current row and unbounded following) from t",
	"select case a when 1 then %s when 2 then 'y' end, nullif(a, 0), coalesce(a, b, 1) from t",
	"select * from csv(',', `f.csv`, 'utf8', true) as c cross join ltsv(`l.ltsv`) l cross join json_table('a.b', `j.json`) j cross join fixed('[1, 3]', `x.txt`) f",
	"select a from t union select a from u union all (select a from v intersect all select a from w) except all select 1",
	"select a from t limit 3 rows only",
	"select a from t fetch first 10 percent with ties",
	"select json_object(a, b as c), json_agg(a), listagg(a), cursor c is open, cursor `my cur` is not in range, cursor `order` count, cursor `2nd` is not open, cursor c is in range from t",
	"select t.*, t.a, t.1, `t 2`.`c d` from t, `t 2` where t.a <> `t 2`.`c d`",
	"select cast_me(a), @v := 1, @v := @v + 1 from t",
	"select a from t where a is unknown or a is not unknown or not a is null",
	"select a as `as`, b as `select`, `from`.`where` from `from`",
	"select sum(a) over (order by b rows between 1 following and current row), max(a) over (order by b rows between 2 preceding and current row), min(a) over (order by b rows between current row and current row), count(a) over (order by b rows current row), count(a) over (order by b rows unbounded preceding), avg(a) over (order by b rows between 1 following and 2 following), sum(a) over (order by b rows between 2 preceding and 1 preceding) from t",
	"select * from jsonl('a', `j.jsonl`) j cross join csv_inline(',', 'a,b') i cross join json_inline('{}', '[]') k",
	"select a from t where (a, b) = (1, 2) and (a, b) < (select 1, 2) and (a, b) between (1, 1) and (2, 2) and (a, b) not in (select 1, 2) and (a, b) <> all ((1, 2), (3, 4))",
}

// The canonical printed form of each query above, written by hand from the source: the same tokens
// in the same order, keywords and function names in upper case, identifiers as written.
var verifC18Canon = []string{
	"SELECT %s",
	"SELECT %s AS x, 1 + 2 * 3, -(4 - 5) %% 2",
	"SELECT a, b FROM t WHERE a = %s AND (b < 1 OR NOT b >= 2) ORDER BY a DESC NULLS LAST LIMIT 3 OFFSET 1",
	"SELECT COUNT(*), LISTAGG(DISTINCT a, %s) WITHIN GROUP (ORDER BY a) FROM t GROUP BY b HAVING COUNT(*) > 1",
	"SELECT CASE WHEN a IS NULL THEN %s WHEN a LIKE 'x%%' THEN 'y' ELSE b END, a BETWEEN 1 AND 2, a IN (1, 2, %s) FROM t",
	"SELECT RANK() OVER (PARTITION BY a ORDER BY b), COUNT(a) OVER (PARTITION BY a ORDER BY b ROWS BETWEEN 1 PRECEDING AND CURRENT ROW), FIRST_VALUE(a) IGNORE NULLS OVER () FROM t",
	"SELECT * FROM t INNER JOIN u ON t.a = u.a LEFT JOIN v USING (a) CROSS JOIN w NATURAL JOIN z",
	"WITH c (x) AS (SELECT %s) SELECT x FROM c UNION ALL SELECT x FROM c INTERSECT SELECT 1 EXCEPT SELECT 2",
	"SELECT (SELECT MAX(a) FROM t), EXISTS (SELECT 1 FROM t), a = ANY (SELECT a FROM u), (a, b) IN ((1, %s)) FROM t",
	"SELECT @v, @@FLAG, @%%env, @#INFO, 1.5e3, TRUE, NULL, UNKNOWN, %s || 'b', SUBSTRING(%s FROM 2 FOR 3) FROM DUAL",
	"SELECT %s FROM t FOR UPDATE",
	"SELECT INTEGER(%s), JSON_VALUE('a', %s), IF(a, %s, 'n') FROM `file name.csv` AS f",
	"SELECT a FROM t ORDER BY a ASC NULLS FIRST, b DESC, c NULLS LAST, d DESC NULLS FIRST",
	"SELECT DISTINCT a, b FROM t ORDER BY 1 LIMIT 10 PERCENT WITH TIES",
	"SELECT a FROM t ORDER BY a OFFSET 2 ROWS FETCH NEXT 3 ROWS ONLY",
	"SELECT a IS NOT NULL, a IS NOT TRUE, a NOT LIKE %s, a NOT IN (1, 2), a NOT BETWEEN 1 AND 2, a <> 1, a != 2, a <= 3, a == 4 FROM t",
	"SELECT SUM(a) OVER (ORDER BY b ROWS BETWEEN UNBOUNDED PRECEDING AND 1 FOLLOWING), LAG(a, 1, 0) OVER (PARTITION BY c), NTILE(2) OVER (ORDER BY a DESC NULLS LAST) FROM t",
	"SELECT a, b INTO @x, @y FROM t WHERE EXISTS (SELECT 1 FROM u WHERE u.a = t.a ORDER BY b DESC NULLS FIRST)",
	"SELECT MEDIAN(DISTINCT a), LISTAGG(a, %s) WITHIN GROUP (ORDER BY b DESC NULLS LAST), USERFN(a, %s) FROM t AS t1, u AS u1 WHERE t1.a = u1.a",
	"SELECT %s FROM STDIN",
	"SELECT - -1, - - -a, -(-2), ! !TRUE, +a, - +1 FROM t",
	"SELECT * FROM t NATURAL LEFT JOIN u NATURAL RIGHT OUTER JOIN v FULL OUTER JOIN w ON v.a = w.a LEFT JOIN x USING (a)",
	"SELECT SUM(a) OVER (ORDER BY b ROWS BETWEEN 0 PRECEDING AND 0 FOLLOWING), COUNT(a) OVER (ORDER BY b ROWS 0 PRECEDING), MAX(a) OVER (ORDER BY b ROWS BETWEEN CURRENT ROW AND UNBOUNDED FOLLOWING) FROM t",
	"SELECT CASE a WHEN 1 THEN %s WHEN 2 THEN 'y' END, NULLIF(a, 0), COALESCE(a, b, 1) FROM t",
	"SELECT * FROM CSV(',', `f.csv`, 'utf8', TRUE) AS c CROSS JOIN LTSV(`l.ltsv`) l CROSS JOIN JSON_TABLE('a.b', `j.json`) j CROSS JOIN FIXED('[1, 3]', `x.txt`) f",
	"SELECT a FROM t UNION SELECT a FROM u UNION ALL (SELECT a FROM v INTERSECT ALL SELECT a FROM w) EXCEPT ALL SELECT 1",
	"SELECT a FROM t LIMIT 3 ROWS ONLY",
	"SELECT a FROM t FETCH FIRST 10 PERCENT WITH TIES",
	"SELECT JSON_OBJECT(a, b AS c), JSON_AGG(a), LISTAGG(a), CURSOR c IS OPEN, CURSOR `my cur` IS NOT IN RANGE, CURSOR `order` COUNT, CURSOR `2nd` IS NOT OPEN, CURSOR c IS IN RANGE FROM t",
	"SELECT t.*, t.a, t.1, `t 2`.`c d` FROM t, `t 2` WHERE t.a <> `t 2`.`c d`",
	"SELECT CAST_ME(a), @v := 1, @v := @v + 1 FROM t",
	"SELECT a FROM t WHERE a IS UNKNOWN OR a IS NOT UNKNOWN OR NOT a IS NULL",
	"SELECT a AS `as`, b AS `select`, `from`.`where` FROM `from`",
	"SELECT SUM(a) OVER (ORDER BY b ROWS BETWEEN 1 FOLLOWING AND CURRENT ROW), MAX(a) OVER (ORDER BY b ROWS BETWEEN 2 PRECEDING AND CURRENT ROW), MIN(a) OVER (ORDER BY b ROWS BETWEEN CURRENT ROW AND CURRENT ROW), COUNT(a) OVER (ORDER BY b ROWS CURRENT ROW), COUNT(a) OVER (ORDER BY b ROWS UNBOUNDED PRECEDING), AVG(a) OVER (ORDER BY b ROWS BETWEEN 1 FOLLOWING AND 2 FOLLOWING), SUM(a) OVER (ORDER BY b ROWS BETWEEN 2 PRECEDING AND 1 PRECEDING) FROM t",
	"SELECT * FROM JSONL('a', `j.jsonl`) j CROSS JOIN CSV_INLINE(',', 'a,b') i CROSS JOIN JSON_INLINE('{}', '[]') k",
	"SELECT a FROM t WHERE (a, b) = (1, 2) AND (a, b) < (SELECT 1, 2) AND (a, b) BETWEEN (1, 1) AND (2, 2) AND (a, b) NOT IN (SELECT 1, 2) AND (a, b) <> ALL ((1, 2), (3, 4))",
}

func verifFmt1(q, lit string) string {
	out := make([]byte, 0, len(q)+8)
	for i := 0; i < len(q); i++ {
		if q[i] == '%' && i+1 < len(q) {
			if q[i+1] == 's' {
				out = append(out, lit...)
				i++
				continue
			}
			if q[i+1] == '%' {
				out = append(out, '%')
				i++
				continue
			}
		}
		out = append(out, q[i])
	}
	return string(out)
}

// Print/parse round trip of queries covering the expression and clause grammar, with a string
// literal of 0..2 symbolic characters (thorough 3) spliced in through the real quoting function:
// the query parses, its printed form parses, prints identically, and the literal evaluates to the
// same text before and after.
func VerifC18PrintParse() {
	qi := verifChoice("query", len(verifC18Queries))
	n := verifChoice("len", verifBound(3, 4))
	if verifFmt1(verifC18Queries[qi], "") == verifC18Queries[qi] {
		verifAssume(n == 0) // no literal to splice in
	}
	text := verifC18Text("c", n)
	lit := value.NewString(text).String() // csvq's own quoting of a string literal
	src := verifFmt1(verifC18Queries[qi], lit)
	stmts, _, err := parser.Parse(src, "", false, false)
	verifAssert("the query parses", err == nil && len(stmts) == 1)
	if err != nil || len(stmts) != 1 {
		return
	}
	q1, ok := stmts[0].(parser.SelectQuery)
	verifAssert("a select query", ok)
	p1 := q1.String()
	again, _, e2 := parser.Parse(p1, "", false, false)
	verifAssert("the printed query parses", e2 == nil && len(again) == 1)
	if e2 != nil || len(again) != 1 {
		return
	}
	verifAssert("the printed query has exactly the tokens of the source", p1 == verifFmt1(verifC18Canon[qi], lit))
	q2, ok2 := again[0].(parser.SelectQuery)
	verifAssert("the printed query is a select query", ok2)
	verifAssert("printing is stable", q2.String() == p1)
	if qi == 0 {
		tx := verifNewTx()
		scope := NewReferenceScope(tx)
		v1, e1 := Select(verifCtx(), scope, q1)
		v2, e3 := Select(verifCtx(), scope, q2)
		verifAssert("both forms evaluate", e1 == nil && e3 == nil)
		if e1 == nil && e3 == nil {
			s1, o1 := v1.RecordSet[0][0][0].(*value.String)
			s2, o2 := v2.RecordSet[0][0][0].(*value.String)
			verifAssert("the literal survives quoting and printing", o1 && o2 && s1.Raw() == text && s2.Raw() == text)
		}
	}
	verifObserve("printed-length", int64(len(p1)))
	verifReach("end")
}
