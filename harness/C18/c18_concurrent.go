package query

//verif:property C18
//verif:pkg lib/query
//verif:harness VerifC18ConcurrentParse mode=bv tier=quick split=4

import (
	"sync"

	"github.com/mithrandie/csvq/lib/parser"
)

var verifC18ConcSrc = []string{
	"select a, count(*) from t where b like 'x%' group by a order by a desc nulls last limit 3",
	"update u set c = fresh_name + 1 where another_name in (select id from v)",
	"select rank() over (partition by g order by h) from `file.csv` w",
	"select 1 +",
	"declare cur cursor for select @var, @@flag, @%env from w2; open cur; fetch cur into @a;",
	"select unknown_word_one, Unknown_Word_Two from unknown_word_three",
}

func verifC18ParsePrint(src string) string {
	stmts, _, err := parser.Parse(src, "", false, false)
	if err != nil {
		se, ok := err.(*parser.SyntaxError)
		if !ok {
			return "error of another kind"
		}
		return "syntax error: " + se.Message
	}
	out := ""
	for _, s := range stmts {
		if q, ok := s.(interface{ String() string }); ok {
			out += q.String() + ";"
		} else {
			out += "?;"
		}
	}
	return out
}

// The parser is used from several goroutines at once when csvq is embedded (one Parse per
// connection / per EXECUTE inside parallel workers): two texts parsed at the same time, under the race
// monitor and every interleaving with one preemption, give exactly what each gives alone; the
// parser keeps no unsynchronised state between calls.
func VerifC18ConcurrentParse() {
	a := verifChoice("first", len(verifC18ConcSrc))
	b := verifChoice("second", len(verifC18ConcSrc))
	verifAssume(a <= b) // the two goroutines are interchangeable
	var got [2]string
	var wg sync.WaitGroup
	verifPreemptions(1)
	verifRaces(true)
	verifSchedules(true)
	for k, i := range []int{a, b} {
		wg.Add(1)
		go func(k, i int) {
			defer wg.Done()
			got[k] = verifC18ParsePrint(verifC18ConcSrc[i])
		}(k, i)
	}
	wg.Wait()
	verifSchedules(false)
	verifRaces(false)
	// the reference parses come afterwards, one at a time: nothing of these texts has been seen by the
	// parser before the two goroutines start (a warmed-up memo would hide unsynchronised first uses)
	verifAssert("the first text parses as it does alone", got[0] == verifC18ParsePrint(verifC18ConcSrc[a]))
	verifAssert("the second text parses as it does alone", got[1] == verifC18ParsePrint(verifC18ConcSrc[b]))
	verifObserve("first", int64(a))
	verifReach("end")
}
