package query

//verif:property C12
//verif:pkg lib/query
//verif:harness VerifC12RecordRange mode=int tier=quick
//verif:harness VerifC12AssignNumber mode=real tier=quick

import "sync"

// Range lemma: for every record count n < 2^31, every worker count N with 1 <= N <= max(1,n)
// (what AssignRoutineNumber guarantees, see VerifC12AssignNumber) and every worker t, the ranges
// returned by RecordRange are ordered, contiguous and cover [0, n) exactly.
func VerifC12RecordRange() {
	n := verifInt("recordLen")
	verifAssume(n >= 0)
	verifAssume(n < 1<<31)
	N := verifInt("number")
	verifAssume(N >= 1)
	verifAssume(verifOr(N <= n, N == 1))
	t := verifInt("t")
	verifAssume(t >= 0)
	verifAssume(t < N)
	m := &GoroutineTaskManager{Number: N, recordLen: n, grTaskMutex: &sync.Mutex{}}
	s, e := m.RecordRange(t)
	verifObserve("start", int64(s))
	verifObserve("end", int64(e))
	verifAssert("0 <= start <= end <= n", verifAnd(verifAnd(0 <= s, s <= e), e <= n))
	if t == 0 {
		verifAssert("first range starts at 0", s == 0)
	}
	if t == N-1 {
		verifAssert("last range ends at n", e == n)
	} else {
		s2, _ := m.RecordRange(t + 1)
		verifAssert("contiguous: end(t) = start(t+1)", e == s2)
	}
	// disjointness for arbitrary pairs follows from contiguity + order; check it directly too
	u := verifInt("u")
	verifAssume(u > t)
	verifAssume(u < N)
	s3, e3 := m.RecordRange(u)
	verifAssert("later worker starts at or after end(t)", e <= s3)
	verifAssert("later range well formed", s3 <= e3)
	verifReach("end")
}

// AssignRoutineNumber: 1 <= N <= cpu, and N <= max(1, recordLen / minimumRequired) for every
// record count < 2^31, cpu in [1, 1024], threshold in [1, 2^20] and manager load.
// float64(n)/float64(m) is modelled exactly (rationals): for integers below 2^31 the correctly
// rounded quotient cannot cross an integer, so Floor agrees (DESIGN.md 2.5).
func VerifC12AssignNumber() {
	n := verifInt("recordLen")
	verifAssume(n >= 0)
	verifAssume(n < 1<<31)
	cpu := verifInt("cpu")
	verifAssume(cpu >= 1)
	verifAssume(cpu <= 1024)
	minReq := verifInt("minimumRequired")
	verifAssume(minReq >= -1)
	verifAssume(minReq <= 1<<20)
	def := verifInt("defaultMinimum")
	verifAssume(def >= 1)
	verifAssume(def <= 1<<20)
	busy := verifInt("count")
	verifAssume(busy >= 0)
	verifAssume(busy <= 4096)
	gm := &GoroutineManager{Count: busy, CountMutex: &sync.Mutex{}, MinimumRequiredPerCore: def}
	N := gm.AssignRoutineNumber(n, minReq, cpu)
	verifObserve("N", int64(N))
	eff := minReq
	if eff < 1 {
		eff = def
	}
	verifAssert("1 <= N <= cpu", verifAnd(1 <= N, N <= cpu))
	verifAssert("N <= max(1, n/min)", verifOr(N == 1, N*eff <= n))
	verifAssert("N <= max(1, n)", verifOr(N == 1, N <= n))
	verifAssert("load accounting", gm.Count == busy+N-1)
	verifReach("end")
}
