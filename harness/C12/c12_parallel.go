package query

//verif:property C12
//verif:pkg lib/query
//verif:setup VerifC12Setup
//verif:harness VerifC12Parallel mode=bv tier=quick split=8
//verif:harness VerifC12ParallelJoin mode=bv tier=quick split=4
//verif:setup VerifC12DMLSetup
//verif:harness VerifC12ParallelDML mode=bv tier=quick split=6
//verif:harness VerifC12AnalyticOrder mode=bv tier=quick split=4

import (
	"github.com/mithrandie/csvq/lib/parser"
	"github.com/mithrandie/csvq/lib/value"
)

var verifC12Src = []string{
	"select id, k from t where k < @x",
	"select k, count(*), min(id), max(id) from t group by k",
	"select distinct k from t",
	"select id, k from t order by k, id",
	"select id, count(*) over (partition by k), row_number() over (partition by k order by id desc) from t",
	"select id, k + @x from t",
	"select k from t union select k from t",
	"select id from t where exists (select 1 from t as z where z.k = t.k and z.id < t.id)",
}
var verifC12Queries []parser.SelectQuery
var verifC12Join [6]parser.SelectQuery
var verifC12Big [][]value.Primary

func VerifC12Setup() {
	for _, s := range verifC12Src {
		verifC12Queries = append(verifC12Queries, verifParseSelect(s))
	}
	for i, j := range []string{"inner join r on l.k = r.k", "left join r on l.k = r.k", "right join r on l.k = r.k", "full join r on l.k = r.k", "full join r using (k)", "natural left join r"} {
		verifC12Join[i] = verifParseSelect("select l.id, r.id2 from l " + j)
	}
}

func verifRowsOf(v *View) [][]value.Primary {
	out := make([][]value.Primary, v.RecordLen())
	for i, rec := range v.RecordSet {
		row := make([]value.Primary, len(rec))
		for c := range rec {
			row[c] = rec[c][0]
		}
		out[i] = row
	}
	return out
}

// The same query on the same table, evaluated with one worker and with two workers (thorough: three) under every
// schedule of their synchronisation points (every order in which the workers run to their next blocking point; thorough: plus 1 preemption) and every map iteration order: the
// rows and their order are identical.  The per-core threshold is lowered (an exported field of the
// goroutine manager) so that 3 rows already use 2 (thorough 3) workers.
func VerifC12Parallel() {
	qi := verifChoice("query", len(verifC12Src))
	const n = 3
	var keys [n]int64
	for i := range keys {
		keys[i] = int64(verifChoice("k", 2)) // the subject is the schedule, not the data
	}
	x := int64(1)
	run := func(cpu int, explore bool) ([][]value.Primary, error) {
		tx := verifNewTx()
		tx.Flags.CPU = cpu
		scope := NewReferenceScope(tx)
		rows := make([][]value.Primary, n)
		for i := range rows {
			rows[i] = []value.Primary{value.NewInteger(int64(i)), value.NewInteger(keys[i])}
		}
		verifTempTable(scope, "t", []string{"id", "k"}, rows)
		verifVar(scope, "x", value.NewInteger(x))
		verifSchedules(explore)
		verifMapOrder(explore)
		view, err := Select(verifCtx(), scope, verifC12Queries[qi])
		verifSchedules(false)
		verifMapOrder(false)
		if err != nil {
			return nil, err
		}
		return verifRowsOf(view), nil
	}
	gm := GetGoroutineManager()
	gm.MinimumRequiredPerCore = 1
	verifPreemptions(verifBound(0, 1))
	workers := verifBound(2, 3)
	want, err1 := run(1, false)
	got, err2 := run(workers, true)
	verifAssert("both runs succeed", err1 == nil && err2 == nil)
	verifAssert("same number of rows for --cpu 1 and --cpu 3", len(want) == len(got))
	for r := 0; r < len(want) && r < len(got); r++ {
		verifAssert("same row width", len(want[r]) == len(got[r]))
		for c := 0; c < len(want[r]) && c < len(got[r]); c++ {
			verifAssert("same value at the same position for --cpu 1 and --cpu 3", verifSamePrimary(want[r][c], got[r][c]))
		}
	}
	verifObserve("rows", int64(len(want)))
	verifReach("end")
}

// INNER JOIN large enough for three workers (30 x 10 rows; join threshold is a constant): the
// left rows of each third either all have partners or none (symbolic per third); --cpu 1 and
// --cpu 3 return the same rows in the same order.
func VerifC12ParallelJoin() {
	var has [3]bool
	for c := range has {
		has[c] = verifBool("third-has-partners")
	}
	// INNER, LEFT, RIGHT, FULL (ON and USING), NATURAL LEFT: the outer joins also combine what the workers
	// found out about unmatched rows
	kind := verifChoice("join", len(verifC12Join))
	run := func(cpu int) ([][]value.Primary, error) {
		tx := verifNewTx()
		tx.Flags.CPU = cpu
		scope := NewReferenceScope(tx)
		l := make([][]value.Primary, 30)
		for i := range l {
			k := int64(i % 10)
			if !has[i/10] {
				k += 1000
			}
			l[i] = []value.Primary{value.NewInteger(int64(i)), value.NewInteger(k)}
		}
		r := make([][]value.Primary, 10)
		for j := range r {
			r[j] = []value.Primary{value.NewInteger(int64(j)), value.NewInteger(int64(j))}
		}
		verifTempTable(scope, "l", []string{"id", "k"}, l)
		verifTempTable(scope, "r", []string{"id2", "k"}, r)
		view, err := Select(verifCtx(), scope, verifC12Join[kind])
		if err != nil {
			return nil, err
		}
		return verifRowsOf(view), nil
	}
	want, err1 := run(1)
	got, err2 := run(3)
	verifAssert("both runs succeed", err1 == nil && err2 == nil)
	exp, any := 0, false
	for c := range has {
		if has[c] {
			exp += 10
			any = true
		}
	}
	switch kind {
	case 1, 5:
		exp = 30 // every left row once: with its one partner or padded
	case 2:
		if !any {
			exp = 10
		}
	case 3, 4:
		exp = 30
		if !any {
			exp = 40
		}
	}
	verifAssert("--cpu 1 returns every matching pair and every padded row", len(want) == exp)
	verifAssert("same number of rows for --cpu 1 and --cpu 3", len(want) == len(got))
	for r := 0; r < len(want) && r < len(got); r++ {
		verifAssert("same pair at the same position", verifSamePrimary(want[r][0], got[r][0]) && verifSamePrimary(want[r][1], got[r][1]))
	}
	verifObserve("rows", int64(len(got)))
	verifReach("end")
}

var verifC12DMLSrc = []string{
	"alter table t add (w default id * 10 + k)",
	"alter table t add (w default k, v default id) after id",
	"update t set k = id + k where id < @x + 1",
	"delete from t where k = 0",
	"insert into t select id + 10, k from t where k = 1",
	"alter table t drop k",
	"replace into t (k, id) using (k) values (0, 70), (1, 80), (5, 90)",
	"replace into t (id, k) using (id) values (0, 9), (7, 9), (1, 9)",
}
var verifC12DML [][]parser.Statement
var verifC12DMLSel parser.SelectQuery

func VerifC12DMLSetup() {
	for _, s := range verifC12DMLSrc {
		verifC12DML = append(verifC12DML, verifParse(s+";"))
	}
	verifC12DMLSel = verifParseSelect("select * from t")
}

// Data-changing statements whose per-row work is split over goroutines (ALTER TABLE ADD evaluates
// the default of every row, UPDATE/DELETE evaluate their conditions): the table after the statement
// is the same with one worker and with two (thorough three) under every order in which the workers
// run (thorough: plus one preemption).
func VerifC12ParallelDML() {
	si := verifChoice("statement", len(verifC12DMLSrc))
	n := 3
	keys := make([]int64, n)
	for i := range keys {
		keys[i] = int64(verifChoice("k", 2))
	}
	run := func(cpu int, explore bool) ([][]value.Primary, error) {
		tx := verifNewTx()
		tx.Flags.Quiet = true
		tx.Flags.CPU = cpu
		proc := NewProcessor(tx)
		scope := proc.ReferenceScope
		rows := make([][]value.Primary, n)
		for i := range rows {
			rows[i] = []value.Primary{value.NewInteger(int64(i)), value.NewInteger(keys[i])}
		}
		verifTempTable(scope, "t", []string{"id", "k"}, rows)
		verifVar(scope, "x", value.NewInteger(1))
		verifSchedules(explore)
		verifMapOrder(explore)
		_, err := proc.Execute(verifCtx(), verifC12DML[si])
		verifSchedules(false)
		verifMapOrder(false)
		if err != nil {
			return nil, err
		}
		view, err := Select(verifCtx(), scope, verifC12DMLSel)
		if err != nil {
			return nil, err
		}
		return verifRowsOf(view), nil
	}
	gm := GetGoroutineManager()
	gm.MinimumRequiredPerCore = 1
	verifPreemptions(verifBound(0, 1))
	workers := verifBound(2, 3)
	want, err1 := run(1, false)
	got, err2 := run(workers, true)
	verifAssert("both runs succeed", err1 == nil && err2 == nil)
	verifAssert("same number of rows for one and for several workers", len(want) == len(got))
	for r := 0; r < len(want) && r < len(got); r++ {
		verifAssert("same row width", len(want[r]) == len(got[r]))
		for c := 0; c < len(want[r]) && c < len(got[r]); c++ {
			verifAssert("same value at the same position for one and for several workers", verifSamePrimary(want[r][c], got[r][c]))
		}
	}
	verifObserve("rows", int64(len(want)))
	verifReach("end")
}

// Three and four analytic functions with different orders in one SELECT: each re-sorts the rows, so
// the order in which csvq evaluates them decides the order of the result.  Under every iteration
// order of the maps involved (Go randomises it per run) the result is the same as in the default
// order - with one worker, where no scheduling is involved at all.
func VerifC12AnalyticOrder() {
	src := []string{
		"select id, rank() over (order by id), sum(id) over (order by id desc), first_value(id) over (order by k, id) from t",
		"select id, row_number() over (order by k desc, id), count(*) over (partition by k), max(id) over (order by id desc), lag(id) over (order by id) from t",
		// the same function written twice next to others that order differently; in ORDER BY and inside expressions
		"select id, rank() over (order by k desc), row_number() over (order by id desc), rank() over (order by k desc) * 10 from t",
		"select id, row_number() over (order by id desc) + 1, rank() over (order by k), row_number() over (order by id desc), rank() over (order by k) from t order by rank() over (order by k), id",
		"select id, sum(id) over (order by id desc), sum(id) over (order by id desc), count(*) over (order by k, id), sum(id) over (order by id desc) from t",
	}
	qi := verifChoice("query", len(src))
	const n = 3
	var keys [n]int64
	for i := range keys {
		keys[i] = int64(verifChoice("k", 2))
	}
	q := verifParseSelect(src[qi])
	run := func(explore bool) ([][]value.Primary, error) {
		tx := verifNewTx()
		tx.Flags.CPU = 1
		scope := NewReferenceScope(tx)
		rows := make([][]value.Primary, n)
		for i := range rows {
			rows[i] = []value.Primary{value.NewInteger(int64(i)), value.NewInteger(keys[i])}
		}
		verifTempTable(scope, "t", []string{"id", "k"}, rows)
		verifMapOrder(explore)
		view, err := Select(verifCtx(), scope, q)
		verifMapOrder(false)
		if err != nil {
			return nil, err
		}
		return verifRowsOf(view), nil
	}
	want, err1 := run(false)
	got, err2 := run(true)
	verifAssert("both runs succeed", err1 == nil && err2 == nil)
	verifAssert("same number of rows in every map order", len(want) == len(got))
	for r := 0; r < len(want) && r < len(got); r++ {
		for c := 0; c < len(want[r]) && c < len(got[r]); c++ {
			verifAssert("same value at the same position in every map order", verifSamePrimary(want[r][c], got[r][c]))
		}
	}
	verifObserve("rows", int64(len(want)))
	verifReach("end")
}
