package query

//verif:property C12
//verif:pkg lib/query
//verif:harness VerifC12WideJoin mode=bv tier=quick split=2
//verif:setup VerifC12RaggedSetup
//verif:harness VerifC12RaggedSources mode=bv tier=quick split=2
//verif:harness VerifC12ManyWorkers mode=bv tier=quick split=4

import (
	"strconv"

	"github.com/mithrandie/csvq/lib/parser"

	"github.com/mithrandie/csvq/lib/value"
)

// A NATURAL / USING join over 22 common columns (more than the 20 at which csvq's index pools switch
// from a slice to a map): the columns of the result - their names, their order and the values under
// them - are the same under every iteration order of the maps involved (Go randomises it per run).
func VerifC12WideJoin() {
	const w = 22
	cols := make([]string, w)
	for i := range cols {
		cols[i] = "k" + strconv.Itoa(10+i)
	}
	using := ""
	for i, c := range cols {
		if i > 0 {
			using += ", "
		}
		using += c
	}
	src := []string{
		"select * from a natural join b",
		"select * from a inner join b using (" + using + ")",
		"select * from a full join b using (" + using + ")",
	}
	qi := verifChoice("query", len(src))
	q := verifParseSelect(src[qi])
	x := verifInt64("x")
	run := func(explore bool) ([]string, [][]value.Primary, error) {
		tx := verifNewTx()
		tx.Flags.CPU = 1
		scope := NewReferenceScope(tx)
		ra, rb := make([]value.Primary, w+1), make([]value.Primary, w+1)
		for i := 0; i < w; i++ {
			ra[i], rb[i] = value.NewInteger(int64(100+i)), value.NewInteger(int64(100+i))
		}
		ra[w], rb[w] = value.NewInteger(x), value.NewInteger(x+1)
		verifTempTable(scope, "a", append(append([]string{}, cols...), "xa"), [][]value.Primary{ra})
		verifTempTable(scope, "b", append(append([]string{}, cols...), "xb"), [][]value.Primary{rb})
		verifMapOrder(explore)
		view, err := Select(verifCtx(), scope, q)
		verifMapOrder(false)
		if err != nil {
			return nil, nil, err
		}
		names := make([]string, view.FieldLen())
		for i := range names {
			names[i] = view.Header[i].Column
		}
		rows := make([][]value.Primary, view.RecordLen())
		for r := range rows {
			for _, cell := range view.RecordSet[r] {
				rows[r] = append(rows[r], cell[0])
			}
		}
		return names, rows, nil
	}
	wantN, want, err1 := run(false)
	gotN, got, err2 := run(true)
	verifAssert("both runs succeed", err1 == nil && err2 == nil)
	if err1 != nil || err2 != nil {
		return
	}
	verifAssert("the join columns are merged once", len(wantN) == w+2 && len(gotN) == w+2)
	for i := 0; i < len(wantN) && i < len(gotN); i++ {
		verifAssert("same column at the same position in every map order", wantN[i] == gotN[i])
		if i < w {
			verifAssert("join columns come in the order they were written", wantN[i] == cols[i])
		}
	}
	verifAssert("same number of rows", len(want) == 1 && len(got) == 1)
	for r := 0; r < len(want) && r < len(got); r++ {
		for c := 0; c < len(want[r]) && c < len(got[r]); c++ {
			verifAssert("same value at the same position in every map order", verifSamePrimary(want[r][c], got[r][c]))
		}
	}
	verifObserve("columns", int64(len(gotN)))
	verifReach("end")
}

var verifC12RaggedSel [4][]parser.Statement
var verifC12RaggedFile = [4]string{"r.json", "r.jsonl", "r.ltsv", "r.json"}
var verifC12RaggedText = [4]string{
	"[{\"a\":\"1\"},{\"c\":\"2\",\"b\":\"3\",\"a\":\"4\"},{\"e\":\"5\",\"d\":\"6\",\"f\":\"7\"}]",
	"{\"a\":\"1\"}\n{\"c\":\"2\",\"b\":\"3\",\"a\":\"4\"}\n{\"e\":\"5\",\"d\":\"6\",\"f\":\"7\"}\n",
	"a:1\tz:0\nc:2\tb:3\ta:4\ne:5\td:6\tf:7\n",
	"{\"rows\":[{\"a\":\"1\"},{\"c\":\"2\",\"b\":\"3\",\"a\":\"4\"},{\"e\":\"5\",\"d\":\"6\",\"f\":\"7\"}]}",
}
var verifC12RaggedCols = [4]string{"a,c,b,e,d,f,", "a,c,b,e,d,f,", "a,z,c,b,e,d,f,", "a,c,b,e,d,f,"}

func VerifC12RaggedSetup() {
	verifC12RaggedSel[0] = verifParse("select * from `r.json`;")
	verifC12RaggedSel[1] = verifParse("select * from `r.jsonl`;")
	verifC12RaggedSel[2] = verifParse("select * from `r.ltsv`;")
	verifC12RaggedSel[3] = verifParse("select * from json_table('rows', `r.json`);")
}

// Sources whose records do not all have the same members (JSON array of objects, JSON Lines, LTSV, a
// JSON query): the columns of the loaded table come in the order in which the names first appear in the
// text, under every iteration order of the maps the loaders use; the cells follow their columns.
func VerifC12RaggedSources() {
	fi := verifChoice("source", 4)
	verifFileWrite(verifC12RaggedFile[fi], verifC12RaggedText[fi])
	tx := verifNewTx()
	tx.Flags.Quiet = true
	proc := NewProcessor(tx)
	verifMapOrder(true)
	_, err := proc.Execute(ContextForStoringResults(verifCtx()), verifC12RaggedSel[fi])
	verifMapOrder(false)
	verifAssert("the source loads", err == nil && len(tx.SelectedViews) == 1)
	if err != nil || len(tx.SelectedViews) != 1 {
		return
	}
	v := tx.SelectedViews[0]
	cols := ""
	for _, h := range v.Header {
		cols += h.Column + ","
	}
	verifAssert("columns in the order of first appearance", cols == verifC12RaggedCols[fi])
	verifAssert("three records", v.RecordLen() == 3)
	if cols == verifC12RaggedCols[fi] && v.RecordLen() == 3 {
		at := func(r int, name string) string {
			for i, h := range v.Header {
				if h.Column == name {
					if s, ok := v.RecordSet[r][i][0].(*value.String); ok {
						return s.Raw()
					}
					return "-"
				}
			}
			return "?"
		}
		verifAssert("cells under their columns", at(0, "a") == "1" && at(1, "a") == "4" && at(1, "b") == "3" && at(1, "c") == "2" && at(2, "d") == "6" && at(2, "e") == "5" && at(2, "f") == "7" && at(0, "c") == "-" && at(2, "a") == "-")
	}
	_ = proc.ReleaseResourcesWithErrors()
	verifObserve("columns", int64(len(v.Header)))
	verifReach("end")
}

// The bucketing operators with three and four workers (per-core threshold lowered to one record) on 5
// rows whose keys come from {0, 1}: a key may be seen by the first and the last worker and not by the ones in
// between.  Rows, their order and every aggregate are those of --cpu 1.
func VerifC12ManyWorkers() {
	src := []string{
		"select k, count(*), min(id), max(id), listagg(id, ',') from t group by k",
		"select distinct k from t",
		"select id, count(*) over (partition by k), listagg(id, ',') over (partition by k) from t",
		"select k from t union select k from t",
		"select k, count(distinct id) from t group by k order by k desc",
		"select id from t where k = 1 order by id desc",
	}
	qi := verifChoice("query", len(src))
	q := verifParseSelect(src[qi])
	const n = 5
	var keys [n]int64
	for i := range keys {
		keys[i] = int64(verifChoice("k", 2))
	}
	workers := 3 + verifChoice("workers", 2)
	run := func(cpu int) ([][]value.Primary, error) {
		tx := verifNewTx()
		tx.Flags.CPU = cpu
		scope := NewReferenceScope(tx)
		rows := make([][]value.Primary, n)
		for i := range rows {
			rows[i] = []value.Primary{value.NewInteger(int64(i)), value.NewInteger(keys[i])}
		}
		verifTempTable(scope, "t", []string{"id", "k"}, rows)
		GetGoroutineManager().MinimumRequiredPerCore = 1
		view, err := Select(verifCtx(), scope, q)
		if err != nil {
			return nil, err
		}
		out := make([][]value.Primary, view.RecordLen())
		for r := range out {
			for _, cell := range view.RecordSet[r] {
				out[r] = append(out[r], cell[0])
			}
		}
		return out, nil
	}
	want, err1 := run(1)
	got, err2 := run(workers)
	verifAssert("both runs succeed", err1 == nil && err2 == nil)
	verifAssert("same number of rows for one and for several workers", len(want) == len(got))
	for r := 0; r < len(want) && r < len(got); r++ {
		verifAssert("same row width", len(want[r]) == len(got[r]))
		for c := 0; c < len(want[r]) && c < len(got[r]); c++ {
			verifAssert("same value at the same position for one and for several workers", verifSamePrimary(want[r][c], got[r][c]))
		}
	}
	verifObserve("rows", int64(len(want)))
	verifReach("end")
}
