package query

//verif:property C05
//verif:pkg lib/query
//verif:setup VerifC05SelfJoinSetup
//verif:harness VerifC05SelfJoin mode=bv tier=quick split=4

import (
	"strconv"
	"strings"

	"github.com/mithrandie/csvq/lib/parser"
	"github.com/mithrandie/csvq/lib/value"
)

var verifC05Self [][]parser.Statement

func VerifC05SelfJoinSetup() {
	for _, s := range []string{
		"update x, y set x.a = @p, y.b = @q from t x join t y on x.id = y.id - 1 where x.a < @x",
		"update x, y set x.a = @p, y.a = @q from t x join t y on x.id = y.id - 2 where x.a < @x",
		"delete x, y from t x join t y on x.id = y.id - 2 where x.a < @x",
		"delete x, y from t x join t y on x.id = y.id - 1 where x.a < @x",
		"update y, x set x.a = @p, y.b = @q from t x join t y on x.id = y.id - 1 where x.a < @x",
		"update u, x, y set u.b = @q, x.a = @p, y.b = @q from t x join t y on x.id = y.id - 2 join u on u.id = x.id where x.a < @x",
		"delete y, u, x from t x join t y on x.id = y.id - 2 join u on u.id = x.id where x.a < @x",
	} {
		verifC05Self = append(verifC05Self, verifParse(s+";"))
	}
}

// Multi-table UPDATE and DELETE in which two of the listed names are the same table (a self-join of
// t: 3 rows, ids 0..2, cells symbolic; optionally a second table u with ids 0 and 2): afterwards t is
// the old table with the edits made through *both* names, the count reported for t is the number of
// its records that were changed or removed, there is one message per table, and the messages come in
// the order the tables are listed - under every iteration order of the statement's internal maps.
func VerifC05SelfJoin() {
	verifMapOrder(true)
	tx := verifNewTx()
	out := NewOutput()
	tx.Session.SetStdout(out)
	proc := NewProcessor(tx)
	scope := proc.ReferenceScope
	var a [3]int64
	trows := make([][]value.Primary, 3)
	for i := range trows {
		a[i] = verifInt64("a")
		trows[i] = []value.Primary{value.NewInteger(int64(i)), value.NewInteger(a[i]), value.NewInteger(int64(50 + i))}
	}
	urows := [][]value.Primary{{value.NewInteger(0), value.NewInteger(100)}, {value.NewInteger(2), value.NewInteger(102)}}
	verifTempTable(scope, "t", []string{"id", "a", "b"}, trows)
	verifTempTable(scope, "u", []string{"id", "b"}, urows)
	x, p, q := verifInt64("x"), verifInt64("p"), verifInt64("q")
	verifVar(scope, "x", value.NewInteger(x))
	verifVar(scope, "p", value.NewInteger(p))
	verifVar(scope, "q", value.NewInteger(q))
	si := verifChoice("statement", len(verifC05Self))
	_, err := proc.Execute(verifCtx(), verifC05Self[si])
	verifAssert("statement succeeds", err == nil)
	if err != nil {
		return
	}
	tv, uv := verifStored(scope, "T"), verifStored(scope, "U")
	intAt := func(v *View, r, c int) (int64, bool) {
		if r >= v.RecordLen() {
			return 0, false
		}
		i, ok := v.RecordSet[r][c][0].(*value.Integer)
		if !ok {
			return 0, false
		}
		return i.Raw(), true
	}
	// reference edit
	wantA := a
	wantB := [3]int64{50, 51, 52}
	gone := [3]bool{}
	touched := [3]bool{}
	uTouched := 0
	uGone := false
	step := 1
	if si == 1 || si == 2 || si == 5 || si == 6 {
		step = 2
	}
	for i := 0; i+step < 3; i++ {
		if a[i] < x { // the pair (x = row i, y = row i+step) passes WHERE (evaluated on the old cells)
			switch si {
			case 0, 4:
				wantA[i], wantB[i+step] = p, q
				touched[i], touched[i+step] = true, true
			case 1:
				wantA[i], wantA[i+step] = p, q
				touched[i], touched[i+step] = true, true
			case 2, 3:
				gone[i], gone[i+step] = true, true
			case 5: // u has id 0: the triple (x 0, y 2, u 0)
				wantA[i], wantB[i+step] = p, q
				touched[i], touched[i+step] = true, true
				uTouched = 1
			case 6:
				gone[i], gone[i+step] = true, true
				uGone = true
			}
		}
	}
	nT, k := 0, 0
	for i := 0; i < 3; i++ {
		if gone[i] {
			nT++
			continue
		}
		if touched[i] {
			nT++
		}
		id, ok0 := intAt(tv, k, 0)
		ga, ok1 := intAt(tv, k, 1)
		gb, ok2 := intAt(tv, k, 2)
		verifAssert("t: the remaining rows in order", ok0 && id == int64(i))
		verifAssert("t: column a holds the edits made through both names", ok1 && ga == wantA[i])
		verifAssert("t: column b holds the edits made through both names", ok2 && gb == wantB[i])
		k++
	}
	verifAssert("t: exactly the unmatched rows remain", tv.RecordLen() == k)
	if uGone {
		verifAssert("u: the matched row is removed", uv.RecordLen() == 1)
		id, ok := intAt(uv, 0, 0)
		verifAssert("u: the other row stays", ok && id == 2)
	} else {
		verifAssert("u: no row added or removed", uv.RecordLen() == 2)
		b0, ok0 := intAt(uv, 0, 1)
		b1, ok1 := intAt(uv, 1, 1)
		w0 := int64(100)
		if uTouched == 1 {
			w0 = q
		}
		verifAssert("u: cells as edited", ok0 && ok1 && b0 == w0 && b1 == 102)
	}
	// messages
	var tLines, uLines []int
	var tCount, uCount = -1, -1
	for n, line := range strings.Split(out.String(), "\n") {
		f := strings.Fields(line)
		if len(f) == 0 {
			continue
		}
		c := 0
		if f[0] != "no" {
			c, _ = strconv.Atoi(f[0])
		}
		if strings.Contains(line, "\"t\"") {
			tLines = append(tLines, n)
			tCount = c
		}
		if strings.Contains(line, "\"u\"") {
			uLines = append(uLines, n)
			uCount = c
		}
	}
	if nT > 0 {
		verifAssert("one message for t", len(tLines) == 1)
		verifAssert("the count for t is the number of its records changed or removed", tCount == nT)
	}
	if si >= 5 && nT > 0 {
		verifAssert("one message for u", len(uLines) == 1)
		verifAssert("the count for u", uCount == 1)
		if len(tLines) == 1 && len(uLines) == 1 {
			if si == 5 {
				verifAssert("messages in the order the tables are listed (u, t)", uLines[0] < tLines[0])
			} else {
				verifAssert("messages in the order the tables are listed (t, u)", tLines[0] < uLines[0])
			}
		}
	}
	verifObserve("changed", int64(nT))
	verifReach("end")
}
