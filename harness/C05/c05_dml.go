package query

//verif:property C05
//verif:pkg lib/query
//verif:setup VerifC05Setup
//verif:harness VerifC05Statements mode=bv tier=quick split=8

import (
	"github.com/mithrandie/csvq/lib/parser"
	"github.com/mithrandie/csvq/lib/value"
)

var verifC05Src = []string{
	"insert into t values (@p, @q, @r), (@r, @q, @p)",          // 0
	"insert into t (b, id) values (@p, @q)",                    // 1
	"update t set b = @p where a < @x",                         // 2
	"update t set a = @p, b = @q where id <> 1 and a >= @x",    // 3
	"delete from t where a < @x",                               // 4
	"replace into t (id, b) using (id) values (1, @p), (7, @q), (8, @r)", // 5
	"alter table t add c after a",                              // 6
	"alter table t add (c default @p, d) first",                // 7
	"alter table t drop a",                                     // 8
	"alter table t rename a to z",                              // 9
	"insert into t select id, b, a from t where a < @x",        // 10
	"delete from t where a is null or a = @x",                  // 11
	"update t set b = a where b < a",                           // 12
	"replace into t (a, b) using (a) values (@x, @p)",          // 13: the key may match several rows or none
	"if 1 = 1 then update t set b = @p where a < @x; end if;",  // 14: statement inside a block, table declared outside
	"if 1 = 1 then insert into t values (@p, @q, @r); delete from t where a < @x; end if;", // 15
	"update t set a = b, b = a where id <> 1",                  // 16: every SET value is computed from the old row
	"alter table t add c default b first",                      // 17: a default computed from an existing column, at a position
	"alter table t add (c default a, d default id) before b",   // 18
	"alter table t add c default b after id",                   // 19
	"insert into t (b, id, a) values (@p, @q, @r)",             // 20: every column named, in another order
	"insert into t (b, a, id) select id, a, b from t where a < @x", // 21
	"replace into t (b, a, id) using (id) values (@p, @q, 1), (@r, @q, 9)", // 22
	"insert into t (a) values (@p), (@q)",                      // 23
}

var verifC05Rollback []parser.Statement

var verifC05Stmts []parser.Statement

func VerifC05Setup() {
	verifC05Stmts = make([]parser.Statement, len(verifC05Src))
	for i, s := range verifC05Src {
		verifC05Stmts[i] = verifParse(s)[0]
	}
	verifC05Rollback = verifParse("rollback;")
}

type verifCellSpec struct {
	null bool
	v    int64
}

func (c verifCellSpec) primary() value.Primary {
	if c.null {
		return value.NewNull()
	}
	return value.NewInteger(c.v)
}

func verifCellIs(p value.Primary, want verifCellSpec) bool {
	if want.null {
		return value.IsNull(p)
	}
	i, ok := p.(*value.Integer)
	if !ok {
		return false
	}
	return i.Raw() == want.v
}

// One data-changing statement (built by the real parser, run by the real Processor) on a temporary
// table of 3 rows (thorough 5) (id, a, b) whose a/b cells are NULL or arbitrary int64: the table afterwards
// equals the reference edit, all other cells are the very same objects, order is kept and the
// reported count is right.
func VerifC05Statements() {
	tx := verifNewTx()
	tx.Flags.Quiet = true
	proc := NewProcessor(tx)
	scope := proc.ReferenceScope
	n := verifBound(3, 5)
	a, b := make([]verifCellSpec, n), make([]verifCellSpec, n)
	rows := make([][]value.Primary, n)
	for i := 0; i < n; i++ {
		a[i] = verifCellSpec{null: verifBool("a.null"), v: verifInt64("a")}
		b[i] = verifCellSpec{v: verifInt64("b")}
		rows[i] = []value.Primary{value.NewInteger(int64(i)), a[i].primary(), b[i].primary()}
	}
	verifTempTable(scope, "t", []string{"id", "a", "b"}, rows)
	x, p, q, r := verifInt64("x"), verifInt64("p"), verifInt64("q"), verifInt64("r")
	verifVar(scope, "x", value.NewInteger(x))
	verifVar(scope, "p", value.NewInteger(p))
	verifVar(scope, "q", value.NewInteger(q))
	verifVar(scope, "r", value.NewInteger(r))
	si := verifChoice("statement", len(verifC05Src))
	verifMapOrder(true) // Go map iteration order is unspecified: explore every order (maps <= 4 entries)
	_, err := proc.Execute(ContextForStoringResults(verifCtx()), []parser.Statement{verifC05Stmts[si]})
	verifAssert("statement succeeds", err == nil)
	got := verifStored(scope, "T")
	cnt := tx.AffectedRows

	// reference edit: rows as lists of cell specs, plus provenance (original row, -1 = new)
	type refRow struct {
		cells []verifCellSpec
		orig  int
	}
	id := func(i int64) verifCellSpec { return verifCellSpec{v: i} }
	null := verifCellSpec{null: true}
	iv := func(v int64) verifCellSpec { return verifCellSpec{v: v} }
	var ref []refRow
	for i := 0; i < n; i++ {
		ref = append(ref, refRow{[]verifCellSpec{id(int64(i)), a[i], b[i]}, i})
	}
	cols := []string{"id", "a", "b"}
	want := -1 // expected count (-1: not reported for ALTER)
	lt := func(c verifCellSpec, y int64) bool { return !c.null && c.v < y }
	switch si {
	case 0:
		ref = append(ref, refRow{[]verifCellSpec{iv(p), iv(q), iv(r)}, -1}, refRow{[]verifCellSpec{iv(r), iv(q), iv(p)}, -1})
		want = 2
	case 1:
		ref = append(ref, refRow{[]verifCellSpec{iv(q), null, iv(p)}, -1})
		want = 1
	case 2:
		want = 0
		for i := range ref {
			if lt(a[i], x) {
				ref[i].cells[2] = iv(p)
				want++
			}
		}
	case 3:
		want = 0
		for i := range ref {
			if i != 1 && !a[i].null && a[i].v >= x {
				ref[i].cells[1], ref[i].cells[2] = iv(p), iv(q)
				want++
			}
		}
	case 4, 11:
		var keep []refRow
		want = 0
		for i := range ref {
			del := lt(a[i], x)
			if si == 11 {
				del = a[i].null || a[i].v == x
			}
			if del {
				want++
			} else {
				keep = append(keep, ref[i])
			}
		}
		ref = keep
	case 5:
		ref[1].cells[2] = iv(p)
		ref = append(ref, refRow{[]verifCellSpec{id(7), null, iv(q)}, -1}, refRow{[]verifCellSpec{id(8), null, iv(r)}, -1})
		want = 3
	case 6:
		cols = []string{"id", "a", "c", "b"}
		for i := range ref {
			c := ref[i].cells
			ref[i].cells = []verifCellSpec{c[0], c[1], null, c[2]}
		}
	case 7:
		cols = []string{"c", "d", "id", "a", "b"}
		for i := range ref {
			c := ref[i].cells
			ref[i].cells = []verifCellSpec{iv(p), null, c[0], c[1], c[2]}
		}
	case 17:
		cols = []string{"c", "id", "a", "b"}
		for i := range ref {
			c := ref[i].cells
			ref[i].cells = []verifCellSpec{c[2], c[0], c[1], c[2]}
		}
	case 18:
		cols = []string{"id", "a", "c", "d", "b"}
		for i := range ref {
			c := ref[i].cells
			ref[i].cells = []verifCellSpec{c[0], c[1], c[1], c[0], c[2]}
		}
	case 19:
		cols = []string{"id", "c", "a", "b"}
		for i := range ref {
			c := ref[i].cells
			ref[i].cells = []verifCellSpec{c[0], c[2], c[1], c[2]}
		}
	case 8:
		cols = []string{"id", "b"}
		for i := range ref {
			c := ref[i].cells
			ref[i].cells = []verifCellSpec{c[0], c[2]}
		}
	case 9:
		cols = []string{"id", "z", "b"}
	case 10:
		want = 0
		for i := 0; i < n; i++ {
			if lt(a[i], x) {
				ref = append(ref, refRow{[]verifCellSpec{id(int64(i)), b[i], a[i]}, -1})
				want++
			}
		}
	case 13:
		want = 0
		for i := range ref {
			if !a[i].null && a[i].v == x {
				ref[i].cells[2] = iv(p)
				want++
			}
		}
		if want == 0 {
			ref = append(ref, refRow{[]verifCellSpec{null, iv(x), iv(p)}, -1})
			want = 1
		}
	case 14:
		want = -1
		for i := range ref {
			if lt(a[i], x) {
				ref[i].cells[2] = iv(p)
			}
		}
	case 15:
		want = -1
		ref = append(ref, refRow{[]verifCellSpec{iv(p), iv(q), iv(r)}, -1})
		var keep []refRow
		for _, rr := range ref {
			if !lt(rr.cells[1], x) {
				keep = append(keep, rr)
			}
		}
		ref = keep
	case 16:
		want = 0
		for i := range ref {
			if i != 1 {
				ref[i].cells[1], ref[i].cells[2] = b[i], a[i]
				want++
			}
		}
	case 20:
		ref = append(ref, refRow{[]verifCellSpec{iv(q), iv(r), iv(p)}, -1})
		want = 1
	case 21:
		want = 0
		for i := 0; i < n; i++ {
			if lt(a[i], x) {
				ref = append(ref, refRow{[]verifCellSpec{b[i], a[i], id(int64(i))}, -1})
				want++
			}
		}
	case 22:
		ref[1].cells[1], ref[1].cells[2] = iv(q), iv(p)
		ref = append(ref, refRow{[]verifCellSpec{id(9), iv(q), iv(r)}, -1})
		want = 2
	case 23:
		ref = append(ref, refRow{[]verifCellSpec{null, iv(p), null}, -1}, refRow{[]verifCellSpec{null, iv(q), null}, -1})
		want = 2
	case 12:
		want = 0
		for i := range ref {
			if !a[i].null && b[i].v < a[i].v {
				ref[i].cells[2] = a[i]
				want++
			}
		}
	}
	verifAssert("number of rows", got.RecordLen() == len(ref))
	verifAssert("number of columns", got.FieldLen() == len(cols))
	for j, c := range cols {
		verifAssert("column name and order", got.Header[j].Column == c)
	}
	for i := 0; i < got.RecordLen() && i < len(ref); i++ {
		verifAssert("row width", len(got.RecordSet[i]) == len(cols))
		for j := range cols {
			verifAssert("cell value after the statement", verifCellIs(got.RecordSet[i][j][0], ref[i].cells[j]))
		}
	}
	if want >= 0 {
		verifAssert("reported number of affected records", cnt == want)
	}
	verifObserve("rows", int64(got.RecordLen()))
	verifObserve("count", int64(cnt))
	// ROLLBACK brings back the table as declared: the statement did not write through to the
	// restore point
	_, err = proc.Execute(verifCtx(), verifC05Rollback)
	verifAssert("rollback succeeds", err == nil)
	back := verifStored(scope, "T")
	verifAssert("rollback: number of rows and columns", back.RecordLen() == n && back.FieldLen() == 3)
	for i := 0; i < back.RecordLen() && i < n; i++ {
		if len(back.RecordSet[i]) == 3 {
			verifAssert("rollback: cells as declared", verifCellIs(back.RecordSet[i][0][0], verifCellSpec{v: int64(i)}) && verifCellIs(back.RecordSet[i][1][0], a[i]) && verifCellIs(back.RecordSet[i][2][0], b[i]))
		}
	}
	verifReach("end")
}
