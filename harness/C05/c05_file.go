package query

//verif:property C05
//verif:pkg lib/query
//verif:setup VerifC05FileSetup
//verif:harness VerifC05SelfReferencing mode=bv tier=quick split=2

import (
	"github.com/mithrandie/csvq/lib/parser"
)

var verifC05FileSrc = []string{
	"update t set a = (select max(z.a) from t as z);",
	"update t set a = (select count(*) from t as z where z.a >= t.a);",
	"delete from t where a < (select avg(z.a) from t as z);",
	"insert into t select id + 3, a from t;",
	"replace into t (id, a) using (id) select id, a + 1 from t where id < 3;",
	"update t set a = a + (select min(z.a) from t as z) where id in (select z.id from t as z where z.a > 5);",
}
var verifC05FileWant = []string{
	"id,a\n1,9\n2,9\n3,9\n", "id,a\n1,3\n2,1\n3,2\n", "id,a\n2,9\n3,7\n", "id,a\n1,5\n2,9\n3,7\n4,5\n5,9\n6,7\n",
	"id,a\n1,6\n2,10\n3,7\n", "id,a\n1,5\n2,14\n3,12\n",
}
var verifC05FileCount = []int{3, 3, 1, 3, 2, 2}
var verifC05FileStmts [][]parser.Statement
var verifC05FileCommit []parser.Statement

func VerifC05FileSetup() {
	for _, s := range verifC05FileSrc {
		verifC05FileStmts = append(verifC05FileStmts, verifParse(s))
	}
	verifC05FileCommit = verifParse("commit;")
}

// Data-changing statements on a table file whose expressions read the same table through subqueries: every
// row is computed from the table as it was before the statement (the statement never sees its own partial
// effect), the count is exact, and COMMIT writes exactly that table.  The table may have been read by an
// earlier statement of the transaction or not.
func VerifC05SelfReferencing() {
	verifFileWrite("t.csv", "id,a\n1,5\n2,9\n3,7\n")
	tx := verifNewTx()
	tx.Flags.Quiet = true
	proc := NewProcessor(tx)
	si := verifChoice("statement", len(verifC05FileSrc))
	if verifBool("read-first") {
		_, err := proc.Execute(verifCtx(), verifParseC05Sel())
		verifAssert("the first read succeeds", err == nil)
	}
	_, err := proc.Execute(ContextForStoringResults(verifCtx()), verifC05FileStmts[si])
	verifAssert("the statement succeeds", err == nil)
	verifAssert("reported number of affected records", tx.AffectedRows == verifC05FileCount[si])
	_, err = proc.Execute(verifCtx(), verifC05FileCommit)
	verifAssert("commit succeeds", err == nil)
	_ = proc.AutoRollback()
	_ = proc.ReleaseResourcesWithErrors()
	verifAssert("the file is the old table with exactly the specified edit", verifFileRead("t.csv") == verifC05FileWant[si])
	verifObserve("count", int64(tx.AffectedRows))
	verifReach("end")
}

var verifC05FileSel []parser.Statement

func verifParseC05Sel() []parser.Statement { return verifC05FileSel }

//verif:setup VerifC05FileSetup2
func VerifC05FileSetup2() { verifC05FileSel = verifParse("select * from t;") }
