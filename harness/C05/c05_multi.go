package query

//verif:property C05
//verif:pkg lib/query
//verif:setup VerifC05MultiSetup
//verif:harness VerifC05MultiTable mode=bv tier=quick split=4

import (
	"strconv"
	"strings"

	"github.com/mithrandie/csvq/lib/parser"
	"github.com/mithrandie/csvq/lib/value"
)

var verifC05Multi [][]parser.Statement

func VerifC05MultiSetup() {
	for _, s := range []string{
		"update t, u set t.a = @p, u.b = @q from t inner join u on t.id = u.id where t.a < @x",
		"delete t, u from t inner join u on t.id = u.id where t.a < @x",
		"delete u from t inner join u on t.id = u.id where t.a < @x",
	} {
		verifC05Multi = append(verifC05Multi, verifParse(s+";"))
	}
}

// Multi-table UPDATE and DELETE over a join of two temporary tables (t: 3 rows, u: 2 rows with ids 0
// and 2) with symbolic cells: each table afterwards is the old table with exactly the rows matched
// through the join changed or removed, and the messages report, per table, exactly the number of
// its records that were updated or deleted.
func VerifC05MultiTable() {
	tx := verifNewTx()
	out := NewOutput()
	tx.Session.SetStdout(out)
	proc := NewProcessor(tx)
	scope := proc.ReferenceScope
	var a [3]int64
	trows := make([][]value.Primary, 3)
	for i := range trows {
		a[i] = verifInt64("a")
		trows[i] = []value.Primary{value.NewInteger(int64(i)), value.NewInteger(a[i])}
	}
	uids := [2]int64{0, 2}
	urows := [][]value.Primary{{value.NewInteger(0), value.NewInteger(100)}, {value.NewInteger(2), value.NewInteger(102)}}
	verifTempTable(scope, "t", []string{"id", "a"}, trows)
	verifTempTable(scope, "u", []string{"id", "b"}, urows)
	x, p, q := verifInt64("x"), verifInt64("p"), verifInt64("q")
	verifVar(scope, "x", value.NewInteger(x))
	verifVar(scope, "p", value.NewInteger(p))
	verifVar(scope, "q", value.NewInteger(q))
	si := verifChoice("statement", len(verifC05Multi))
	_, err := proc.Execute(verifCtx(), verifC05Multi[si])
	verifAssert("statement succeeds", err == nil)
	// the join pairs t.id = u.id for ids 0 and 2; a pair is hit when t.a < x
	hit := [3]bool{a[0] < x, false, a[2] < x}
	nhit := 0
	for _, h := range hit {
		if h {
			nhit++
		}
	}
	tv, uv := verifStored(scope, "T"), verifStored(scope, "U")
	intAt := func(v *View, r, c int) (int64, bool) {
		i, ok := v.RecordSet[r][c][0].(*value.Integer)
		if !ok {
			return 0, false
		}
		return i.Raw(), true
	}
	switch si {
	case 0:
		verifAssert("no rows added or removed", tv.RecordLen() == 3 && uv.RecordLen() == 2)
		for i := 0; i < 3 && i < tv.RecordLen(); i++ {
			got, ok := intAt(tv, i, 1)
			want := a[i]
			if hit[i] {
				want = p
			}
			verifAssert("t.a is rewritten exactly for the matched rows", ok && got == want)
		}
		for j := 0; j < 2 && j < uv.RecordLen(); j++ {
			got, ok := intAt(uv, j, 1)
			want := 100 + uids[j]
			if hit[uids[j]] {
				want = q
			}
			verifAssert("u.b is rewritten exactly for the matched rows", ok && got == want)
		}
	case 1, 2:
		wantT := 3
		if si == 1 {
			wantT = 3 - nhit
		}
		verifAssert("t keeps exactly its unmatched rows", tv.RecordLen() == wantT)
		verifAssert("u keeps exactly its unmatched rows", uv.RecordLen() == 2-nhit)
		k := 0
		for j := 0; j < 2; j++ {
			if !hit[uids[j]] {
				if k < uv.RecordLen() {
					got, ok := intAt(uv, k, 0)
					verifAssert("u's remaining rows in order", ok && got == uids[j])
				}
				k++
			}
		}
	}
	// messages: "<n> record(s) updated|deleted on "t"." per table
	log := out.String()
	count := func(table string) int {
		for _, line := range strings.Split(log, "\n") {
			if strings.Contains(line, "\""+table+"\"") {
				f := strings.Fields(line)
				if len(f) > 0 {
					if f[0] == "no" {
						return 0
					}
					if n, e := strconv.Atoi(f[0]); e == nil {
						return n
					}
				}
			}
		}
		return -1
	}
	if nhit > 0 {
		if si != 2 {
			verifAssert("the message for t reports t's own count", count("t") == nhit)
		}
		verifAssert("the message for u reports u's own count", count("u") == nhit)
	}
	verifObserve("hit", int64(nhit))
	verifReach("end")
}
