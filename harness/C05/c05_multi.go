package query

//verif:property C05
//verif:pkg lib/query
//verif:setup VerifC05MultiSetup
//verif:harness VerifC05MultiTable mode=bv tier=quick split=4
//verif:harness VerifC05UpdateFrom mode=bv tier=quick split=4

import (
	"strconv"
	"strings"

	"github.com/mithrandie/csvq/lib/parser"
	"github.com/mithrandie/csvq/lib/value"
)

var verifC05Multi [][]parser.Statement

var verifC05From [][]parser.Statement

func VerifC05MultiSetup() {
	for _, s := range []string{
		"update i set i.price = p.price from prices p join items i on p.sku = i.sku",
		"update i set i.price = p.price from items i join prices p on p.sku = i.sku",
		"update items set price = (select max(p.price) from prices p where p.sku = items.sku) where sku in (select sku from prices)",
		"update i set i.price = p.price from items i, prices p where p.sku = i.sku and p.price < @x",
	} {
		verifC05From = append(verifC05From, verifParse(s+";"))
	}
	for _, s := range []string{
		"update t, u set t.a = @p, u.b = @q from t inner join u on t.id = u.id where t.a < @x",
		"delete t, u from t inner join u on t.id = u.id where t.a < @x",
		"delete u from t inner join u on t.id = u.id where t.a < @x",
	} {
		verifC05Multi = append(verifC05Multi, verifParse(s+";"))
	}
}

// Multi-table UPDATE and DELETE over a join of two temporary tables (t: 3 rows, u: 2 rows with ids 0
// and 2) with symbolic cells: each table afterwards is the old table with exactly the rows matched
// through the join changed or removed, and the messages report, per table, exactly the number of
// its records that were updated or deleted.
func VerifC05MultiTable() {
	tx := verifNewTx()
	out := NewOutput()
	tx.Session.SetStdout(out)
	proc := NewProcessor(tx)
	scope := proc.ReferenceScope
	var a [3]int64
	trows := make([][]value.Primary, 3)
	for i := range trows {
		a[i] = verifInt64("a")
		trows[i] = []value.Primary{value.NewInteger(int64(i)), value.NewInteger(a[i])}
	}
	uids := [2]int64{0, 2}
	urows := [][]value.Primary{{value.NewInteger(0), value.NewInteger(100)}, {value.NewInteger(2), value.NewInteger(102)}}
	verifTempTable(scope, "t", []string{"id", "a"}, trows)
	verifTempTable(scope, "u", []string{"id", "b"}, urows)
	x, p, q := verifInt64("x"), verifInt64("p"), verifInt64("q")
	verifVar(scope, "x", value.NewInteger(x))
	verifVar(scope, "p", value.NewInteger(p))
	verifVar(scope, "q", value.NewInteger(q))
	si := verifChoice("statement", len(verifC05Multi))
	_, err := proc.Execute(verifCtx(), verifC05Multi[si])
	verifAssert("statement succeeds", err == nil)
	// the join pairs t.id = u.id for ids 0 and 2; a pair is hit when t.a < x
	hit := [3]bool{a[0] < x, false, a[2] < x}
	nhit := 0
	for _, h := range hit {
		if h {
			nhit++
		}
	}
	tv, uv := verifStored(scope, "T"), verifStored(scope, "U")
	intAt := func(v *View, r, c int) (int64, bool) {
		i, ok := v.RecordSet[r][c][0].(*value.Integer)
		if !ok {
			return 0, false
		}
		return i.Raw(), true
	}
	switch si {
	case 0:
		verifAssert("no rows added or removed", tv.RecordLen() == 3 && uv.RecordLen() == 2)
		for i := 0; i < 3 && i < tv.RecordLen(); i++ {
			got, ok := intAt(tv, i, 1)
			want := a[i]
			if hit[i] {
				want = p
			}
			verifAssert("t.a is rewritten exactly for the matched rows", ok && got == want)
		}
		for j := 0; j < 2 && j < uv.RecordLen(); j++ {
			got, ok := intAt(uv, j, 1)
			want := 100 + uids[j]
			if hit[uids[j]] {
				want = q
			}
			verifAssert("u.b is rewritten exactly for the matched rows", ok && got == want)
		}
	case 1, 2:
		wantT := 3
		if si == 1 {
			wantT = 3 - nhit
		}
		verifAssert("t keeps exactly its unmatched rows", tv.RecordLen() == wantT)
		verifAssert("u keeps exactly its unmatched rows", uv.RecordLen() == 2-nhit)
		k := 0
		for j := 0; j < 2; j++ {
			if !hit[uids[j]] {
				if k < uv.RecordLen() {
					got, ok := intAt(uv, k, 0)
					verifAssert("u's remaining rows in order", ok && got == uids[j])
				}
				k++
			}
		}
	}
	// messages: "<n> record(s) updated|deleted on "t"." per table
	log := out.String()
	count := func(table string) int {
		for _, line := range strings.Split(log, "\n") {
			if strings.Contains(line, "\""+table+"\"") {
				f := strings.Fields(line)
				if len(f) > 0 {
					if f[0] == "no" {
						return 0
					}
					if n, e := strconv.Atoi(f[0]); e == nil {
						return n
					}
				}
			}
		}
		return -1
	}
	if nhit > 0 {
		if si != 2 {
			verifAssert("the message for t reports t's own count", count("t") == nhit)
		}
		verifAssert("the message for u reports u's own count", count("u") == nhit)
	}
	verifObserve("hit", int64(nhit))
	verifReach("end")
}

// UPDATE ... FROM a join, with the updated table on either side of the join: items (3 rows) and prices
// (3 rows) carry keys from {0, 1} and {0, 1, 2}; a threshold on the price is arbitrary.  A record of the updated table that two
// joined rows would set is refused ("ambiguous") and nothing changes; otherwise every record gets the
// value of its one partner, records without a partner keep theirs, and the count is the number of
// records with a partner - whatever the order in which the join delivers the pairs.
func VerifC05UpdateFrom() {
	tx := verifNewTx()
	tx.Flags.Quiet = true
	proc := NewProcessor(tx)
	scope := proc.ReferenceScope
	var isku, psku [3]int
	var price [3]int64
	irows := make([][]value.Primary, 3)
	prows := make([][]value.Primary, 3)
	for i := 0; i < 3; i++ {
		isku[i] = verifChoice("item-sku", 2)
		irows[i] = []value.Primary{value.NewInteger(int64(i)), value.NewInteger(int64(isku[i])), value.NewInteger(-1)}
	}
	for j := 0; j < 3; j++ {
		psku[j] = verifChoice("price-sku", 3)
		price[j] = int64(10 * (j + 1)) // the subject is which records pair up, not the amounts
		prows[j] = []value.Primary{value.NewInteger(int64(psku[j])), value.NewInteger(price[j])}
	}
	verifTempTable(scope, "items", []string{"id", "sku", "price"}, irows)
	verifTempTable(scope, "prices", []string{"sku", "price"}, prows)
	x := verifInt64("x")
	verifVar(scope, "x", value.NewInteger(x))
	si := verifChoice("statement", len(verifC05From))
	_, err := proc.Execute(ContextForStoringResults(verifCtx()), verifC05From[si])
	got := verifStored(scope, "ITEMS")
	verifAssert("no rows added or removed", got.RecordLen() == 3)
	partners := func(i int) (n int, last int64, max int64) {
		for j := 0; j < 3; j++ {
			if psku[j] == isku[i] && (si != 3 || price[j] < x) {
				if n == 0 || price[j] > max {
					max = price[j]
				}
				n++
				last = price[j]
			}
		}
		return
	}
	ambiguous := false
	for i := 0; i < 3; i++ {
		if n, _, _ := partners(i); n > 1 && si != 2 {
			ambiguous = true
		}
	}
	verifAssert("refused exactly when two joined rows would set one record", (err != nil) == ambiguous)
	cnt := 0
	for i := 0; i < 3 && i < got.RecordLen(); i++ {
		n, last, max := partners(i)
		want := int64(-1)
		if err == nil && n > 0 {
			want = last
			if si == 2 {
				want = max
			}
			cnt++
		}
		verifAssert("price after the statement", verifIntIs(got.RecordSet[i][2][0], want))
		verifAssert("other cells untouched", verifIntIs(got.RecordSet[i][0][0], int64(i)) && verifIntIs(got.RecordSet[i][1][0], int64(isku[i])))
	}
	if err == nil {
		verifAssert("reported number of updated records", tx.AffectedRows == cnt)
	}
	verifObserveBool("refused", err != nil)
	verifReach("end")
}

func verifIntIs(p value.Primary, want int64) bool {
	i, ok := p.(*value.Integer)
	return ok && i.Raw() == want
}
