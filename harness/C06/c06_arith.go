package query

//verif:property C06
//verif:pkg lib/query
//verif:harness VerifC06Calculate mode=real tier=quick split=4

import (
	"strconv"
	"strings"

	"github.com/mithrandie/csvq/lib/value"
)

var verifC06NumStrings = []string{"3", " -2 ", "0", "1.5", "2e1", "abc", "", "true"}

type verifC06Num struct {
	class  int // 0 null 1 integer 2 float(integral) 3 string 4 boolean
	i      int64
	isInt  bool // has the integer rung
	isNum  bool // has the float rung
	intVal int64
	p      value.Primary
}

func verifC06NumOperand(tag string) *verifC06Num {
	o := &verifC06Num{class: verifChoice(tag+"class", 5)}
	switch o.class {
	case 0:
		o.p = value.NewNull()
	case 1:
		o.i = verifInt64(tag + "int")
		verifAssume(o.i > -(1 << 26))
		verifAssume(o.i < 1<<26)
		o.isInt, o.isNum, o.intVal = true, true, o.i
		o.p = value.NewInteger(o.i)
	case 2:
		o.i = verifInt64(tag + "fint")
		verifAssume(o.i > -(1 << 26))
		verifAssume(o.i < 1<<26)
		o.isNum, o.intVal = true, o.i
		o.p = value.NewFloat(float64(o.i))
	case 3:
		s := verifC06NumStrings[verifChoice(tag+"string", len(verifC06NumStrings))]
		o.p = value.NewString(s)
		if v, err := strconv.ParseInt(strings.TrimSpace(s), 10, 64); err == nil {
			o.isInt, o.isNum, o.intVal = true, true, v
		} else if _, err := strconv.ParseFloat(strings.TrimSpace(s), 64); err == nil {
			o.isNum = true
		}
	default:
		o.p = value.NewBoolean(verifBool(tag + "bool"))
	}
	return o
}

// Calculate on every pair of operand classes and every operator: NULL exactly for non-numeric
// operands, Integer exactly when both operands have the integer rung, error exactly for integer
// division/modulo by zero, and integer and float arithmetic agree on integral operands.
func VerifC06Calculate() {
	a := verifC06NumOperand("a.")
	b := verifC06NumOperand("b.")
	op := [5]int{'+', '-', '*', '/', '%'}[verifChoice("op", 5)]
	r, err := Calculate(a.p, b.p, op)
	bothInt := a.isInt && b.isInt
	bothNum := a.isNum && b.isNum
	divZero := bothInt && (op == '/' || op == '%') && b.intVal == 0
	verifAssert("error iff integer division or modulo by zero", (err != nil) == divZero)
	if err != nil {
		verifReach("error")
		return
	}
	_, isInt := r.(*value.Integer)
	_, isFloat := r.(*value.Float)
	verifAssert("NULL iff an operand is not numeric", value.IsNull(r) == !bothNum)
	verifAssert("integer iff both operands are integers", isInt == bothInt)
	verifAssert("float otherwise", isFloat == (bothNum && !bothInt))
	if bothInt {
		x, y, got := a.intVal, b.intVal, r.(*value.Integer).Raw()
		verifObserve("int-result", got)
		switch op {
		case '+':
			verifAssert("integer +", got == x+y)
		case '-':
			verifAssert("integer -", got == x-y)
		case '*':
			verifAssert("integer *", got == x*y)
		case '%':
			verifAssert("a % b has the sign of a", verifOr(got == 0, (got < 0) == (x < 0)))
			if y < 0 {
				verifAssert("|a % b| < |b|", verifAnd(got < -y, -got < -y))
			} else {
				verifAssert("|a % b| < |b|", verifAnd(got < y, -got < y))
			}
		}
	}
	// float arithmetic on the same integral operands agrees with integer arithmetic
	if a.class <= 2 && b.class <= 2 && a.class >= 1 && b.class >= 1 && op != '/' {
		x, y := a.i, b.i
		if op == '%' && y == 0 {
			verifReach("float-mod-zero")
			return
		}
		fr, ferr := Calculate(value.NewFloat(float64(x)), value.NewFloat(float64(y)), op)
		ir, ierr := Calculate(value.NewInteger(x), value.NewInteger(y), op)
		verifAssert("no error on integral operands", verifAnd(ferr == nil, ierr == nil))
		fv := fr.(*value.Float).Raw()
		iv := ir.(*value.Integer).Raw()
		verifAssert("float and integer arithmetic agree on integral operands", fv == float64(iv))
	}
	verifReach("end")
}
