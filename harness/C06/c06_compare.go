package value

//verif:property C06
//verif:pkg lib/value
//verif:harness VerifC06Ladder mode=bv tier=quick split=8
//verif:harness VerifC06Kleene mode=bv tier=quick

import (
	"math"
	"strconv"
	"strings"
	"time"

	"github.com/mithrandie/ternary"
)

// One operand of every value class.  Numbers, booleans, ternaries and datetimes are symbolic;
// strings come from a menu of representatives of each conversion class of the documented table
// (docs/_posts/2006-01-02-value.md, "Automatic Type Casting").
type verifC06Op struct {
	class int // 0 Null 1 Integer 2 Float 3 Boolean 4 Ternary 5 Datetime 6 String
	i     int64
	f     float64
	b     bool
	t     ternary.Value
	sec   int64
	s     string
	p     Primary
}

var verifC06Strings = []string{
	"1", " 1 ", "0", "-2", "9223372036854775807", "1.5", " 1.50", "1e2", "-0", "NaN", "Inf", "-Inf",
	"true", "false", "t", "f", "abc", " ABC ", "abd", "", "  ",
	"2012-02-03 09:18:15", "2012-02-03T09:18:15Z", "2012-02-04",
	// less common spellings of numbers: no leading or trailing digit, explicit sign, hexadecimal, long infinity
	".5", "-.5", "5.", "+3", "0x1p-2", "Infinity",
	// integers whose text is longer than the 19 digits of the largest int64
	"-9223372036854775808", "-9223372036854775807", "+0000000000000000000002",
}

func verifC06Operand(tag string) *verifC06Op {
	o := &verifC06Op{class: verifChoice(tag+"class", 7)}
	switch o.class {
	case 0:
		o.p = NewNull()
	case 1:
		o.i = verifInt64(tag + "int")
		o.p = NewInteger(o.i)
	case 2:
		o.f = verifFloat64(tag + "float")
		o.p = NewFloat(o.f)
	case 3:
		o.b = verifBool(tag + "bool")
		o.p = NewBoolean(o.b)
	case 4:
		o.t = [3]ternary.Value{ternary.FALSE, ternary.UNKNOWN, ternary.TRUE}[verifChoice(tag+"ternary", 3)]
		o.p = NewTernary(o.t)
	case 5:
		o.sec = verifInt64(tag + "sec")
		verifAssume(o.sec > -1<<40)
		verifAssume(o.sec < 1<<40)
		o.p = NewDatetime(time.Unix(o.sec, 0).In(time.UTC))
	default:
		o.s = verifC06Strings[verifChoice(tag+"string", len(verifC06Strings))]
		o.p = NewString(o.s)
	}
	return o
}

// documented conversions (reference model, independent of lib/value/conv.go)
func (o *verifC06Op) asInt() (int64, bool) {
	switch o.class {
	case 1:
		return o.i, true
	case 6:
		v, err := strconv.ParseInt(strings.TrimSpace(o.s), 10, 64)
		return v, err == nil
	}
	return 0, false
}

func (o *verifC06Op) asFloat() (float64, bool) {
	switch o.class {
	case 1:
		return float64(o.i), true
	case 2:
		return o.f, true
	case 6:
		v, err := strconv.ParseFloat(strings.TrimSpace(o.s), 64)
		return v, err == nil
	}
	return 0, false
}

func (o *verifC06Op) asTime() (int64, bool) {
	switch o.class {
	case 5:
		return o.sec, true
	case 6:
		switch strings.TrimSpace(o.s) {
		case "2012-02-03 09:18:15", "2012-02-03T09:18:15Z":
			return 1328260695, true
		case "2012-02-04":
			return 1328313600, true
		}
	}
	return 0, false
}

func (o *verifC06Op) asBool() (bool, bool) {
	switch o.class {
	case 3:
		return o.b, true
	case 1:
		if o.i == 1 {
			return true, true
		}
		if o.i == 0 {
			return false, true
		}
	case 2:
		if o.f == 1 {
			return true, true
		}
		if o.f == 0 {
			return false, true
		}
	case 4:
		if o.t == ternary.TRUE {
			return true, true
		}
		if o.t == ternary.FALSE {
			return false, true
		}
	case 6:
		switch strings.TrimSpace(o.s) {
		case "1", "t", "true":
			return true, true
		case "0", "f", "false":
			return false, true
		}
	}
	return false, false
}

// expected result class: 0 equal, 1 bool-equal, 2 not-equal (unordered), 3 less, 4 greater, 5 unknown
func verifC06Expected(a, b *verifC06Op) int {
	if a.class == 0 || b.class == 0 {
		return 5
	}
	if x, ok := a.asInt(); ok {
		if y, ok := b.asInt(); ok {
			if x == y {
				return 0
			}
			if x < y {
				return 3
			}
			return 4
		}
	}
	if x, ok := a.asFloat(); ok {
		if y, ok := b.asFloat(); ok {
			if math.IsNaN(x) || math.IsNaN(y) {
				return 2
			}
			if x == y {
				return 0
			}
			if x < y {
				return 3
			}
			return 4
		}
	}
	if x, ok := a.asTime(); ok {
		if y, ok := b.asTime(); ok {
			if x == y {
				return 0
			}
			if x < y {
				return 3
			}
			return 4
		}
	}
	if x, ok := a.asBool(); ok {
		if y, ok := b.asBool(); ok {
			if x == y {
				return 1
			}
			return 2
		}
	}
	if a.class == 6 && b.class == 6 {
		x, y := strings.ToUpper(strings.TrimSpace(a.s)), strings.ToUpper(strings.TrimSpace(b.s))
		if x == y {
			return 0
		}
		if x < y {
			return 3
		}
		return 4
	}
	return 5
}

func verifTern(b bool) ternary.Value {
	if b {
		return ternary.TRUE
	}
	return ternary.FALSE
}

// The six relational operators on every pair of operand classes: each equals what the documented
// ladder prescribes and the operators are mutually consistent.
func VerifC06Ladder() {
	a := verifC06Operand("a.")
	b := verifC06Operand("b.")
	loc := time.UTC
	eq := Equal(a.p, b.p, nil, loc)
	ne := NotEqual(a.p, b.p, nil, loc)
	lt := Less(a.p, b.p, nil, loc)
	gt := Greater(a.p, b.p, nil, loc)
	le := LessOrEqual(a.p, b.p, nil, loc)
	ge := GreaterOrEqual(a.p, b.p, nil, loc)
	verifObserve("eq", int64(eq))
	verifObserve("lt", int64(lt))
	// consistency laws
	verifAssert("a<b iff b>a", lt == Greater(b.p, a.p, nil, loc))
	verifAssert("a>b iff b<a", gt == Less(b.p, a.p, nil, loc))
	verifAssert("a<>b iff NOT(a=b)", ne == ternary.Not(eq))
	verifAssert("= is symmetric", eq == Equal(b.p, a.p, nil, loc))
	if lt != ternary.UNKNOWN {
		verifAssert("a<=b iff a<b OR a=b", le == ternary.Or(lt, eq))
		verifAssert("a>=b iff a>b OR a=b", ge == ternary.Or(gt, eq))
	} else {
		verifAssert("unordered: <= unknown", le == ternary.UNKNOWN)
		verifAssert("unordered: >= unknown", ge == ternary.UNKNOWN)
		verifAssert("unordered: > unknown", gt == ternary.UNKNOWN)
	}
	// the ladder itself
	var weq, wlt, wgt ternary.Value
	switch verifC06Expected(a, b) {
	case 0:
		weq, wlt, wgt = ternary.TRUE, ternary.FALSE, ternary.FALSE
	case 1:
		weq, wlt, wgt = ternary.TRUE, ternary.UNKNOWN, ternary.UNKNOWN
	case 2:
		weq, wlt, wgt = ternary.FALSE, ternary.UNKNOWN, ternary.UNKNOWN
	case 3:
		weq, wlt, wgt = ternary.FALSE, ternary.TRUE, ternary.FALSE
	case 4:
		weq, wlt, wgt = ternary.FALSE, ternary.FALSE, ternary.TRUE
	default:
		weq, wlt, wgt = ternary.UNKNOWN, ternary.UNKNOWN, ternary.UNKNOWN
	}
	verifAssert("= follows the documented ladder", eq == weq)
	verifAssert("< follows the documented ladder", lt == wlt)
	verifAssert("> follows the documented ladder", gt == wgt)
	// Compare dispatches the operators
	verifAssert("Compare =", Compare(a.p, b.p, "=", nil, loc) == eq)
	verifAssert("Compare <>", Compare(a.p, b.p, "<>", nil, loc) == ne)
	verifAssert("Compare !=", Compare(a.p, b.p, "!=", nil, loc) == ne)
	verifAssert("Compare <", Compare(a.p, b.p, "<", nil, loc) == lt)
	verifAssert("Compare <=", Compare(a.p, b.p, "<=", nil, loc) == le)
	verifAssert("Compare >", Compare(a.p, b.p, ">", nil, loc) == gt)
	verifAssert("Compare >=", Compare(a.p, b.p, ">=", nil, loc) == ge)
	// operands are not modified by comparing them
	switch a.class {
	case 1:
		verifAssert("operand unchanged (int)", a.p.(*Integer).Raw() == a.i)
	case 6:
		verifAssert("operand unchanged (string)", a.p.(*String).Raw() == a.s)
	}
	verifReach("end")
}

// Kleene logic of the ternary package used for AND/OR/NOT, over all 27 triples.
func VerifC06Kleene() {
	vals := [3]ternary.Value{ternary.FALSE, ternary.UNKNOWN, ternary.TRUE}
	a := vals[verifChoice("a", 3)]
	b := vals[verifChoice("b", 3)]
	rank := func(t ternary.Value) int { // FALSE < UNKNOWN < TRUE
		switch t {
		case ternary.FALSE:
			return 0
		case ternary.UNKNOWN:
			return 1
		}
		return 2
	}
	min, max := rank(a), rank(a)
	if rank(b) < min {
		min = rank(b)
	}
	if rank(b) > max {
		max = rank(b)
	}
	verifAssert("AND is the minimum", rank(ternary.And(a, b)) == min)
	verifAssert("OR is the maximum", rank(ternary.Or(a, b)) == max)
	verifAssert("NOT mirrors", rank(ternary.Not(a)) == 2-rank(a))
	verifAssert("All of a,b", rank(ternary.All([]ternary.Value{a, b})) == min)
	verifAssert("Any of a,b", rank(ternary.Any([]ternary.Value{a, b})) == max)
	verifAssert("ParseBool", a.ParseBool() == (a == ternary.TRUE))
	verifAssert("ConvertFromBool", ternary.ConvertFromBool(a == ternary.TRUE) == verifTern(a == ternary.TRUE))
	verifObserve("and", int64(ternary.And(a, b)))
	verifReach("end")
}
