package query

//verif:property C06
//verif:pkg lib/query
//verif:harness VerifC06IntegerRange mode=bv tier=quick
//verif:harness VerifC06IntegerLiterals mode=bv tier=quick
//verif:harness VerifC06DatetimeOfNumber mode=bv tier=quick

import "github.com/mithrandie/csvq/lib/value"

// Integer + and - over the whole int64 range (machine integers as bit-vectors): the result is the
// mathematical sum or difference - which is also what float arithmetic on the same integral operands
// gives - i.e. it never wraps around.
func VerifC06IntegerRange() {
	a, b := verifInt64("a"), verifInt64("b")
	minus := verifChoice("op", 2) == 1
	op := '+'
	if minus {
		op = '-'
	}
	r, err := Calculate(value.NewInteger(a), value.NewInteger(b), int(op))
	verifAssert("no error", err == nil)
	i, ok := r.(*value.Integer)
	verifAssert("an integer", ok)
	if !ok {
		return
	}
	got := i.Raw()
	if minus {
		// a - b wraps iff the signs of a and b differ and the sign of the result differs from a's
		verifAssert("a - b does not wrap around", !verifAnd((a < 0) != (b < 0), (got < 0) != (a < 0)))
		verifAssert("a - b is the difference modulo 2^64", got == a-b)
	} else {
		// a + b wraps iff a and b have the same sign and the result has the other one
		verifAssert("a + b does not wrap around", !verifAnd((a < 0) == (b < 0), (got < 0) != (a < 0)))
		verifAssert("a + b is the sum modulo 2^64", got == a+b)
	}
	verifObserve("result", got)
	verifReach("end")
}

// Integer literals keep the integer rung over the whole non-negative int64 range: a literal from a
// menu of boundary values (around 2^31, 2^32, 2^53, 2^63-1) evaluates to that integer, divides as an
// integer, and differs from its neighbour.
func VerifC06IntegerLiterals() {
	menu := []int64{0, 7, 2147483647, 2147483648, 3000000000, 4294967296, 9007199254740993, 9223372036854775806, 9223372036854775807}
	n := menu[verifChoice("literal", len(menu))]
	lit := value.Int64ToStr(n)
	tx := verifNewTx()
	scope := NewReferenceScope(tx)
	q := verifParseSelect("select " + lit + ", " + lit + " / 7, " + lit + " = " + lit + " - 1, -" + lit)
	view, err := Select(verifCtx(), scope, q)
	verifAssert("the query runs", err == nil && view.RecordLen() == 1)
	if err != nil || view.RecordLen() != 1 {
		return
	}
	rec := view.RecordSet[0]
	i0, ok0 := rec[0][0].(*value.Integer)
	verifAssert("the literal is that integer", ok0 && i0.Raw() == n)
	i1, ok1 := rec[1][0].(*value.Integer)
	verifAssert("integer division of the literal", ok1 && i1.Raw() == n/7)
	t2, ok2 := rec[2][0].(*value.Ternary)
	verifAssert("the literal differs from its predecessor", ok2 && t2.Ternary().String() == "FALSE")
	i3, ok3 := rec[3][0].(*value.Integer)
	verifAssert("the negated literal", ok3 && i3.Raw() == -n)
	verifObserve("literal", n)
	verifReach("end")
}

// DATETIME(number): the number counts seconds from the epoch, also when it is negative and has a
// fraction: for n in 0..3 and a fraction from {0, .25, .5} with either sign the result is exactly that
// many nanoseconds from the epoch.
func VerifC06DatetimeOfNumber() {
	n := int64(verifChoice("seconds", 4))
	fr := []int64{0, 250000000, 500000000}[verifChoice("fraction", 3)]
	neg := verifChoice("negative", 2) == 1
	nanos := n*1000000000 + fr
	f := float64(n) + float64(fr)/1e9
	if neg {
		nanos, f = -nanos, -f
	}
	tx := verifNewTx()
	scope := NewReferenceScope(tx)
	verifVar(scope, "f", value.NewFloat(f))
	q := verifParseSelect("select datetime(@f)")
	view, err := Select(verifCtx(), scope, q)
	verifAssert("the query runs", err == nil && view.RecordLen() == 1)
	if err != nil || view.RecordLen() != 1 {
		return
	}
	d, ok := view.RecordSet[0][0][0].(*value.Datetime)
	verifAssert("a datetime", ok)
	if ok {
		verifAssert("exactly that many nanoseconds from the epoch", d.Raw().UnixNano() == nanos)
	}
	verifObserve("nanos", nanos)
	verifReach("end")
}
