package query

//verif:property C06
//verif:pkg lib/query
//verif:harness VerifC06IntegerRange mode=bv tier=quick

import "github.com/mithrandie/csvq/lib/value"

// Integer + and - over the whole int64 range (machine integers as bit-vectors): the result is the
// mathematical sum or difference - which is also what float arithmetic on the same integral operands
// gives - i.e. it never wraps around.
func VerifC06IntegerRange() {
	a, b := verifInt64("a"), verifInt64("b")
	minus := verifChoice("op", 2) == 1
	op := '+'
	if minus {
		op = '-'
	}
	r, err := Calculate(value.NewInteger(a), value.NewInteger(b), int(op))
	verifAssert("no error", err == nil)
	i, ok := r.(*value.Integer)
	verifAssert("an integer", ok)
	if !ok {
		return
	}
	got := i.Raw()
	if minus {
		// a - b wraps iff the signs of a and b differ and the sign of the result differs from a's
		verifAssert("a - b does not wrap around", !verifAnd((a < 0) != (b < 0), (got < 0) != (a < 0)))
		verifAssert("a - b is the difference modulo 2^64", got == a-b)
	} else {
		// a + b wraps iff a and b have the same sign and the result has the other one
		verifAssert("a + b does not wrap around", !verifAnd((a < 0) == (b < 0), (got < 0) != (a < 0)))
		verifAssert("a + b is the sum modulo 2^64", got == a+b)
	}
	verifObserve("result", got)
	verifReach("end")
}
