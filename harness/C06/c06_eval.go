package query

//verif:property C06
//verif:pkg lib/query
//verif:setup VerifC06EvalSetup
//verif:harness VerifC06Expansions mode=bv tier=quick split=6

import (
	"github.com/mithrandie/csvq/lib/parser"
	"github.com/mithrandie/csvq/lib/value"
	"github.com/mithrandie/ternary"
)

// pairs of expressions that the manual documents as equivalent
var verifC06Pairs = [][2]string{
	{"@a between @b and @c", "@b <= @a and @a <= @c"},
	{"@a not between @b and @c", "not (@b <= @a and @a <= @c)"},
	{"@a in (@b, @c)", "@a = @b or @a = @c"},
	{"@a not in (@b, @c)", "@a <> @b and @a <> @c"},
	{"@a = any (@b, @c)", "@a = @b or @a = @c"},
	{"@a < all (@b, @c)", "@a < @b and @a < @c"},
	{"@a <> all (@b, @c)", "@a <> @b and @a <> @c"},
	{"@a > any (@b, @c)", "@a > @b or @a > @c"},
	{"case when @a < @b then 1 when @a < @c then 2 else 3 end", "if(@a < @b, 1, if(@a < @c, 2, 3))"},
	{"case @a when @b then 1 when @c then 2 end", "if(@a = @b, 1, if(@a = @c, 2, null))"},
	{"@a is null", "not (@a is not null)"},
	{"(@a < @b) is unknown", "not ((@a < @b) is true or (@a < @b) is false)"},
	{"@a < @b and @b < @c", "not (not (@a < @b) or not (@b < @c))"},
	{"(@a, @b) = (@b, @c)", "(@a, @b) in ((@b, @c))"},
	{"(@a, @b) < (@b, @c)", "@a < @b or (@a = @b and @b < @c)"},
	{"(@a, @b) >= (@c, @a)", "@a > @c or (@a = @c and @b >= @a)"},
	{"(@a, @b) <> (@b, @c)", "@a <> @b or @b <> @c"},
	{"(@a, @b) between (@b, @c) and (@c, @a)", "(@a, @b) >= (@b, @c) and (@a, @b) <= (@c, @a)"},
	{"(@a, @b) not between (@b, @c) and (@c, @a)", "not ((@a, @b) >= (@b, @c) and (@a, @b) <= (@c, @a))"},
	{"not (@a between @b and @c)", "not (@b <= @a and @a <= @c)"},
	{"(@a, @b, @c) <= (@b, @b, @a)", "@a < @b or (@a = @b and (@b < @b or (@b = @b and @c <= @a)))"},
	// lists that come from subqueries: s holds @b and @c, e holds no row (ANY over nothing is FALSE, ALL TRUE)
	{"@a in (select v from s)", "@a = @b or @a = @c"},
	{"@a not in (select v from s)", "@a <> @b and @a <> @c"},
	{"@a <= all (select v from s)", "@a <= @b and @a <= @c"},
	{"@a in (select v from e)", "false"},
	{"@a not in (select v from e)", "true"},
	{"@a = any (select v from e)", "false"},
	{"@a < all (select v from e)", "true"},
	{"(@a, @b) in (select v, v from e)", "false"},
	{"exists (select v from e)", "false"},
}

var verifC06Exprs [][2]parser.QueryExpression

func VerifC06EvalSetup() {
	verifC06Exprs = make([][2]parser.QueryExpression, len(verifC06Pairs))
	for i, p := range verifC06Pairs {
		for k := 0; k < 2; k++ {
			q := verifParseSelect("select " + p[k])
			verifC06Exprs[i][k] = q.SelectEntity.(parser.SelectEntity).SelectClause.(parser.SelectClause).Fields[0].(parser.Field).Object
		}
	}
}

// operands are NULL or numbers of one numeric class per run (mixed integer/float comparison is the
// subject of VerifC06Ladder; keeping the classes apart avoids int->float conversions in the solver)
func verifC06Value(tag string, floats bool) value.Primary {
	if verifBool(tag + "null") {
		return value.NewNull()
	}
	if floats {
		return value.NewFloat(verifFloat64(tag + "float"))
	}
	return value.NewInteger(verifInt64(tag + "int"))
}

func verifSameValue(x, y value.Primary) bool {
	switch a := x.(type) {
	case *value.Null:
		_, ok := y.(*value.Null)
		return ok
	case *value.Ternary:
		b, ok := y.(*value.Ternary)
		return ok && a.Ternary() == b.Ternary()
	case *value.Boolean:
		b, ok := y.(*value.Boolean)
		return ok && a.Raw() == b.Raw()
	case *value.Integer:
		b, ok := y.(*value.Integer)
		return ok && a.Raw() == b.Raw()
	}
	return false
}

// BETWEEN, IN, ANY, ALL, CASE, IS and AND/OR/NOT equal their documented expansions for every
// assignment of NULL / integer / float (incl. NaN, infinities) to the three operands; both sides
// are evaluated by the real Evaluate on expressions built by the real parser.
func VerifC06Expansions() {
	tx := verifNewTx()
	scope := NewReferenceScope(tx)
	pi := verifChoice("pair", len(verifC06Pairs))
	floats := verifBool("floats")
	b, c := verifC06Value("b.", floats), verifC06Value("c.", floats)
	verifVar(scope, "a", verifC06Value("a.", floats))
	verifVar(scope, "b", b)
	verifVar(scope, "c", c)
	verifTempTable(scope, "s", []string{"v"}, [][]value.Primary{{b}, {c}})
	verifTempTable(scope, "e", []string{"v"}, [][]value.Primary{})
	l, err1 := Evaluate(verifCtx(), scope, verifC06Exprs[pi][0])
	r, err2 := Evaluate(verifCtx(), scope, verifC06Exprs[pi][1])
	verifAssert("both sides evaluate", verifAnd(err1 == nil, err2 == nil))
	verifObserve("lhs-ternary", int64(l.Ternary()))
	verifAssert("expression equals its documented expansion", verifSameValue(l, r))
	_ = ternary.TRUE
	verifReach("end")
}
