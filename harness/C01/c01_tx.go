package query

//verif:property C01
//verif:pkg lib/query
//verif:setup VerifC01Setup
//verif:harness VerifC01Procedures mode=bv tier=quick split=6
//verif:harness VerifC01Interrupted mode=bv tier=quick split=6
//verif:setup VerifC01FormatsSetup
//verif:harness VerifC01InterruptedFormats mode=bv tier=quick split=6
//verif:setup VerifC01KindsSetup
//verif:harness VerifC01ChangeKinds mode=bv tier=quick split=6
//verif:setup VerifC01HeaderlessSetup
//verif:harness VerifC01Headerless mode=bv tier=quick split=4

import (
	"io"
	"strings"

	"github.com/mithrandie/csvq/lib/parser"
	"github.com/mithrandie/csvq/lib/value"
)

var verifC01Src = []string{
	// 0: file update + created file, failure (or not) at the very end
	"insert into a values (2,'b'); create table `new.csv` (c1); insert into `new.csv` values ('x'); select 1 / @z;",
	// 1: explicit COMMIT in the middle
	"insert into a values (2,'b'); commit; insert into a values (3,'c'); select 1 / @z;",
	// 2: ROLLBACK, then EXIT inside a block
	"update a set v = 'z'; rollback; insert into a values (2,'b'); if @z = 0 then exit; end if; insert into a values (3,'c');",
	// 3: temporary table across COMMIT / ROLLBACK
	"declare tt view (c1); insert into tt values (1); commit; insert into tt values (2); update a set v = 'q'; rollback; insert into tt values (3); select 1 / @z;",
	// 4: created file committed, then changed
	"create table `new.csv` (c1); commit; insert into `new.csv` values ('x'); select 1 / @z;",
	// 5: ALTER and DELETE
	"alter table a add w default 'd'; delete from a where id = 1; insert into a values (4,'e','f'); select 1 / @z;",
	// 6: failing statement in the middle, statements after it never run
	"insert into a values (2,'b'); insert into a values (9, 1 / @z); insert into a values (3,'c');",
	// 7: only reads
	"select * from a; select * from b where 1 / @z > 0;",
	// 8: created file dropped by ROLLBACK, created again
	"create table `new.csv` (c1); insert into `new.csv` values ('x'); rollback; create table `new.csv` (c2); select 1 / @z;",
	// 9: the final commit itself fails (an LTSV value with a TAB cannot be encoded) after a created file was written
	"create table `new.csv` (c1); insert into `new.csv` values ('x'); insert into a values (2,'b'); update l set v = @t;",
	// 10: data-changing statements that change nothing: the file is not one the transaction changed
	"update b set k = 1 where k = 99; delete from b where k = 99; insert into b select k from b where k = 99; select 1 / @z;",
	// 11: two temporary tables changed before one COMMIT, changed again, ROLLBACK
	"declare tt view (c1); declare uu view (c1); insert into tt values (1); insert into uu values (1); commit; insert into tt values (2); insert into uu values (2), (3); rollback; select 1 / @z;",
	// 12: COMMIT inside a block in which a temporary table shadows an outer one; both were changed
	"declare tt view (c1); insert into tt values (1); if 1 = 1 then declare tt view (c1); insert into tt values (5), (6); commit; end if; insert into tt values (2); rollback; select 1 / @z;",
	// 13: part of the procedure comes from a sourced file; the end of that file is not the end of the procedure
	"insert into a values (2,'b'); source `inc.sql`; select 1 / @z;",
	// 14: part of the procedure is an EXECUTEd text and a statement run inside a user-defined function
	"insert into a values (2,'b'); execute 'insert into a values (3, ''c'')'; declare f function () as begin create table `new.csv` (c1); return 1; end; select f(); select 1 / @z;",
}
var verifC01Progs [][]parser.Statement
var verifC01Count, verifC01CountU parser.SelectQuery

func VerifC01Setup() {
	for _, s := range verifC01Src {
		verifC01Progs = append(verifC01Progs, verifParse(s))
	}
	verifC01Count = verifParseSelect("select c1 from tt")
	verifC01CountU = verifParseSelect("select c1 from uu")
}

// Procedures on CSV files in the modelled file system and on a temporary table, run as `csvq`
// runs them (auto-commit at a normal end; rollback and release on an error or EXIT): afterwards every
// table file holds exactly the state of the last COMMIT (explicit or final), created files exist iff
// committed, temporary tables are as at the last COMMIT, untouched files are byte-identical and no
// control files remain.  The failure point is chosen by the data (@z).
func VerifC01Procedures() {
	verifFileWrite("a.csv", "id,v\n1,a\n")
	verifFileWrite("b.csv", verifC01B)
	verifFileWrite("l.ltsv", "k:7\tv:o\n")
	tx := verifNewTx()
	tx.Flags.Quiet = true
	tx.AutoCommit = true
	proc := NewProcessor(tx)
	scope := proc.ReferenceScope
	z := int64(verifChoice("z", 2))
	verifFileWrite("inc.sql", "insert into a values (3,'c'); create table `new.csv` (c1);")
	verifVar(scope, "z", value.NewInteger(z))
	if z == 0 {
		verifVar(scope, "t", value.NewString("p\tq"))
	} else {
		verifVar(scope, "t", value.NewString("pq"))
	}
	pi := verifChoice("program", len(verifC01Src))
	flow, err := proc.Execute(verifCtx(), verifC01Progs[pi])
	// what cli.commandAction defers
	e1 := proc.AutoRollback()
	e2 := proc.ReleaseResourcesWithErrors()
	verifAssert("rollback and release succeed", e1 == nil && e2 == nil)
	failed := err != nil
	verifObserveBool("failed", failed)
	verifAssert("the run fails exactly when the data says so", failed == (z == 0 && pi != 2))
	wantA, wantNew, newExists, wantL := "id,v\n1,a\n", "", false, "k:7\tv:o\n"
	switch pi {
	case 9:
		if !failed {
			wantA, wantNew, newExists, wantL = "id,v\n1,a\n2,b\n", "c1\nx\n", true, "k:7\tv:pq\n"
		}
	case 0:
		if !failed {
			wantA, wantNew, newExists = "id,v\n1,a\n2,b\n", "c1\nx\n", true
		}
	case 1:
		wantA = "id,v\n1,a\n2,b\n"
		if !failed {
			wantA = "id,v\n1,a\n2,b\n3,c\n"
		}
	case 2:
		if z == 0 {
			verifAssert("EXIT flow", flow == Exit)
		} else {
			wantA = "id,v\n1,a\n2,b\n3,c\n"
		}
	case 3:
		view, e := Select(verifCtx(), scope, verifC01Count)
		verifAssert("temporary table readable", e == nil)
		if failed {
			// rows as of the last COMMIT (1), the ROLLBACK restored that state; the final insert is undone
			verifAssert("temporary table as at the last COMMIT", view.RecordLen() == 1)
		} else {
			verifAssert("temporary table after ROLLBACK and a committed insert", view.RecordLen() == 2)
		}
	case 12:
		v1, e1 := Select(verifCtx(), scope, verifC01Count)
		verifAssert("temporary table readable", e1 == nil)
		if e1 == nil {
			verifAssert("the shadowed outer table is as at the COMMIT made inside the block", v1.RecordLen() == 1)
		}
	case 11:
		v1, e1 := Select(verifCtx(), scope, verifC01Count)
		v2, e2 := Select(verifCtx(), scope, verifC01CountU)
		verifAssert("temporary tables readable", e1 == nil && e2 == nil)
		if e1 == nil && e2 == nil {
			verifAssert("both temporary tables are as at the last COMMIT", v1.RecordLen() == 1 && v2.RecordLen() == 1)
		}
	case 4:
		wantNew, newExists = "c1\n", true
		if !failed {
			wantNew = "c1\nx\n"
		}
	case 5:
		if !failed {
			wantA = "id,v,w\n4,e,f\n"
		}
	case 6:
		if !failed {
			wantA = "id,v\n1,a\n2,b\n9,1\n3,c\n"
		}
	case 8:
		if !failed {
			wantNew, newExists = "c2\n", true
		}
	case 13, 14:
		if !failed {
			wantA, wantNew, newExists = "id,v\n1,a\n2,b\n3,c\n", "c1\n", true
		}
	}
	verifAssert("table file holds the last committed state", verifFileRead("a.csv") == wantA)
	verifAssert("a created file exists iff it was committed", verifFileExists("new.csv") == newExists)
	if newExists {
		verifAssert("created file holds the last committed state", verifFileRead("new.csv") == wantNew)
	}
	verifAssert("the LTSV table holds the last committed state", verifFileRead("l.ltsv") == wantL)
	verifAssert("a file the transaction never changed is byte-identical", verifFileRead("b.csv") == verifC01B)
	verifAssert("no lock, rlock or temp files remain", verifFileList() == listOf(newExists))
	verifReach("end")
}

// b.csv is deliberately not in the form csvq itself writes (quoted cell, no ending line break): a
// rewrite of the unchanged table would change its bytes.
const verifC01B = "k\n\"7\""

func listOf(newExists bool) string {
	l := "a.csv\nb.csv\nl.ltsv"
	if verifFileExists("inc.sql") {
		l = "a.csv\nb.csv\ninc.sql\nl.ltsv"
	}
	if newExists {
		return l + "\nnew.csv"
	}
	return l
}

// The same procedures interrupted at any point at which csvq observes its context (up to the 12th
// observation, thorough 24th): the run ends with an error or normally, and in either case each
// file holds one of the states the procedure committed (explicitly or at its normal end), created
// files exist only with committed contents, the read-only file is untouched, nothing is left locked.
func VerifC01Interrupted() {
	verifFileWrite("a.csv", "id,v\n1,a\n")
	verifFileWrite("b.csv", verifC01B)
	verifFileWrite("l.ltsv", "k:7\tv:o\n")
	tx := verifNewTx()
	tx.Flags.Quiet = true
	tx.AutoCommit = true
	proc := NewProcessor(tx)
	scope := proc.ReferenceScope
	verifVar(scope, "z", value.NewInteger(1))
	pi := verifChoice("program", 3) // programs 0, 1, 4 of the list
	idx := [3]int{0, 1, 4}[pi]
	ctx := &verifCancelCtx{ch: make(chan struct{}, 1), at: 1 + verifChoice("cancel-at", verifBound(12, 24))}
	_, err := proc.Execute(ctx, verifC01Progs[idx])
	e1 := proc.AutoRollback()
	e2 := proc.ReleaseResourcesWithErrors()
	verifAssert("rollback and release succeed", e1 == nil && e2 == nil)
	a := verifFileRead("a.csv")
	newExists := verifFileExists("new.csv")
	nw := verifFileRead("new.csv")
	switch idx {
	case 0:
		if err != nil {
			verifAssert("interrupted before the final commit: nothing changed", a == "id,v\n1,a\n" && !newExists)
		} else {
			verifAssert("completed: everything committed", a == "id,v\n1,a\n2,b\n" && newExists && nw == "c1\nx\n")
		}
	case 1:
		if err != nil {
			verifAssert("interrupted: state of start or of the explicit COMMIT", a == "id,v\n1,a\n" || a == "id,v\n1,a\n2,b\n")
		} else {
			verifAssert("completed: final state", a == "id,v\n1,a\n2,b\n3,c\n")
		}
	default:
		if err != nil {
			verifAssert("interrupted: created file absent or as committed", !newExists || nw == "c1\n")
		} else {
			verifAssert("completed: created file with its row", newExists && nw == "c1\nx\n")
		}
		verifAssert("other table untouched", a == "id,v\n1,a\n")
	}
	verifAssert("a file that was only read is byte-identical", verifFileRead("b.csv") == verifC01B)
	verifAssert("no lock, rlock or temp files remain", verifFileList() == listOf(newExists))
	verifObserveBool("failed", err != nil)
	verifReach("end")
}

func verifFlat(s string) string {
	b := []byte(s)
	for i := range b {
		if b[i] == '\n' {
			b[i] = '/'
		}
	}
	return string(b)
}

var verifC01Fmt [4][]parser.Statement
var verifC01FmtSel [4][]parser.Statement
var verifC01FmtFile = [4]string{"j.jsonl", "k.json", "l.ltsv", "m.tsv"}
var verifC01FmtOld [4]string

// 40 records before the INSERT: the encoders look at the context every few records (the LTSV and CSV
// encoders every 16th), so that an interrupt can strike in the middle of the table
const verifC01FmtRows = 40

func VerifC01FormatsSetup() {
	for r := 1; r <= verifC01FmtRows; r++ {
		id := string(rune('0'+r/10)) + string(rune('0'+r%10))
		verifC01FmtOld[0] += "{\"id\":\"" + id + "\",\"v\":\"a\"}\n"
		if r > 1 {
			verifC01FmtOld[1] += ","
		}
		verifC01FmtOld[1] += "{\"id\":\"" + id + "\",\"v\":\"a\"}"
		verifC01FmtOld[2] += "id:" + id + "\tv:a\n"
		verifC01FmtOld[3] += id + "\ta\n"
	}
	verifC01FmtOld[1] = "[" + verifC01FmtOld[1] + "]"
	verifC01FmtOld[3] = "id\tv\n" + verifC01FmtOld[3]
	for i, f := range verifC01FmtFile {
		verifC01Fmt[i] = verifParse("insert into `" + f + "` values (2, 'b'), (3, 'c');")
		verifC01FmtSel[i] = verifParse("select id, v from `" + f + "`;")
	}
}

// An INSERT into a JSON Lines, JSON, LTSV or TSV table with auto-commit, interrupted at any of the
// first 16 (thorough 32) points at which csvq looks at its context - in particular inside each
// format's encoder during COMMIT: the file afterwards is byte-identical to the old one, or it is the
// complete new table (it loads with all three records); an interrupted run reports an error.
func VerifC01InterruptedFormats() {
	fi := verifChoice("format", len(verifC01FmtFile))
	name := verifC01FmtFile[fi]
	verifFileWrite(name, verifC01FmtOld[fi])
	tx := verifNewTx()
	tx.Flags.Quiet = true
	tx.AutoCommit = true
	proc := NewProcessor(tx)
	ctx := &verifCancelCtx{ch: make(chan struct{}, 1), at: 1 + verifChoice("cancel-at", verifBound(24, 48))}
	_, err := proc.Execute(ctx, verifC01Fmt[fi])
	e1 := proc.AutoRollback()
	e2 := proc.ReleaseResourcesWithErrors()
	verifAssert("rollback and release succeed", e1 == nil && e2 == nil)
	verifAssert("an interrupted run reports an error", err != nil || !ctx.fired || verifFileRead(name) != verifC01FmtOld[fi])
	if verifFileRead(name) != verifC01FmtOld[fi] {
		verifAssert("a changed file belongs to a run that reported success", err == nil)
		tx2 := verifNewTx()
		tx2.Flags.Quiet = true
		proc2 := NewProcessor(tx2)
		_, e := proc2.Execute(ContextForStoringResults(verifCtx()), verifC01FmtSel[fi])
		verifAssert("a changed file is the complete new table", e == nil && len(tx2.SelectedViews) == 1 && tx2.SelectedViews[0].RecordLen() == verifC01FmtRows+2)
		_ = proc2.ReleaseResourcesWithErrors()
	} else {
		verifAssert("an unchanged file belongs to a run that failed", err != nil)
	}
	verifAssert("no control files remain", verifFileList() == name)
	verifObserveBool("failed", err != nil)
	verifReach("end")
}

// Every kind of statement that changes a table, on a temporary table and on a table file, followed by
// (A) ROLLBACK, (B) COMMIT, a further change and ROLLBACK, (C) COMMIT, a further change and an error that
// ends the procedure: the table (header and cells; for the file also its bytes after the procedure) is as
// it was at the most recent COMMIT - whichever kind of change made it differ from its restore point.
var verifC01KindSrc = []string{
	"insert into %T values (3,'c')",
	"update %T set c2 = 'z' where c1 = 1",
	"delete from %T where c1 = 1",
	"replace into %T using (c1) values (1,'r'), (4,'s')",
	"alter table %T add c3 default 'd'",
	"alter table %T drop c2",
	"alter table %T rename c2 to cx",
	"alter table %T add (c0, c00) first",
	"insert into %T select c1 + 10, c2 from %T",
}
var verifC01KindFile = []string{
	"c1,c2\n1,a\n2,b\n3,c\n", "c1,c2\n1,z\n2,b\n", "c1,c2\n2,b\n", "c1,c2\n1,r\n2,b\n4,s\n", "c1,c2,c3\n1,a,d\n2,b,d\n",
	"c1\n1\n2\n", "c1,cx\n1,a\n2,b\n", "c0,c00,c1,c2\n,,1,a\n,,2,b\n", "c1,c2\n1,a\n2,b\n11,a\n12,b\n",
}
var verifC01KindStmt [3][][]parser.Statement
var verifC01KindSel, verifC01KindMore [3][]parser.Statement
var verifC01KindCommit, verifC01KindRollback, verifC01KindFail []parser.Statement

func VerifC01KindsSetup() {
	for ti, tn := range []string{"tt", "`k.csv`", "stdin"} {
		for _, src := range verifC01KindSrc {
			verifC01KindStmt[ti] = append(verifC01KindStmt[ti], verifParse(verifSubst(src, tn)))
		}
		verifC01KindSel[ti] = verifParse("select * from " + tn)
		verifC01KindMore[ti] = verifParse("delete from " + tn + " where c1 = 2")
	}
	verifC01KindCommit = verifParse("commit")
	verifC01KindRollback = verifParse("rollback")
	verifC01KindFail = verifParse("var @failing := 1 / 0") // not a SELECT without FROM: with piped input that one reads STDIN, and fails only if STDIN has a record
}

func verifSubst(src, name string) string {
	out := ""
	for i := 0; i < len(src); i++ {
		if src[i] == '%' && i+1 < len(src) && src[i+1] == 'T' {
			out += name
			i++
		} else {
			out += string(src[i])
		}
	}
	return out
}

// verifTableText: column names and cells of the table as the following statements see it.
func verifTableText(proc *Processor, sel []parser.Statement) string {
	proc.Tx.SelectedViews = nil
	_, err := proc.Execute(ContextForStoringResults(verifCtx()), sel)
	if err != nil || len(proc.Tx.SelectedViews) != 1 {
		return "unreadable"
	}
	v := proc.Tx.SelectedViews[0]
	out := ""
	for _, h := range v.Header {
		out += h.Column + ","
	}
	for _, r := range v.RecordSet {
		out += "/"
		for _, c := range r {
			// a cell committed to a file comes back as text: compare what is spelled, not the type
			if t, ok := c[0].(*value.String); ok {
				out += t.Raw() + ","
			} else {
				out += c[0].String() + ","
			}
		}
	}
	return out
}

func VerifC01ChangeKinds() {
	const old = "c1,c2\n1,a\n2,b\n"
	verifFileWrite("k.csv", old)
	tx := verifNewTx()
	tx.Flags.Quiet = true
	// the statements of the procedure are handed over one by one: no automatic COMMIT after each
	proc := NewProcessor(tx)
	ti := verifChoice("file", 3) // 0: a temporary table, 1: a table file, 2: the table read from standard input
	if ti == 0 {
		verifTempTable(proc.ReferenceScope, "tt", []string{"c1", "c2"}, [][]value.Primary{
			{value.NewInteger(1), value.NewString("a")}, {value.NewInteger(2), value.NewString("b")}})
	}
	if ti == 2 {
		tx.Session.stdin = io.NopCloser(strings.NewReader(old))
		tx.Session.CanReadStdin = true
	}
	kind := verifChoice("kind", len(verifC01KindSrc))
	pattern := verifChoice("pattern", 3)
	declared := verifTableText(proc, verifC01KindSel[ti])
	_, err := proc.Execute(verifCtx(), verifC01KindStmt[ti][kind])
	verifAssert("the change succeeds", err == nil)
	changed := verifTableText(proc, verifC01KindSel[ti])
	verifAssert("the change is visible", changed != declared && changed != "unreadable")
	want, wantFile := declared, old
	if pattern == 0 {
		_, err = proc.Execute(verifCtx(), verifC01KindRollback)
		verifAssert("ROLLBACK succeeds", err == nil)
	} else {
		_, err = proc.Execute(verifCtx(), verifC01KindCommit)
		verifAssert("COMMIT succeeds", err == nil)
		_, err = proc.Execute(verifCtx(), verifC01KindMore[ti])
		verifAssert("the further change succeeds", err == nil)
		verifAssert("the further change is visible", verifTableText(proc, verifC01KindSel[ti]) != changed)
		want, wantFile = changed, verifC01KindFile[kind]
		if pattern == 1 {
			_, err = proc.Execute(verifCtx(), verifC01KindRollback)
			verifAssert("ROLLBACK succeeds", err == nil)
		} else {
			_, err = proc.Execute(verifCtx(), verifC01KindFail)
			verifAssert("the failing statement fails", err != nil)
			e1 := proc.AutoRollback()
			verifAssert("the rollback at the end of the failed procedure succeeds", e1 == nil)
		}
	}
	final := verifTableText(proc, verifC01KindSel[ti])
	verifObserve("final-len", int64(len(final)))
	verifAssert("the table is as at the most recent COMMIT (or start)", final == want)
	e2 := proc.ReleaseResourcesWithErrors()
	verifAssert("release succeeds", e2 == nil)
	verifAssert("the file holds the last committed state", verifFileRead("k.csv") == wantFileOr(ti, wantFile, old))
	verifAssert("no control files remain", verifFileList() == "k.csv")
	verifReach("end")
}

func wantFileOr(ti int, wantFile, old string) string {
	if ti != 1 {
		return old
	}
	return wantFile
}

var verifC01HlSrc = []string{
	"delete from n;",                                  // a table without header line emptied
	"update h set c2 = 'z' where c1 = '1'; delete from n;", // another table changed before it
	"delete from n where c1 = '1';",                   // not emptied
	"create table `new.csv` (a, b);",                  // created without header line, no record
	"create table `new.csv` (a, b); insert into `new.csv` values (1, 2);",
	"insert into n values ('5', '6'); delete from n;",
	"update h set c2 = 'z' where c1 = '1'; alter table h set header to false; delete from h;",
}
var verifC01HlProgs [][]parser.Statement

func VerifC01HeaderlessSetup() {
	for _, s := range verifC01HlSrc {
		verifC01HlProgs = append(verifC01HlProgs, verifParse(s))
	}
}

// Procedures on tables that are read and written without a header line (--no-header / --without-header,
// ALTER TABLE SET HEADER), among them ones that leave such a table without any record - a state csvq
// may refuse to write ("data empty").  Whichever way the run ends: reported success means every file
// holds what the procedure last saw; a reported failure means every file is as before and created
// files do not exist.
func VerifC01Headerless() {
	const oldN, oldH = "1,a\n2,b\n", "1,p\n2,q\n"
	verifFileWrite("n.csv", oldN)
	verifFileWrite("h.csv", oldH)
	tx := verifNewTx()
	tx.Flags.Quiet = true
	tx.Flags.ImportOptions.NoHeader = true
	tx.Flags.ExportOptions.WithoutHeader = true
	tx.AutoCommit = true
	proc := NewProcessor(tx)
	pi := verifChoice("program", len(verifC01HlSrc))
	_, err := proc.Execute(verifCtx(), verifC01HlProgs[pi])
	e1 := proc.AutoRollback()
	e2 := proc.ReleaseResourcesWithErrors()
	verifAssert("rollback and release succeed", e1 == nil && e2 == nil)
	n, h := verifFileRead("n.csv"), verifFileRead("h.csv")
	if err != nil {
		verifAssert("a failed run leaves every table as it was", n == oldN && h == oldH)
		verifAssert("a failed run leaves no created file", !verifFileExists("new.csv"))
		verifAssert("no control files remain", verifFileList() == "h.csv\nn.csv")
		verifObserveBool("failed", true)
		verifReach("failed")
		return
	}
	wantN, wantH, wantNew, newExists := oldN, oldH, "", false
	switch pi {
	case 0, 5:
		wantN = ""
	case 1:
		wantN, wantH = "", "1,z\n2,q\n"
	case 2:
		wantN = "2,b\n"
	case 3:
		newExists = true
	case 4:
		wantNew, newExists = "1,2\n", true
	case 6:
		wantH = ""
	}
	verifAssert("a successful run: n.csv holds what the procedure last saw", n == wantN)
	verifAssert("a successful run: h.csv holds what the procedure last saw", h == wantH)
	verifAssert("a successful run: the created file exists iff it was created", verifFileExists("new.csv") == newExists)
	if newExists && verifFileExists("new.csv") {
		verifAssert("a successful run: the created file holds what the procedure last saw", verifFileRead("new.csv") == wantNew)
	}
	verifObserveBool("failed", false)
	verifReach("end")
}
