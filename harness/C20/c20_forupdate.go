package query

//verif:property C20
//verif:pkg lib/query
//verif:setup VerifC20ForUpdateSetup
//verif:harness VerifC20PinnedByForUpdate mode=bv tier=quick split=4

import (
	"github.com/mithrandie/csvq/lib/parser"
)

var verifC20FuSrc = []string{
	"select v from t for update",
	"select v from o union all select v from t for update",
	"select v from t union all select v from o for update",
	"(select v from o) union all select v from t for update",
	"select v from o union all (select v from t) for update",
	"select v from o except select v from t for update",
	"select o.v from o, t for update",
	"select o.v from o left join t on t.id = o.id for update",
}
var verifC20FuStmts [][]parser.Statement

func VerifC20ForUpdateSetup() {
	for _, s := range verifC20FuSrc {
		verifC20FuStmts = append(verifC20FuStmts, verifParse(s+";"))
	}
}

// SELECT ... FOR UPDATE pins every table the query reads - wherever the table stands in the query: alone,
// as the left or the right operand of a set operation (also written in parentheses), in a join.  After an
// optional plain SELECT (and a commit of another process, which that permits) the FOR UPDATE statement
// loads the table under the update lock; from then on another process can replace the file only if
// the table is not held - the harness lets it do so exactly when no .lock file is there - and the
// transaction's own UPDATE, its reads and its COMMIT work on the data loaded by the FOR UPDATE statement.
func VerifC20PinnedByForUpdate() {
	verifFileWrite("t.csv", "id,v\n1,a\n")
	verifFileWrite("o.csv", "id,v\n1,x\n")
	tx := verifNewTx()
	tx.Flags.Quiet = true
	proc := NewProcessor(tx)
	disk := "a"
	if verifChoice("plain-select-first", 2) == 1 {
		got, ok := verifC20Read(proc, false)
		verifAssert("plain read", ok && got == "a")
		verifAssert("a plain read holds nothing", !verifFileExists(".t.csv.lock") && !verifFileExists(".t.csv.rlock"))
		disk = "b"
		verifFileWrite("t.csv", "id,v\n1,b\n") // another process commits
	}
	fi := verifChoice("form", len(verifC20FuSrc))
	_, err := proc.Execute(verifCtx(), verifC20FuStmts[fi])
	verifAssert("the FOR UPDATE query runs", err == nil)
	seen := disk // loaded under the update lock
	if !verifFileExists(".t.csv.lock") {
		// not held: nothing keeps another process from committing a new version now
		verifFileWrite("t.csv", "id,v\n1,c\n")
	}
	verifAssert("the table is held from the FOR UPDATE statement on", verifFileExists(".t.csv.lock"))
	got, ok := verifC20Read(proc, false)
	verifAssert("a read after FOR UPDATE sees the data it loaded", ok && got == seen)
	_, err = proc.Execute(verifCtx(), verifC20Update)
	verifAssert("update succeeds", err == nil)
	got, ok = verifC20Read(proc, false)
	verifAssert("the update works on the data loaded by the FOR UPDATE statement", ok && got == seen+"!")
	_, err = proc.Execute(verifCtx(), verifC20Commit)
	verifAssert("commit succeeds", err == nil)
	verifAssert("the file holds the loaded data plus the own change", verifFileRead("t.csv") == "id,v\n1,"+seen+"!\n")
	verifAssert("the other table is untouched", verifFileRead("o.csv") == "id,v\n1,x\n")
	_ = proc.AutoRollback()
	_ = proc.ReleaseResourcesWithErrors()
	verifAssert("no control files remain", verifFileList() == "o.csv\nt.csv")
	verifObserve("form", int64(fi))
	verifReach("end")
}
