package query

//verif:property C20
//verif:pkg lib/query
//verif:setup VerifC20Setup
//verif:harness VerifC20Stable mode=bv tier=quick split=6
//verif:harness VerifC20BlockedUpgrade mode=bv tier=quick
//verif:harness VerifC20PathSpellings mode=bv tier=quick

import (
	"os"
	"time"

	"github.com/mithrandie/csvq/lib/parser"
	"github.com/mithrandie/csvq/lib/value"
)

var verifC20Select, verifC20SelectSub, verifC20Update, verifC20Commit, verifC20Rollback []parser.Statement

func VerifC20Setup() {
	verifC20Select = verifParse("select v from t;")
	verifC20SelectSub = verifParse("select v from (select v from t) s;")
	verifC20Update = verifParse("update t set v = v || '!' where id = 1;")
	verifC20Commit = verifParse("commit;")
	verifC20Rollback = verifParse("rollback;")
}

func verifC20Read(proc *Processor, sub bool) (string, bool) {
	proc.Tx.SelectedViews = nil
	stmts := verifC20Select
	if sub {
		stmts = verifC20SelectSub // the table read through a subquery in the FROM clause
	}
	_, err := proc.Execute(ContextForStoringResults(verifCtx()), stmts)
	if err != nil || len(proc.Tx.SelectedViews) != 1 || proc.Tx.SelectedViews[0].RecordLen() != 1 {
		return "", false
	}
	s, ok := proc.Tx.SelectedViews[0].RecordSet[0][0][0].(*value.String)
	if !ok {
		return "", false
	}
	return s.Raw(), true
}

// A history of 4 steps (thorough 5), followed by a final read and COMMIT, on one CSV file in the modelled file system - SELECT (of the table or of a subquery on it), UPDATE, COMMIT,
// ROLLBACK, and "another process replaces the file" (possible only while this transaction holds no
// update lock) - run by the real Processor, loaders, cache and lib/file code: every read returns
// the data first loaded plus the transaction's own changes; the only reload is the first
// data-changing access after plain SELECTs; after COMMIT or ROLLBACK the next read sees the file.
func VerifC20Stable() {
	verifFileWrite("t.csv", "id,v\n1,a\n")
	tx := verifNewTx()
	tx.Flags.Quiet = true
	proc := NewProcessor(tx)
	disk := "a"      // value of v in the file
	seen := ""       // value this transaction works with ("" = table not loaded)
	locked := false  // this transaction holds the table for update
	changed := false // uncommitted own change
	gen := 0
	steps := verifBound(4, 5)
	for s := 0; s < steps; s++ {
		op := verifChoice("step", 6)
		switch op {
		case 0, 5: // SELECT, directly or through a subquery in FROM
			got, ok := verifC20Read(proc, op == 5)
			verifAssert("select succeeds", ok)
			if seen == "" {
				seen = disk
			}
			verifAssert("a read sees the data first loaded plus own changes", got == seen)
		case 1: // UPDATE
			_, err := proc.Execute(verifCtx(), verifC20Update)
			verifAssert("update succeeds", err == nil)
			if !locked {
				seen = disk // first data-changing access (re)loads the file under the lock
				locked = true
			}
			seen += "!"
			changed = true
		case 2: // COMMIT
			_, err := proc.Execute(verifCtx(), verifC20Commit)
			verifAssert("commit succeeds", err == nil)
			if changed {
				disk = seen
			}
			seen, locked, changed = "", false, false
		case 3: // ROLLBACK
			_, err := proc.Execute(verifCtx(), verifC20Rollback)
			verifAssert("rollback succeeds", err == nil)
			seen, locked, changed = "", false, false
		default: // another process commits a new version
			if locked {
				continue // excluded by the lock protocol (C09)
			}
			gen++
			disk = string(rune('b' + gen))
			verifFileWrite("t.csv", "id,v\n1,"+disk+"\n")
		}
		verifAssert("file holds the last committed version", verifFileRead("t.csv") == "id,v\n1,"+disk+"\n")
	}
	// whatever the history was: one more read sees the loaded data plus own changes (or the file),
	// and a final COMMIT writes exactly that
	got, ok := verifC20Read(proc, false)
	verifAssert("final select succeeds", ok)
	if seen == "" {
		seen = disk
	}
	verifAssert("the final read sees the data first loaded plus own changes", got == seen)
	_, err := proc.Execute(verifCtx(), verifC20Commit)
	verifAssert("final commit succeeds", err == nil)
	if changed {
		disk = seen
	}
	verifAssert("file holds the last committed version after the final commit", verifFileRead("t.csv") == "id,v\n1,"+disk+"\n")
	_ = proc.AutoRollback()
	_ = proc.ReleaseResourcesWithErrors()
	verifAssert("no control files remain", !verifFileExists(".t.csv.lock") && !verifFileExists(".t.csv.temp"))
	verifObserve("gen", int64(gen))
	verifReach("end")
}

// A transaction has read a table; another process holds the table for update, so this transaction's
// first data-changing statement ends with a lock-wait timeout (the deadline fires at a retry chosen
// by the engine).  That failed access must not cost the transaction its loaded data: after the other
// process has committed and released the table, a plain read still returns what was first loaded;
// only a data-changing access that succeeds reloads the file.
func VerifC20BlockedUpgrade() {
	verifFileWrite("t.csv", "id,v\n1,a\n")
	tx := verifNewTx()
	tx.Flags.Quiet = true
	proc := NewProcessor(tx)
	tx.WaitTimeout, tx.RetryDelay = 50*time.Millisecond, time.Millisecond
	sub := verifChoice("first-read-through-subquery", 2) == 1
	got, ok := verifC20Read(proc, sub)
	verifAssert("first read", ok && got == "a")
	// the other process: lock file present while it works
	verifFileWrite(".t.csv.lock", "")
	verifTimers(true)
	_, err := proc.Execute(verifCtx(), verifC20Update)
	verifTimers(false)
	verifAssert("the update is refused while the table is held by another process", err != nil)
	if err != nil {
		_, fatal := err.(*FatalError)
		verifAssert("with an ordinary error", !fatal)
	}
	// the other process commits and releases
	verifFileWrite("t.csv", "id,v\n1,b\n")
	verifFileRemove(".t.csv.lock")
	got, ok = verifC20Read(proc, false)
	verifAssert("read after the failed access", ok)
	verifAssert("the failed access did not cost the transaction its loaded data", got == "a")
	_, err = proc.Execute(verifCtx(), verifC20Update)
	verifAssert("the update succeeds once the table is free", err == nil)
	got, ok = verifC20Read(proc, false)
	verifAssert("the first successful data-changing access reloads the file", ok && got == "b!")
	_ = proc.AutoRollback()
	_ = proc.ReleaseResourcesWithErrors()
	verifAssert("no control files remain", verifFileList() == "t.csv")
	verifObserveBool("end", true)
	verifReach("end")
}

// The same table named in different ways - bare name, with extension, absolute, absolute with "./",
// a doubled separator or "dir/../" - is one table: after the first read under one spelling, a read
// under any other spelling in the same transaction returns the same loaded data although another
// process has replaced the file meanwhile.
func VerifC20PathSpellings() {
	verifFileWrite("t.csv", "id,v\n1,a\n")
	verifFileWrite("x/keep", "")
	wd, _ := os.Getwd()
	spell := []string{"t", "`t.csv`", "`" + wd + "/t.csv`", "`" + wd + "/./t.csv`", "`" + wd + "//t.csv`", "`" + wd + "/x/../t.csv`", "`./t.csv`"}
	s1 := spell[verifChoice("first", len(spell))]
	s2 := spell[verifChoice("second", len(spell))]
	tx := verifNewTx()
	tx.Flags.Quiet = true
	proc := NewProcessor(tx)
	read := func(name string) (string, bool) {
		tx.SelectedViews = nil
		_, err := proc.Execute(ContextForStoringResults(verifCtx()), verifParse("select v from "+name+";"))
		if err != nil || len(tx.SelectedViews) != 1 || tx.SelectedViews[0].RecordLen() != 1 {
			return "", false
		}
		v, ok := tx.SelectedViews[0].RecordSet[0][0][0].(*value.String)
		if !ok {
			return "", false
		}
		return v.Raw(), true
	}
	got, ok := read(s1)
	verifAssert("first read", ok && got == "a")
	verifFileWrite("t.csv", "id,v\n1,b\n") // another process commits
	got, ok = read(s2)
	verifAssert("second read", ok)
	verifAssert("the other spelling names the same loaded table", got == "a")
	_ = proc.AutoRollback()
	_ = proc.ReleaseResourcesWithErrors()
	verifObserveBool("end", true)
	verifReach("end")
}
