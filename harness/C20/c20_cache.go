package query

//verif:property C20
//verif:pkg lib/query
//verif:setup VerifC20Setup
//verif:harness VerifC20Stable mode=bv tier=quick split=6

import (
	"github.com/mithrandie/csvq/lib/parser"
	"github.com/mithrandie/csvq/lib/value"
)

var verifC20Select, verifC20Update, verifC20Commit, verifC20Rollback []parser.Statement

func VerifC20Setup() {
	verifC20Select = verifParse("select v from t;")
	verifC20Update = verifParse("update t set v = v || '!' where id = 1;")
	verifC20Commit = verifParse("commit;")
	verifC20Rollback = verifParse("rollback;")
}

func verifC20Read(proc *Processor) (string, bool) {
	proc.Tx.SelectedViews = nil
	_, err := proc.Execute(ContextForStoringResults(verifCtx()), verifC20Select)
	if err != nil || len(proc.Tx.SelectedViews) != 1 || proc.Tx.SelectedViews[0].RecordLen() != 1 {
		return "", false
	}
	s, ok := proc.Tx.SelectedViews[0].RecordSet[0][0][0].(*value.String)
	if !ok {
		return "", false
	}
	return s.Raw(), true
}

// A history of up to 4 steps on one CSV file in the modelled file system - SELECT, UPDATE, COMMIT,
// ROLLBACK, and "another process replaces the file" (possible only while this transaction holds no
// update lock) - run by the real Processor, loaders, cache and lib/file code: every read returns
// the data first loaded plus the transaction's own changes; the only reload is the first
// data-changing access after plain SELECTs; after COMMIT or ROLLBACK the next read sees the file.
func VerifC20Stable() {
	verifFileWrite("t.csv", "id,v\n1,a\n")
	tx := verifNewTx()
	tx.Flags.Quiet = true
	proc := NewProcessor(tx)
	disk := "a"      // value of v in the file
	seen := ""       // value this transaction works with ("" = table not loaded)
	locked := false  // this transaction holds the table for update
	changed := false // uncommitted own change
	gen := 0
	steps := verifBound(3, 4)
	for s := 0; s < steps; s++ {
		op := verifChoice("step", 5)
		switch op {
		case 0: // SELECT
			got, ok := verifC20Read(proc)
			verifAssert("select succeeds", ok)
			if seen == "" {
				seen = disk
			}
			verifAssert("a read sees the data first loaded plus own changes", got == seen)
		case 1: // UPDATE
			_, err := proc.Execute(verifCtx(), verifC20Update)
			verifAssert("update succeeds", err == nil)
			if !locked {
				seen = disk // first data-changing access (re)loads the file under the lock
				locked = true
			}
			seen += "!"
			changed = true
		case 2: // COMMIT
			_, err := proc.Execute(verifCtx(), verifC20Commit)
			verifAssert("commit succeeds", err == nil)
			if changed {
				disk = seen
			}
			seen, locked, changed = "", false, false
		case 3: // ROLLBACK
			_, err := proc.Execute(verifCtx(), verifC20Rollback)
			verifAssert("rollback succeeds", err == nil)
			seen, locked, changed = "", false, false
		default: // another process commits a new version
			if locked {
				continue // excluded by the lock protocol (C09)
			}
			gen++
			disk = string(rune('b' + gen))
			verifFileWrite("t.csv", "id,v\n1,"+disk+"\n")
		}
		verifAssert("file holds the last committed version", verifFileRead("t.csv") == "id,v\n1,"+disk+"\n")
	}
	_ = proc.AutoRollback()
	_ = proc.ReleaseResourcesWithErrors()
	verifAssert("no control files remain", !verifFileExists(".t.csv.lock") && !verifFileExists(".t.csv.temp"))
	verifObserve("gen", int64(gen))
	verifReach("end")
}
