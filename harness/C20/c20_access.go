package query

//verif:property C20
//verif:pkg lib/query
//verif:setup VerifC20AccessSetup
//verif:harness VerifC20OtherAccesses mode=bv tier=quick split=6

import (
	"github.com/mithrandie/csvq/lib/parser"
	"github.com/mithrandie/csvq/lib/value"
)

var verifC20AccSel, verifC20AccJsonSel []parser.Statement
var verifC20AccNoise, verifC20AccJsonNoise [][]parser.Statement

func VerifC20AccessSetup() {
	verifC20AccSel = verifParse("select v from t;")
	verifC20AccJsonSel = verifParse("select v from json('items', d);")
	for _, s := range []string{
		"create table if not exists `t.csv` (id, v);",
		"select count(*) from t as x inner join t as y on x.id = y.id;",
		"show fields from t;",
		"select v from `t.csv`;",
		"declare c cursor for select v from t; open c; close c; dispose cursor c;",
		"select (select max(v) from t) from t where exists (select 1 from `t.csv`);",
		"prepare p from 'select v from t'; execute p; dispose prepare p;",
		"select v from t union all select v from t;",
		"create table if not exists `t.csv` (id, v) select 1, 2;",
	} {
		verifC20AccNoise = append(verifC20AccNoise, verifParse(s))
	}
	for _, s := range []string{
		"select v from json('users', d);",
		"select v from json('items', `d.json`);",
		"select count(*) from json('users', d) u cross join json('items', d) i;",
		"show fields from d;",
	} {
		verifC20AccJsonNoise = append(verifC20AccJsonNoise, verifParse(s))
	}
}

// A transaction that has loaded a table keeps seeing that data while other statements that only read
// it - or only look at it: CREATE TABLE IF NOT EXISTS on the existing file, SHOW FIELDS, a cursor, a
// prepared statement, a self-join, the same file under another spelling or, for a JSON document, under
// another JSON query - run in between and another process replaces the file meanwhile.  After ROLLBACK
// the next read sees the current file.
func VerifC20OtherAccesses() {
	json := verifBool("json")
	file, sel, noise := "t.csv", verifC20AccSel, verifC20AccNoise
	content := func(v string) string { return "id,v\n1," + v + "\n" }
	if json {
		file, sel, noise = "d.json", verifC20AccJsonSel, verifC20AccJsonNoise
		content = func(v string) string {
			return "{\"items\":[{\"id\":\"1\",\"v\":\"" + v + "\"}],\"users\":[{\"id\":\"1\",\"v\":\"U" + v + "\"}]}"
		}
	}
	verifFileWrite(file, content("a"))
	tx := verifNewTx()
	tx.Flags.Quiet = true
	proc := NewProcessor(tx)
	read := func() (string, bool) {
		proc.Tx.SelectedViews = nil
		_, err := proc.Execute(ContextForStoringResults(verifCtx()), sel)
		if err != nil || len(proc.Tx.SelectedViews) != 1 || proc.Tx.SelectedViews[0].RecordLen() != 1 {
			return "", false
		}
		s, ok := proc.Tx.SelectedViews[0].RecordSet[0][0][0].(*value.String)
		if !ok {
			return "", false
		}
		return s.Raw(), true
	}
	got, ok := read()
	verifAssert("first read", ok && got == "a")
	disk := "a"
	for s := 0; s < 3; s++ {
		op := verifChoice("step", 1+len(noise))
		if op == 0 {
			disk += "x"
			verifFileWrite(file, content(disk)) // another process commits a new version
		} else {
			_, _ = proc.Execute(ContextForStoringResults(verifCtx()), noise[op-1]) // succeeds or is refused; either way it only reads
		}
		got, ok = read()
		verifAssert("a later read sees the data first loaded", ok && got == "a")
	}
	verifAssert("the file is what the other process wrote", verifFileRead(file) == content(disk))
	_, err := proc.Execute(verifCtx(), verifParseRollback())
	verifAssert("rollback succeeds", err == nil)
	got, ok = read()
	verifAssert("after ROLLBACK the next read sees the current file", ok && got == disk)
	_ = proc.AutoRollback()
	_ = proc.ReleaseResourcesWithErrors()
	verifAssert("no control files remain", verifFileList() == file)
	verifObserve("versions", int64(len(disk)))
	verifReach("end")
}

var verifC20AccRollback []parser.Statement

func verifParseRollback() []parser.Statement { return verifC20AccRollback }

//verif:setup VerifC20AccessSetup2
func VerifC20AccessSetup2() { verifC20AccRollback = verifParse("rollback;") }
