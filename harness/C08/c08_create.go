package query

//verif:property C08
//verif:pkg lib/query
//verif:setup VerifC08CreateSetup
//verif:harness VerifC08RefusedCreate mode=bv tier=quick split=4

import (
	"github.com/mithrandie/csvq/lib/parser"
)

var verifC08CreateBefore, verifC08CreateFail [][]parser.Statement
var verifC08CreateCommit, verifC08CreateAgain []parser.Statement

func VerifC08CreateSetup() {
	for _, s := range []string{
		"update t set a = 'k' where id = '1';",
		"select * from t;",
		"create table `n.csv` (x); insert into `n.csv` values ('1');",
		"insert into t values ('3', 'z'); create table `n.csv` (x);",
	} {
		verifC08CreateBefore = append(verifC08CreateBefore, verifParse(s))
	}
	for _, s := range []string{
		"create table `t.csv` (x);",
		"create table `n.csv` (y, z);",
		"create table `t.csv` (x) select 1;",
		"create table `n.csv` (y) select id from t;",
		"create table `m.csv` (p, q) select id from t;", // the number of columns does not match
		"create table `m.csv` (p, p);",                  // duplicate column
		"create table `m.csv` select 1 / 0;",
		"create table `m.csv` (p, p) select 1, 2;", // duplicate column with a query of the right width
		"create table `m.csv` (p, q) select 1, 2 from nosuch;",
	} {
		verifC08CreateFail = append(verifC08CreateFail, verifParse(s))
	}
	verifC08CreateCommit = verifParse("commit;")
	verifC08CreateAgain = verifParse("create table `m.csv` (p, q) select 1, 2;")
}

// A CREATE TABLE that is refused - the file exists already (it belongs to this transaction's own
// uncommitted work or not), the column list does not fit the query, the query fails - after the
// transaction has updated a table file and / or created another: the refused statement changes nothing;
// COMMIT afterwards writes the transaction's work exactly, and leaves no control files.
func VerifC08RefusedCreate() {
	verifFileWrite("t.csv", "id,a\n1,x\n2,y\n")
	tx := verifNewTx()
	tx.Flags.Quiet = true
	proc := NewProcessor(tx)
	bi := verifChoice("before", len(verifC08CreateBefore))
	fi := verifChoice("create", len(verifC08CreateFail))
	_, err := proc.Execute(verifCtx(), verifC08CreateBefore[bi])
	verifAssert("the first statements succeed", err == nil)
	nExists := bi >= 2
	_, err = proc.Execute(verifCtx(), verifC08CreateFail[fi])
	if err == nil {
		// `n.csv` does not exist in the histories that did not create it: the statement is then legitimate
		verifAssert("only a CREATE of a new file succeeds", (fi == 1 || fi == 3) && !nExists)
		verifReach("created")
		_ = proc.AutoRollback()
		_ = proc.ReleaseResourcesWithErrors()
		return
	}
	mAgain := fi >= 4
	if mAgain {
		verifAssert("the refused CREATE leaves no file behind", !verifFileExists("m.csv") && !verifFileExists(".m.csv.lock"))
		// the corrected statement in the same transaction
		_, err = proc.Execute(verifCtx(), verifC08CreateAgain)
		verifAssert("the corrected CREATE TABLE succeeds", err == nil)
	}
	_, err = proc.Execute(verifCtx(), verifC08CreateCommit)
	verifAssert("commit succeeds", err == nil)
	_ = proc.AutoRollback()
	_ = proc.ReleaseResourcesWithErrors()
	wantT := "id,a\n1,x\n2,y\n"
	switch bi {
	case 0:
		wantT = "id,a\n1,k\n2,y\n"
	case 3:
		wantT = "id,a\n1,x\n2,y\n3,z\n"
	}
	verifAssert("the updated table holds the transaction's work", verifFileRead("t.csv") == wantT)
	list := "t.csv"
	if nExists {
		list = "n.csv\nt.csv"
		wantN := "x\n1\n"
		if bi == 3 {
			wantN = "x\n"
		}
		verifAssert("the created table holds the transaction's work", verifFileRead("n.csv") == wantN)
	}
	if mAgain {
		verifAssert("the table of the corrected CREATE is written", verifFileRead("m.csv") == "p,q\n1,2\n")
		if nExists {
			list = "m.csv\nn.csv\nt.csv"
		} else {
			list = "m.csv\nt.csv"
		}
	}
	verifAssert("no other file and no control file exists", verifFileList() == list)
	verifObserve("files", int64(len(list)))
	verifReach("end")
}
