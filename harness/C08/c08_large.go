package query

//verif:property C08
//verif:pkg lib/query
//verif:setup VerifC08LargeSetup
//verif:harness VerifC08FailingOnLargeTable mode=bv tier=quick split=4

import (
	"github.com/mithrandie/csvq/lib/parser"
	"github.com/mithrandie/csvq/lib/value"
)

var verifC08LargeStmts [][]parser.Statement

func VerifC08LargeSetup() {
	for _, s := range []string{
		"update big set v = 10 / (id - @at);",
		"delete from big where 10 / (id - @at) > 100;",
		"insert into big select id + 1000, 10 / (id - @at) from big;",
		"replace into big (id, v) using (id) select id, 10 / (id - @at) from big;",
		"alter table big add w default 10 / (id - @at);",
	} {
		verifC08LargeStmts = append(verifC08LargeStmts, verifParse(s))
	}
}

// A data-changing statement that fails at a late record of a table beyond csvq's size thresholds (161, 301,
// 323 or 340 records; one or two workers; failing at the tenth record from the end or at the last one): the stored table keeps every cell - the very objects - it had.
func VerifC08FailingOnLargeTable() {
	sizes := []int{161, 301, 323, 340}
	n := sizes[verifChoice("size", len(sizes))]
	tx := verifNewTx()
	tx.Flags.Quiet = true
	tx.Flags.CPU = 1 + verifChoice("workers", 2)
	proc := NewProcessor(tx)
	scope := proc.ReferenceScope
	rows := make([][]value.Primary, n)
	for i := range rows {
		rows[i] = []value.Primary{value.NewInteger(int64(i)), value.NewInteger(int64(i * 3))}
	}
	verifTempTable(scope, "big", []string{"id", "v"}, rows)
	at := n - 10 // a late record, or the very last one
	if verifChoice("at-the-last-record", 2) == 1 {
		at = n - 1
	}
	verifVar(scope, "at", value.NewInteger(int64(at)))
	si := verifChoice("statement", len(verifC08LargeStmts))
	_, err := proc.Execute(verifCtx(), verifC08LargeStmts[si])
	verifAssert("the statement fails (division by zero at a late record)", err != nil)
	verifC14Churn()
	stored := verifStored(scope, "BIG")
	verifAssert("the table keeps its records and columns", stored.RecordLen() == n && stored.FieldLen() == 2)
	ok := stored.RecordLen() == n
	for i := 0; ok && i < n; i++ {
		rec := stored.RecordSet[i]
		if len(rec) != 2 || rec[0][0] != rows[i][0] || rec[1][0] != rows[i][1] {
			ok = false
			break
		}
		id, ok1 := rec[0][0].(*value.Integer)
		v, ok2 := rec[1][0].(*value.Integer)
		if !ok1 || !ok2 || id.Raw() != int64(i) || v.Raw() != int64(i*3) {
			ok = false
		}
	}
	verifAssert("every cell is the object and the value it was", ok)
	verifAssert("nothing is scheduled for COMMIT", tx.UncommittedViews.IsEmpty())
	verifObserve("records", int64(n))
	verifReach("end")
}
