package query

//verif:property C08
//verif:pkg lib/query
//verif:setup VerifC08AttrsSetup
//verif:harness VerifC08RefusedAttributes mode=bv tier=quick split=4

import (
	"github.com/mithrandie/csvq/lib/parser"
)

var verifC08AttrFiles = []string{"t.csv", "j.json", "l.jsonl", "v.ltsv"}
var verifC08AttrOld = []string{"id,a\n1,x\n2,y\n", "[{\"id\":\"1\",\"a\":\"x\"},{\"id\":\"2\",\"a\":\"y\"}]", "{\"id\":\"1\",\"a\":\"x\"}\n{\"id\":\"2\",\"a\":\"y\"}\n", "id:1\ta:x\nid:2\ta:y\n"}
var verifC08AttrNew = []string{"id,a\n1,k\n2,y\n", "[{\"id\":\"1\",\"a\":\"k\"},{\"id\":\"2\",\"a\":\"y\"}]\n", "{\"id\":\"1\",\"a\":\"k\"}\n{\"id\":\"2\",\"a\":\"y\"}\n", "id:1\ta:k\nid:2\ta:y\n"}
var verifC08AttrSrc = []string{
	"set encoding to 'sjis'",     // refused for JSON and JSON Lines
	"set encoding to 'utf16'",    // refused for JSON and JSON Lines
	"set encoding to 'latin1'",   // no such encoding
	"set encoding to 'auto'",     // not a table encoding
	"set delimiter to 'ab'",      // not one character
	"set delimiter to ''",
	"set format to 'xml'",
	"set line_break to 'nel'",
	"set delimiter_positions to '[5,3'",
	"set delimiter_positions to 'abc'",
	"set json_escape to 'octal'",
	"set header to 'maybe'",
	"set enclose_all to 2",
	"set pretty_print to null",
	"set colour to true", // no such attribute
	"set encoding to 'utf8'",  // unchanged (for every table here)
	"set line_break to 'lf'",  // unchanged
	"set header to true",      // unchanged
	"set format to null",
	"set delimiter to 44",
}
var verifC08AttrStmts [][][]parser.Statement
var verifC08AttrUpd, verifC08AttrCommit [][]parser.Statement

func VerifC08AttrsSetup() {
	for _, f := range verifC08AttrFiles {
		var l [][]parser.Statement
		for _, s := range verifC08AttrSrc {
			l = append(l, verifParse("alter table `"+f+"` "+s+";"))
		}
		verifC08AttrStmts = append(verifC08AttrStmts, l)
		verifC08AttrUpd = append(verifC08AttrUpd, verifParse("update `"+f+"` set a = 'k' where id = '1';"))
	}
	verifC08AttrCommit = append(verifC08AttrCommit, verifParse("commit;"))
}

type verifC08Attrs struct {
	format, delimiter, encoding, lineBreak, positions string
	noHeader, encloseAll, pretty, singleLine         bool
	escape                                           int
}

func verifC08AttrsOf(f *FileInfo) verifC08Attrs {
	pos := ""
	for _, p := range f.DelimiterPositions {
		pos += string(rune('0'+p%10)) + ","
	}
	return verifC08Attrs{f.Format.String(), string(f.Delimiter), f.Encoding.String(), f.LineBreak.String(), pos,
		f.NoHeader, f.EncloseAll, f.PrettyPrint, f.SingleLine, int(f.JsonEscape)}
}

// ALTER TABLE ... SET <attribute> statements that are refused - a value the attribute cannot take, an
// encoding the table's format does not support, an attribute that does not exist, a value equal to the
// present one - on a CSV, JSON, JSON Lines and LTSV table, before or after the table was changed in the
// transaction: every attribute of the table is as before, nothing new is scheduled for COMMIT, and the
// COMMIT of a following (or preceding) UPDATE writes the file exactly as it would have been written
// without the refused statement.
func VerifC08RefusedAttributes() {
	ti := verifChoice("table", len(verifC08AttrFiles))
	si := verifChoice("statement", len(verifC08AttrSrc))
	updateFirst := verifBool("update-first")
	verifFileWrite(verifC08AttrFiles[ti], verifC08AttrOld[ti])
	tx := verifNewTx()
	tx.Flags.Quiet = true
	proc := NewProcessor(tx)
	if updateFirst {
		_, err := proc.Execute(verifCtx(), verifC08AttrUpd[ti])
		verifAssert("the update succeeds", err == nil)
	} else {
		_, err := proc.Execute(verifCtx(), verifParseCachedSelect(ti))
		verifAssert("the table loads", err == nil)
	}
	var before verifC08Attrs
	found := false
	tx.CachedViews.Range(func(_, v interface{}) bool {
		before = verifC08AttrsOf(v.(*View).FileInfo)
		found = true
		return true
	})
	verifAssert("the table is cached", found)
	_, err := proc.Execute(verifCtx(), verifC08AttrStmts[ti][si])
	if err == nil {
		// an encoding a text table does support: a sanity path, not a subject
		verifReach("accepted")
		_ = proc.AutoRollback()
		_ = proc.ReleaseResourcesWithErrors()
		return
	}
	tx.CachedViews.Range(func(_, v interface{}) bool {
		verifAssert("every attribute is as before the refused statement", verifC08AttrsOf(v.(*View).FileInfo) == before)
		return true
	})
	if !updateFirst {
		verifAssert("nothing is scheduled for COMMIT", tx.UncommittedViews.IsEmpty())
		_, err = proc.Execute(verifCtx(), verifC08AttrUpd[ti])
		verifAssert("the update succeeds", err == nil)
	}
	_, err = proc.Execute(verifCtx(), verifC08AttrCommit[0])
	verifAssert("commit succeeds", err == nil)
	got := verifFileRead(verifC08AttrFiles[ti])
	// (a JSON Lines table is written with a blank line at its end by the unchanged code; either form is accepted)
	verifAssert("the file is written as without the refused statement", got == verifC08AttrNew[ti] || (ti == 2 && got == verifC08AttrNew[ti]+"\n"))
	_ = proc.AutoRollback()
	_ = proc.ReleaseResourcesWithErrors()
	verifAssert("no control files remain", verifFileList() == verifC08AttrFiles[ti])
	verifObserve("file-length", int64(len(got)))
	verifReach("end")
}

func verifParseCachedSelect(ti int) []parser.Statement {
	return verifC08AttrSel[ti]
}

var verifC08AttrSel [][]parser.Statement

//verif:setup VerifC08AttrsSetup2
func VerifC08AttrsSetup2() {
	for _, f := range verifC08AttrFiles {
		verifC08AttrSel = append(verifC08AttrSel, verifParse("select * from `"+f+"`;"))
	}
}
