package query

//verif:property C08
//verif:pkg lib/query
//verif:setup VerifC08FileSetup
//verif:harness VerifC08FailingOnFile mode=bv tier=quick split=6

import (
	"github.com/mithrandie/csvq/lib/parser"
	"github.com/mithrandie/csvq/lib/value"
)

var verifC08FileSrc = []string{
	"update t set a = 10 / a",
	"update t set id = id + 10 / a where id < 2",
	"delete from t where 10 / a > 5",
	"insert into t select id + 3, 10 / a from t",
	"replace into t (id, a) using (id) select id, 10 / a from t",
	"alter table t add w default 10 / a",
}
var verifC08FileStmts [][]parser.Statement
var verifC08FileSel, verifC08FileCommit []parser.Statement

func VerifC08FileSetup() {
	for _, s := range verifC08FileSrc {
		verifC08FileStmts = append(verifC08FileStmts, verifParse(s+";"))
	}
	verifC08FileSel = verifParse("select id, a from t;")
	verifC08FileCommit = verifParse("commit;")
}

// The same on a table that lives in a file (loaded into the transaction's view cache, published
// through it): a data-changing statement that fails at a row chosen by the file's contents (a cell
// that is the digit 0) leaves the cached table as loaded - a following SELECT in the same
// transaction returns the original cells, nothing is scheduled for COMMIT and COMMIT leaves the file
// byte-identical.  If the data lets the statement succeed the path is a sanity case.
func VerifC08FailingOnFile() {
	n := verifBound(3, 4)
	cells := make([]byte, n)
	content := []byte("id,a\n")
	anyZero := false
	for i := 0; i < n; i++ {
		c := verifByte("a")
		verifAssume(verifOr(c == '0', c == '1'))
		cells[i] = c
		if c == '0' {
			anyZero = true
		}
		content = append(content, byte('0'+i), ',', c, '\n')
	}
	verifFileWrite("t.csv", string(content))
	tx := verifNewTx()
	tx.Flags.Quiet = true
	proc := NewProcessor(tx)
	si := verifChoice("statement", len(verifC08FileSrc))
	_, err := proc.Execute(verifCtx(), verifC08FileStmts[si])
	if err == nil {
		// the condition of statement 1 only looks at the first two rows
		verifReach("succeeded")
		_ = proc.AutoRollback()
		_ = proc.ReleaseResourcesWithErrors()
		return
	}
	verifAssert("the statement fails only if some cell is 0", anyZero)
	verifAssert("nothing is scheduled for COMMIT", tx.UncommittedViews.IsEmpty())
	tx.SelectedViews = nil
	_, e := proc.Execute(ContextForStoringResults(verifCtx()), verifC08FileSel)
	verifAssert("the table is still readable", e == nil && len(tx.SelectedViews) == 1)
	if e == nil && len(tx.SelectedViews) == 1 {
		v := tx.SelectedViews[0]
		verifAssert("same number of records as loaded", v.RecordLen() == n)
		for i := 0; i < v.RecordLen() && i < n; i++ {
			id, ok1 := v.RecordSet[i][0][0].(*value.String)
			a, ok2 := v.RecordSet[i][1][0].(*value.String)
			verifAssert("cells as loaded", ok1 && ok2 && id.Raw() == string([]byte{byte('0' + i)}) && a.Raw() == string([]byte{cells[i]}))
		}
	}
	_, e = proc.Execute(verifCtx(), verifC08FileCommit)
	verifAssert("commit succeeds", e == nil)
	verifAssert("the file is byte-identical", verifFileRead("t.csv") == string(content))
	_ = proc.AutoRollback()
	_ = proc.ReleaseResourcesWithErrors()
	verifAssert("no control files remain", verifFileList() == "t.csv")
	verifObserveBool("failed", true)
	verifReach("end")
}
