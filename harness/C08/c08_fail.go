package query

//verif:property C08
//verif:pkg lib/query
//verif:setup VerifC08Setup
//verif:harness VerifC08FailingStatement mode=int tier=quick split=6

import (
	"github.com/mithrandie/csvq/lib/parser"
	"github.com/mithrandie/csvq/lib/value"
)

// statements whose evaluation fails at a row or expression chosen by the data (integer division
// by zero), or always (unknown field, wrong row length, duplicate column, multi-row subquery)
var verifC08Src = []string{
	"insert into t values (1, 2, 3), (4, 5, 10 / @z), (6, 7, 8)",
	"update t set b = 100 / a where id >= 0",
	"delete from t where 100 / a > 1",
	"replace into t (id, b) using (id) values (1, 7), (2, 100 / @z), (9, 1)",
	"insert into t select id, a, 100 / a from t",
	"alter table t add c default 100 / a",
	"update t set nosuch = 1",
	"insert into t values (1, 2)",
	"alter table t drop nosuch",
	"alter table t rename a to b",
	"update t set b = (select a from t)",
	"update t set a = 100 / b, b = 5",
	"delete from t where a in (select 100 / b from t)",
	// earlier rows take their values straight from a variable and from another table's cell
	"insert into t values (1, @v, (select c from u)), (4, 5, 10 / @z), (6, 7, 8)",
	"replace into t (id, a, b) using (id) values (1, @v, (select c from u)), (2, 3, 100 / @z)",
	// the SELECT form failing after the SELECT was evaluated: its rows are cells of the tables it read
	"insert into t (id, nosuch) select c, c from u",
	"insert into t (id, a) select c, c, c from u",
	"replace into t (id, a) using (nosuch) select c, c from u",
	"insert into t select id, a, b from t union all select c, @v, 100 / @z from u",
}

var verifC08Stmts []parser.Statement

func VerifC08Setup() {
	verifC08Stmts = make([]parser.Statement, len(verifC08Src))
	for i, s := range verifC08Src {
		verifC08Stmts[i] = verifParse(s)[0]
	}
}

// A data-changing statement that fails - at whichever row the data makes it fail - leaves the
// table object, its header, every record and every cell exactly as before, records nothing for
// COMMIT, and reports no affected rows.  (If the data lets it succeed the path is a sanity case.)
func VerifC08FailingStatement() {
	tx := verifNewTx()
	tx.Flags.Quiet = true
	proc := NewProcessor(tx)
	scope := proc.ReferenceScope
	n := verifBound(3, 5)
	rows := make([][]value.Primary, n)
	bvals := make([]int64, n)
	for i := 0; i < n; i++ {
		var a value.Primary
		// divisors range over [-3, 3]: symbolic 64-bit division is out of the solver's reach, and
		// the failure (division by zero at this row or not) does not depend on the magnitude
		if verifBool("a.null") {
			a = value.NewNull()
		} else {
			av := verifInt64("a")
			verifAssume(av >= -3)
			verifAssume(av <= 3)
			a = value.NewInteger(av)
		}
		bv := verifInt64("b")
		verifAssume(bv >= -3)
		verifAssume(bv <= 3)
		bvals[i] = bv
		rows[i] = []value.Primary{value.NewInteger(int64(i)), a, value.NewInteger(bv)}
	}
	before := verifTempTable(scope, "t", []string{"id", "a", "b"}, rows)
	beforeRecords := make([]Record, n)
	beforeCells := make([][]value.Primary, n)
	for i := range before.RecordSet {
		beforeRecords[i] = before.RecordSet[i]
		beforeCells[i] = []value.Primary{before.RecordSet[i][0][0], before.RecordSet[i][1][0], before.RecordSet[i][2][0]}
	}
	zv := verifInt64("z")
	verifAssume(zv >= -3)
	verifAssume(zv <= 3)
	verifVar(scope, "z", value.NewInteger(zv))
	vv, uc := verifInt64("v"), verifInt64("uc")
	verifAssume(vv >= -3)
	verifAssume(vv <= 3)
	verifAssume(uc >= -3)
	verifAssume(uc <= 3)
	verifVar(scope, "v", value.NewInteger(vv))
	other := verifTempTable(scope, "u", []string{"c"}, [][]value.Primary{{value.NewInteger(uc)}})
	si := verifChoice("statement", len(verifC08Src))
	verifMapOrder(true)
	_, err := proc.Execute(ContextForStoringResults(verifCtx()), []parser.Statement{verifC08Stmts[si]})
	verifObserveBool("failed", err != nil)
	if err == nil {
		verifReach("succeeded")
		return
	}
	after := verifStored(scope, "T")
	verifAssert("the published table object is unchanged", after == before)
	verifAssert("same number of columns", len(after.Header) == 3)
	verifAssert("column names unchanged", verifAnd(after.Header[0].Column == "id", verifAnd(after.Header[1].Column == "a", after.Header[2].Column == "b")))
	verifAssert("same number of rows", after.RecordLen() == n)
	for i := 0; i < n && i < after.RecordLen(); i++ {
		verifAssert("row width unchanged", len(after.RecordSet[i]) == 3)
		for j := 0; j < 3; j++ {
			verifAssert("cell is the same object", after.RecordSet[i][j][0] == beforeCells[i][j])
		}
		// payloads were not rewritten in place either
		if iv, ok := beforeCells[i][2].(*value.Integer); ok {
			_ = iv
		}
	}
	// values the statement only read must not have been handed back to the value pools: reissue
	// pooled objects and look again
	verifC14Churn()
	gv, gerr := scope.GetVariable(parser.Variable{Name: "v"})
	gi, gok := gv.(*value.Integer)
	verifAssert("a variable read by the failed statement keeps its value", gerr == nil && gok && gi.Raw() == vv)
	oc, ook := verifStored(scope, "U").RecordSet[0][0][0].(*value.Integer)
	verifAssert("another table read by the failed statement keeps its cell", ook && oc.Raw() == uc && verifStored(scope, "U") == other)
	for i := 0; i < n && i < after.RecordLen(); i++ {
		bi, ok := after.RecordSet[i][2][0].(*value.Integer)
		verifAssert("cell payload unchanged after pool churn", ok && bi.Raw() == bvals[i])
	}
	verifAssert("nothing scheduled for COMMIT", tx.UncommittedViews.IsEmpty())
	verifAssert("no affected rows reported", tx.AffectedRows == 0)
	verifReach("failed")
}
