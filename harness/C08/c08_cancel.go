package query

//verif:property C08
//verif:pkg lib/query
//verif:setup VerifC08CancelSetup
//verif:harness VerifC08CancelledMultiTable mode=bv tier=quick split=4

import (
	"github.com/mithrandie/csvq/lib/parser"
	"github.com/mithrandie/csvq/lib/value"
)

var verifC08CancelStmts [][]parser.Statement

func VerifC08CancelSetup() {
	for _, s := range []string{
		"delete t, u from t join u on t.id = u.id",
		"update t, u set t.v = 9, u.w = 9 from t join u on t.id = u.id",
		"delete from t where id in (select id from u)",
	} {
		verifC08CancelStmts = append(verifC08CancelStmts, verifParse(s+";"))
	}
}

// A statement that changes two tables at once, interrupted (context cancellation: SIGINT/SIGTERM)
// at any of the first 24 (thorough 40) points at which csvq looks at its context, in either order
// in which the two tables are published: if the statement reports an error, both tables are exactly
// as before - not one of them already changed.
func VerifC08CancelledMultiTable() {
	verifMapOrder(true)
	tx := verifNewTx()
	tx.Flags.Quiet = true
	proc := NewProcessor(tx)
	scope := proc.ReferenceScope
	t := verifTempTable(scope, "t", []string{"id", "v"}, [][]value.Primary{{value.NewInteger(1), value.NewInteger(10)}, {value.NewInteger(2), value.NewInteger(20)}, {value.NewInteger(3), value.NewInteger(30)}})
	u := verifTempTable(scope, "u", []string{"id", "w"}, [][]value.Primary{{value.NewInteger(1), value.NewInteger(11)}, {value.NewInteger(2), value.NewInteger(21)}})
	_, _ = t, u
	si := verifChoice("statement", len(verifC08CancelStmts))
	ctx := &verifCancelCtx{ch: make(chan struct{}, 1), at: 1 + verifChoice("cancel-at", verifBound(24, 40))}
	_, err := proc.Execute(ctx, verifC08CancelStmts[si])
	if err == nil {
		verifReach("completed")
		return
	}
	tv, uv := verifStored(scope, "T"), verifStored(scope, "U")
	verifAssert("t has all its records", tv.RecordLen() == 3)
	verifAssert("u has all its records", uv.RecordLen() == 2)
	for i := 0; i < tv.RecordLen() && i < 3; i++ {
		c, ok := tv.RecordSet[i][1][0].(*value.Integer)
		verifAssert("t's cells as before", ok && c.Raw() == int64(10*(i+1)))
	}
	for i := 0; i < uv.RecordLen() && i < 2; i++ {
		c, ok := uv.RecordSet[i][1][0].(*value.Integer)
		verifAssert("u's cells as before", ok && c.Raw() == int64(10*(i+1)+1))
	}
	verifAssert("nothing is scheduled for COMMIT", tx.UncommittedViews.IsEmpty())
	verifObserveBool("failed", true)
	verifReach("end")
}
