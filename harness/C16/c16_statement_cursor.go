package query

//verif:property C16
//verif:pkg lib/query
//verif:setup VerifC16StmtSetup
//verif:harness VerifC16StatementCursor mode=bv tier=quick split=4

import (
	"github.com/mithrandie/csvq/lib/parser"
	"github.com/mithrandie/csvq/lib/value"
	"github.com/mithrandie/ternary"
)

var verifC16StDecl, verifC16StOpen1, verifC16StOpen2, verifC16StOpenNoArg, verifC16StFetch, verifC16StClose []parser.Statement
var verifC16StDml [][]parser.Statement
var verifC16StStatus parser.SelectQuery

func VerifC16StmtSetup() {
	verifC16StDecl = verifParse("prepare stmt from 'select id, v from t where id >= ? order by id'; declare cur cursor for stmt; var @i; var @v;")
	verifC16StOpen1 = verifParse("open cur using 1;")
	verifC16StOpen2 = verifParse("open cur using 2;")
	verifC16StOpenNoArg = verifParse("open cur;")
	verifC16StFetch = verifParse("fetch cur into @i, @v;")
	verifC16StClose = verifParse("close cur;")
	for _, s := range []string{
		"update t set v = v + 10;",
		"delete from t where id = 2;",
		"insert into t values (0, 5), (4, 6);",
		"update t set id = id + 1;",
	} {
		verifC16StDml = append(verifC16StDml, verifParse(s))
	}
	verifC16StStatus = verifParseSelect("select cursor cur is open, cursor cur is in range, cursor cur count")
}

// A cursor declared for a *prepared statement* (OPEN ... USING values): OPEN evaluates the statement
// once with the given values; k fetches, a data-changing statement on the table and a second OPEN (with
// other values, or none) while it is open: the second OPEN is an error and changes nothing - the
// following fetches return the rows of the first result at the next positions with the cell values of
// the OPEN, COUNT stays; after CLOSE an OPEN with other values is a fresh cursor over the current table.
func VerifC16StatementCursor() {
	tx := verifNewTx()
	tx.Flags.Quiet = true
	proc := NewProcessor(tx)
	scope := proc.ReferenceScope
	var v [3]int64
	rows := make([][]value.Primary, 3)
	for i := range rows {
		v[i] = verifInt64("v")
		verifAssume(v[i] > -1000 && v[i] < 1000)
		rows[i] = []value.Primary{value.NewInteger(int64(i + 1)), value.NewInteger(v[i])}
	}
	verifTempTable(scope, "t", []string{"id", "v"}, rows)
	run := func(stmts []parser.Statement) error {
		_, err := proc.Execute(verifCtx(), stmts)
		return err
	}
	status := func() (ternary.Value, ternary.Value, int64, error) {
		view, err := Select(verifCtx(), scope, verifC16StStatus)
		if err != nil || view.RecordLen() != 1 {
			return ternary.UNKNOWN, ternary.UNKNOWN, -1, err
		}
		rec := view.RecordSet[0]
		o, _ := rec[0][0].(*value.Ternary)
		r, _ := rec[1][0].(*value.Ternary)
		c, _ := rec[2][0].(*value.Integer)
		if o == nil || r == nil || c == nil {
			return ternary.UNKNOWN, ternary.UNKNOWN, -2, nil
		}
		return o.Ternary(), r.Ternary(), c.Raw(), nil
	}
	fetched := func() (int64, int64, bool) {
		i, ok1 := verifC16StInt(scope, "i")
		w, ok2 := verifC16StInt(scope, "v")
		return i, w, ok1 && ok2
	}
	verifAssert("declarations", run(verifC16StDecl) == nil)
	verifAssert("a statement cursor needs its values", run(verifC16StOpenNoArg) != nil)
	o, _, _, err := status()
	verifAssert("a refused OPEN leaves the cursor closed", err != nil || o == ternary.FALSE)
	verifAssert("open using 1", run(verifC16StOpen1) == nil)
	k := verifChoice("fetches", 3) // 0..2 fetches before the table changes
	for n := 0; n < k; n++ {
		verifAssert("fetch", run(verifC16StFetch) == nil)
		i, w, ok := fetched()
		verifAssert("fetched row n of the result", ok && i == int64(n+1) && w == v[n])
	}
	d := verifChoice("dml", len(verifC16StDml)+1)
	if d < len(verifC16StDml) {
		verifAssert("data-changing statement", run(verifC16StDml[d]) == nil)
	}
	second := verifChoice("second-open", 3)
	switch second {
	case 1:
		verifAssert("opening an open statement cursor is an error", run(verifC16StOpen2) != nil)
	case 2:
		verifAssert("opening an open statement cursor without values is an error", run(verifC16StOpenNoArg) != nil)
	}
	o, r, c, err := status()
	verifAssert("still open, count of the first result", err == nil && o == ternary.TRUE && c == 3)
	if k == 0 {
		verifAssert("unfetched: UNKNOWN", r == ternary.UNKNOWN)
	} else {
		verifAssert("on a row: in range", r == ternary.TRUE)
	}
	for n := k; n < 3; n++ {
		verifAssert("fetch after the change", run(verifC16StFetch) == nil)
		i, w, ok := fetched()
		verifAssert("the next row of the result taken at OPEN, with its cells of then", ok && i == int64(n+1) && w == v[n])
	}
	verifAssert("fetch past the end", run(verifC16StFetch) == nil)
	_, r, _, err = status()
	verifAssert("past the end: out of range", err == nil && r == ternary.FALSE)
	verifAssert("close", run(verifC16StClose) == nil)
	verifAssert("open using 2 after close", run(verifC16StOpen2) == nil)
	_, r, c, err = status()
	want := int64(2) // ids >= 2 of the current table
	switch d {
	case 1:
		want = 1
	case 2:
		want = 3
	case 3:
		want = 3
	}
	verifAssert("a fresh cursor over the current table", err == nil && r == ternary.UNKNOWN && c == want)
	verifObserve("fetches", int64(k))
	verifReach("end")
}

func verifC16StInt(scope *ReferenceScope, name string) (int64, bool) {
	p, err := scope.GetVariable(parser.Variable{Name: name})
	if err != nil {
		return 0, false
	}
	i, ok := p.(*value.Integer)
	if !ok {
		return 0, false
	}
	return i.Raw(), true
}
