package query

//verif:property C16
//verif:pkg lib/query
//verif:setup VerifC16PosSetup
//verif:harness VerifC16PositionValues mode=bv tier=quick
//verif:harness VerifC16ShadowedCursor mode=bv tier=quick

import (
	"github.com/mithrandie/csvq/lib/parser"
	"github.com/mithrandie/csvq/lib/value"
)

var verifC16Pos [2][]parser.Statement
var verifC16PosPrior, verifC16PosNext []parser.Statement

func VerifC16PosSetup() {
	verifC16Pos[0] = verifParse("declare cur cursor for select id from t; open cur; var @i; fetch first cur into @i; fetch absolute @pos cur into @i;")
	verifC16Pos[1] = verifParse("declare cur cursor for select id from t; open cur; var @i; fetch last cur into @i; fetch relative @pos cur into @i;")
	verifC16PosPrior = verifParse("fetch prior cur into @i;")
	verifC16PosNext = verifParse("fetch next cur into @i;")
}

// The offset of FETCH ABSOLUTE / RELATIVE is an expression: given as a float or a text from a menu
// of huge, negative, fractional and non-numeric values, the fetch either is refused with an error or
// places the cursor where the number says - far beyond the last row means after the last row (a
// following FETCH PRIOR returns the last row), far before the first means before the first.
func VerifC16PositionValues() {
	tx := verifNewTx()
	tx.Flags.Quiet = true
	proc := NewProcessor(tx)
	scope := proc.ReferenceScope
	verifTempTable(scope, "t", []string{"id"}, [][]value.Primary{{value.NewInteger(1)}, {value.NewInteger(2)}, {value.NewInteger(3)}})
	menu := []value.Primary{
		value.NewFloat(1e30), value.NewFloat(-1e30), value.NewString("1e30"), value.NewString("-1e30"),
		value.NewFloat(9.3e18), value.NewFloat(1.0), value.NewString(" 2 "), value.NewInteger(9223372036854775807),
		value.NewInteger(2),
	}
	sign := []int{1, -1, 1, -1, 1, 0, 0, 1, 0} // where the position lies: beyond the end, before the start, inside
	mi := verifChoice("offset", len(menu))
	verifVar(scope, "pos", menu[mi])
	form := verifChoice("form", 2)
	_, err := proc.Execute(verifCtx(), verifC16Pos[form])
	if err != nil {
		_, fatal := err.(*FatalError)
		verifAssert("a refused position is an ordinary error", !fatal)
		verifReach("refused")
		return
	}
	// the offset expression's own value must survive the fetch (and later allocations)
	verifC14Churn()
	after, _ := scope.GetVariable(parser.Variable{Name: "pos"})
	if mi >= 7 {
		ai, ok := after.(*value.Integer)
		verifAssert("the offset variable is unchanged by the fetch", ok && ai.Raw() == []int64{9223372036854775807, 2}[mi-7])
	}
	if sign[mi] != 0 {
		// the record does not exist: the manual says the variables are set to null
		cur, _ := scope.GetVariable(parser.Variable{Name: "i"})
		verifAssert("a fetch that finds no record sets its variable to NULL", value.IsNull(cur))
	}
	if sign[mi] > 0 {
		_, err = proc.Execute(verifCtx(), verifC16PosPrior)
		verifAssert("fetch prior succeeds", err == nil)
		got, _ := scope.GetVariable(parser.Variable{Name: "i"})
		i, ok := got.(*value.Integer)
		verifAssert("a position far beyond the last row leaves the cursor after the last row", ok && i.Raw() == 3)
	} else if sign[mi] < 0 {
		_, err = proc.Execute(verifCtx(), verifC16PosNext)
		verifAssert("fetch next succeeds", err == nil)
		got, _ := scope.GetVariable(parser.Variable{Name: "i"})
		i, ok := got.(*value.Integer)
		verifAssert("a position far before the first row leaves the cursor before the first row", ok && i.Raw() == 1)
	}
	verifObserve("offset", int64(mi))
	verifReach("end")
}

var verifC16Shadow []parser.Statement

// A cursor declared in an inner block shadows an open outer cursor of the same name: while the inner
// one is not open, FETCH on that name is an error - it never falls through to the outer cursor, whose
// position stays where it was.
func VerifC16ShadowedCursor() {
	tx := verifNewTx()
	tx.Flags.Quiet = true
	proc := NewProcessor(tx)
	scope := proc.ReferenceScope
	verifTempTable(scope, "t", []string{"id"}, [][]value.Primary{{value.NewInteger(1)}, {value.NewInteger(2)}, {value.NewInteger(3)}})
	closedAgain := verifChoice("inner-was-opened-and-closed", 2) == 1
	src := "declare c cursor for select id from t; open c; var @i; var @j := 0; fetch c into @i; if 1 = 1 then declare c cursor for select id from t where id > 1; "
	if closedAgain {
		src += "open c; close c; "
	}
	src += "fetch c into @j; end if;"
	_, err := proc.Execute(verifCtx(), verifParse(src))
	verifAssert("FETCH on the closed inner cursor is an error", err != nil)
	if err != nil {
		_, fatal := err.(*FatalError)
		verifAssert("an ordinary error", !fatal)
	}
	_, err = proc.Execute(verifCtx(), verifParse("fetch c into @i;"))
	verifAssert("the outer cursor is still usable", err == nil)
	got, _ := scope.GetVariable(parser.Variable{Name: "i"})
	i, ok := got.(*value.Integer)
	verifAssert("the outer cursor did not move while it was shadowed", ok && i.Raw() == 2)
	verifObserveBool("closed-again", closedAgain)
	verifReach("end")
}
