package query

//verif:property C16
//verif:pkg lib/query
//verif:setup VerifC16ReopenSetup
//verif:harness VerifC16Reopen mode=bv tier=quick split=4

import (
	"github.com/mithrandie/csvq/lib/parser"
	"github.com/mithrandie/csvq/lib/value"
	"github.com/mithrandie/ternary"
)

var verifC16ReDecl, verifC16ReOpen, verifC16ReClose, verifC16ReFetch, verifC16ReLast, verifC16ReWalk []parser.Statement
var verifC16ReStatus parser.SelectQuery

func VerifC16ReopenSetup() {
	verifC16ReDecl = verifParse("declare cur cursor for select id from t order by id; var @v; var @seen := 0; var @sum := 0;")
	verifC16ReOpen = verifParse("open cur;")
	verifC16ReClose = verifParse("close cur;")
	verifC16ReFetch = verifParse("fetch cur into @v;")
	verifC16ReLast = verifParse("fetch last cur into @v;")
	verifC16ReWalk = verifParse("while @v in cur do @seen := @seen + 1; @sum := @sum * 10 + @v; end while;")
	verifC16ReStatus = verifParseSelect("select cursor cur is open, cursor cur is in range, cursor cur count")
}

// A cursor that is opened, fetched from k times (or sent to its last row), closed and opened again
// is a fresh cursor: IS IN RANGE is UNKNOWN until the first fetch, COUNT is the number of rows of the new
// result, a WHILE IN loop visits every row once in order - whatever the first run left behind; after the
// walk it is out of range; after CLOSE every question about it is an error.
func VerifC16Reopen() {
	tx := verifNewTx()
	tx.Flags.Quiet = true
	proc := NewProcessor(tx)
	scope := proc.ReferenceScope
	verifTempTable(scope, "t", []string{"id"}, [][]value.Primary{{value.NewInteger(1)}, {value.NewInteger(2)}, {value.NewInteger(3)}})
	run := func(stmts []parser.Statement) error {
		_, err := proc.Execute(verifCtx(), stmts)
		return err
	}
	status := func() (ternary.Value, ternary.Value, int64, error) {
		v, err := Select(verifCtx(), scope, verifC16ReStatus)
		if err != nil || v.RecordLen() != 1 {
			return ternary.UNKNOWN, ternary.UNKNOWN, -1, err
		}
		rec := v.RecordSet[0]
		o, _ := rec[0][0].(*value.Ternary)
		r, _ := rec[1][0].(*value.Ternary)
		c, _ := rec[2][0].(*value.Integer)
		if o == nil || r == nil || c == nil {
			return ternary.UNKNOWN, ternary.UNKNOWN, -2, nil
		}
		return o.Ternary(), r.Ternary(), c.Raw(), nil
	}
	verifAssert("declarations", run(verifC16ReDecl) == nil)
	verifAssert("open", run(verifC16ReOpen) == nil)
	k := verifChoice("fetches", 6) // 0..4 fetches, or 5: FETCH LAST
	if k == 5 {
		verifAssert("fetch last", run(verifC16ReLast) == nil)
	} else {
		for i := 0; i < k; i++ {
			verifAssert("fetch", run(verifC16ReFetch) == nil)
		}
	}
	o, r, c, err := status()
	verifAssert("first run: status readable", err == nil && o == ternary.TRUE && c == 3)
	switch {
	case k == 0:
		verifAssert("first run: unfetched is UNKNOWN", r == ternary.UNKNOWN)
	case k == 4:
		verifAssert("first run: past the last row is out of range", r == ternary.FALSE)
	default:
		verifAssert("first run: on a row is in range", r == ternary.TRUE)
	}
	verifAssert("close", run(verifC16ReClose) == nil)
	_, _, _, err = status()
	verifAssert("closed: asking for range or count is an error", err != nil)
	verifAssert("opening again", run(verifC16ReOpen) == nil)
	verifAssert("opening an open cursor is an error", run(verifC16ReOpen) != nil)
	o, r, c, err = status()
	verifAssert("second run: open, unfetched, full count", err == nil && o == ternary.TRUE && r == ternary.UNKNOWN && c == 3)
	verifAssert("walk", run(verifC16ReWalk) == nil)
	seen, ok1 := verifGetIntC16(scope, "seen")
	sum, ok2 := verifGetIntC16(scope, "sum")
	verifAssert("second run: every row once, in order", ok1 && ok2 && seen == 3 && sum == 123)
	_, r, _, err = status()
	verifAssert("after the walk the cursor is out of range", err == nil && r == ternary.FALSE)
	verifObserve("fetches", int64(k))
	verifReach("end")
}

func verifGetIntC16(scope *ReferenceScope, name string) (int64, bool) {
	v, err := scope.GetVariable(parser.Variable{Name: name})
	if err != nil {
		return 0, false
	}
	i, ok := v.(*value.Integer)
	if !ok {
		return 0, false
	}
	return i.Raw(), true
}
