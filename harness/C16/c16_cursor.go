package query

//verif:property C16
//verif:pkg lib/query
//verif:harness VerifC16FetchStep mode=bv tier=quick
//verif:harness VerifC16StateOps mode=bv tier=quick

import (
	"sync"

	"github.com/mithrandie/csvq/lib/parser"
	"github.com/mithrandie/csvq/lib/value"
	"github.com/mithrandie/ternary"
)

func verifC16View(n int) *View {
	rs := make(RecordSet, n)
	for i := 0; i < n; i++ {
		rs[i] = NewRecord([]value.Primary{value.NewInteger(int64(100 + i)), value.NewString("r")})
	}
	v := NewView()
	v.Header = NewHeader("t", []string{"c1", "c2"})
	v.RecordSet = rs
	return v
}

var verifC16Positions = [6]int{parser.ABSOLUTE, parser.RELATIVE, parser.FIRST, parser.LAST, parser.PRIOR, parser.NEXT}

// One inductive step of Cursor.Fetch from an arbitrary valid open state (pointer in [-1, n]).
// Oracle: the addressed position in mathematical integers.
func VerifC16FetchStep() {
	n := verifChoice("n", verifBound(4, 6)) // table length 0..3 (thorough 0..5)
	idx := verifInt("index")
	verifAssume(idx >= -1)
	verifAssume(idx <= n)
	fetched := verifBool("fetched")
	p := verifChoice("position", 6)
	pos := verifC16Positions[p]
	num := verifInt("number") // full int64 range

	view := verifC16View(n)
	c := &Cursor{Name: "cur", view: view, index: idx, fetched: fetched, mtx: &sync.Mutex{}}
	row, err := c.Fetch(parser.Identifier{Literal: "cur"}, pos, num)
	verifAssert("fetch-no-error", err == nil)

	// reference: where does the statement address?  before / inside / after, without overflow
	var before, after bool
	var target int // valid only when inside
	switch pos {
	case parser.ABSOLUTE:
		before, after, target = num < 0, num >= n, num
	case parser.RELATIVE:
		before, after = num < -idx, num >= n-idx
		target = idx + num
	case parser.FIRST:
		before, after, target = false, n == 0, 0
	case parser.LAST:
		before, after, target = n == 0, false, n-1
	case parser.PRIOR:
		before, after, target = idx-1 < 0, false, idx-1
	default:
		before, after, target = false, idx+1 >= n, idx+1
	}
	ptr, _ := c.Pointer()
	verifObserve("pointer", int64(ptr))
	verifObserveBool("row", row != nil)
	if before {
		verifAssert("before-first: no row", row == nil)
		verifAssert("before-first: pointer=-1", ptr == -1)
	} else if after {
		verifAssert("after-last: no row", row == nil)
		verifAssert("after-last: pointer=n", ptr == n)
	} else {
		verifAssert("in-range: row returned", row != nil)
		verifAssert("in-range: pointer=target", ptr == target)
		t := verifConcretize(target)
		verifAssert("in-range: row width", len(row) == 2)
		verifAssert("in-range: cell0 is the snapshot's cell", row[0] == view.RecordSet[t][0][0])
		verifAssert("in-range: cell1 is the snapshot's cell", row[1] == view.RecordSet[t][1][0])
	}
	verifAssert("pointer invariant", verifAnd(ptr >= -1, ptr <= n))
	inr, e2 := c.IsInRange()
	verifAssert("is-in-range no error", e2 == nil)
	verifAssert("is-in-range agrees", (inr == ternary.TRUE) == verifAnd(ptr >= 0, ptr < n))
	verifAssert("is-in-range never unknown after fetch", inr != ternary.UNKNOWN)
	cnt, e3 := c.Count()
	verifAssert("count", verifAnd(e3 == nil, cnt == n))
	verifAssert("still open", c.IsOpen() == ternary.TRUE)
	verifReach("end")
}

// Closed / unfetched cursor: every operation reports the documented state, never stale data.
func VerifC16StateOps() {
	n := verifChoice("n", verifBound(3, 5))
	view := verifC16View(n)
	name := parser.Identifier{Literal: "cur"}
	c := &Cursor{Name: "cur", mtx: &sync.Mutex{}}
	// closed
	verifAssert("closed: IsOpen false", c.IsOpen() == ternary.FALSE)
	_, e := c.Count()
	verifAssert("closed: Count errs", e != nil)
	_, e = c.IsInRange()
	verifAssert("closed: IsInRange errs", e != nil)
	p := verifChoice("position", 6)
	row, e := c.Fetch(name, verifC16Positions[p], verifInt("number"))
	verifAssert("closed: Fetch errs", verifAnd(e != nil, row == nil))
	// open state as Cursor.Open leaves it
	c.view, c.index, c.fetched = view, -1, false
	r, e := c.IsInRange()
	verifAssert("open unfetched: in range is UNKNOWN", verifAnd(e == nil, r == ternary.UNKNOWN))
	// walk with NEXT: visits every row exactly once, in order
	for i := 0; i < n; i++ {
		row, e = c.Fetch(name, parser.NEXT, 0)
		verifAssert("walk: row i", verifAnd(e == nil, row != nil))
		verifAssert("walk: identity", row[0] == view.RecordSet[i][0][0])
	}
	row, e = c.Fetch(name, parser.NEXT, 0)
	verifAssert("walk: end", verifAnd(e == nil, row == nil))
	row, e = c.Fetch(name, parser.NEXT, 0)
	verifAssert("walk: stays at end", verifAnd(e == nil, row == nil))
	ptr, _ := c.Pointer()
	verifAssert("walk: pointer=n", ptr == n)
	// close resets; fetch afterwards is an error
	_ = c.Close(name)
	verifAssert("after close: IsOpen false", c.IsOpen() == ternary.FALSE)
	row, e = c.Fetch(name, parser.NEXT, 0)
	verifAssert("after close: Fetch errs", verifAnd(e != nil, row == nil))
	verifReach("end")
}
