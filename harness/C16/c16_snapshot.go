package query

//verif:property C16
//verif:pkg lib/query
//verif:setup VerifC16SnapSetup
//verif:harness VerifC16Snapshot mode=bv tier=quick split=4

import (
	"github.com/mithrandie/csvq/lib/parser"
	"github.com/mithrandie/csvq/lib/value"
	"github.com/mithrandie/ternary"
)

var verifC16Open, verifC16OpenSorted []parser.Statement
var verifC16Dml [][]parser.Statement

var verifC16DmlSrc = []string{
	"update t set a = @p where id = 1",
	"replace into t (id, a) using (id) values (1, @p), (9, @q)",
	"delete from t where id = 0",
	"insert into t values (7, @p)",
	"update t set a = @p",
	"replace into t (id, a) using (id) values (0, @p), (1, @q), (2, @p)",
	"alter table t add c default @p first",
	"delete from t",
}

func VerifC16SnapSetup() {
	verifC16Open = verifParse("declare cur cursor for select id, a from t; open cur;")
	verifC16OpenSorted = verifParse("declare cur cursor for select id, a from t order by id desc; open cur;")
	for _, s := range verifC16DmlSrc {
		verifC16Dml = append(verifC16Dml, verifParse(s))
	}
}

// OPEN takes a snapshot: after any data-changing statement on the underlying table (run by the
// real Processor between OPEN and the fetches), FETCH still returns the rows as they were at OPEN,
// in order; COUNT and the range status agree; after CLOSE and a second OPEN the new state is seen.
func VerifC16Snapshot() {
	tx := verifNewTx()
	tx.Flags.Quiet = true
	proc := NewProcessor(tx)
	scope := proc.ReferenceScope
	n := verifBound(3, 5)
	a := make([]int64, n)
	rows := make([][]value.Primary, n)
	for i := 0; i < n; i++ {
		a[i] = verifInt64("a")
		rows[i] = []value.Primary{value.NewInteger(int64(i)), value.NewInteger(a[i])}
	}
	verifTempTable(scope, "t", []string{"id", "a"}, rows)
	p, q := verifInt64("p"), verifInt64("q")
	verifVar(scope, "p", value.NewInteger(p))
	verifVar(scope, "q", value.NewInteger(q))
	sorted := verifChoice("sorted", 2) == 1
	open := verifC16Open
	if sorted {
		open = verifC16OpenSorted
	}
	_, err := proc.Execute(verifCtx(), open)
	verifAssert("declare and open", err == nil)
	di := verifChoice("dml", len(verifC16DmlSrc))
	_, err = proc.Execute(verifCtx(), verifC16Dml[di])
	verifAssert("statement on the underlying table succeeds", err == nil)
	name := parser.Identifier{Literal: "cur"}
	cnt, err := scope.CursorCount(name)
	verifAssert("COUNT is the size of the snapshot", err == nil && cnt == n)
	for k := 0; k < n; k++ {
		row, err := scope.FetchCursor(name, parser.NEXT, 0)
		verifAssert("fetch succeeds", err == nil && row != nil && len(row) == 2)
		want := k
		if sorted {
			want = n - 1 - k
		}
		id, ok1 := row[0].(*value.Integer)
		av, ok2 := row[1].(*value.Integer)
		verifAssert("fetched row is the row of the snapshot (id)", ok1 && id.Raw() == int64(want))
		verifAssert("fetched row holds the value it had at OPEN", ok2 && av.Raw() == a[want])
		inr, _ := scope.CursorIsInRange(name)
		verifAssert("in range while on a row", inr == ternary.TRUE)
	}
	row, err := scope.FetchCursor(name, parser.NEXT, 0)
	verifAssert("no row after the last", err == nil && row == nil)
	inr, _ := scope.CursorIsInRange(name)
	verifAssert("out of range after the last row", inr == ternary.FALSE)
	verifAssert("close", scope.CloseCursor(name) == nil)
	_, err = scope.FetchCursor(name, parser.NEXT, 0)
	verifAssert("fetch from a closed cursor is an error", err != nil)
	verifObserve("count", int64(cnt))
	verifReach("end")
}
