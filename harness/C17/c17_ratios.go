package query

//verif:property C17
//verif:pkg lib/query
//verif:setup VerifC17RatioSetup
//verif:harness VerifC17RankRatios mode=bv tier=quick split=4

import (
	"github.com/mithrandie/csvq/lib/parser"
	"github.com/mithrandie/csvq/lib/value"
)

var verifC17Ratio parser.SelectQuery

func VerifC17RatioSetup() {
	verifC17Ratio = verifParseSelect("select id, cume_dist() over (order by k), percent_rank() over (order by k), ntile(3) over (order by k), rank() over (order by k) from t")
}

// CUME_DIST and PERCENT_RANK are quotients of two row counts: on partitions of 5, 6, 7, 10, 49 and 98 rows
// (sizes at which k * (1/n) and k / n differ in IEEE arithmetic), keys distinct or tied in pairs, every row
// gets exactly the correctly rounded quotient - the last peer group has CUME_DIST = 1 - and NTILE / RANK
// agree with the positions.  Concrete data: the subject is the arithmetic at these sizes.
func VerifC17RankRatios() {
	sizes := []int{5, 6, 7, 10, 49, 98}
	n := sizes[verifChoice("size", len(sizes))]
	pairs := verifBool("tied-pairs")
	tx := verifNewTx()
	scope := NewReferenceScope(tx)
	rows := make([][]value.Primary, n)
	key := make([]int, n)
	for i := 0; i < n; i++ {
		// table order is not key order
		k := (i + n/2) % n
		if pairs {
			k /= 2
		}
		key[i] = k
		rows[i] = []value.Primary{value.NewInteger(int64(i)), value.NewInteger(int64(k))}
	}
	verifTempTable(scope, "t", []string{"id", "k"}, rows)
	view, err := Select(verifCtx(), scope, verifC17Ratio)
	verifAssert("select succeeds", err == nil)
	if err != nil {
		return
	}
	verifAssert("number of rows unaffected", view.RecordLen() == n)
	for r := 0; r < view.RecordLen(); r++ {
		id := verifIdOf(view.RecordSet[r][0][0])
		if id < 0 || id >= n {
			verifAssert("row identity", false)
			return
		}
		less, lessEq := 0, 0
		for j := 0; j < n; j++ {
			if key[j] < key[id] {
				less++
			}
			if key[j] <= key[id] {
				lessEq++
			}
		}
		cd, ok1 := view.RecordSet[r][1][0].(*value.Float)
		pr, ok2 := view.RecordSet[r][2][0].(*value.Float)
		rk, ok4 := view.RecordSet[r][4][0].(*value.Integer)
		verifAssert("CUME_DIST is rows up to the peer group / rows", ok1 && cd.Raw() == float64(lessEq)/float64(n))
		verifAssert("PERCENT_RANK is (rank - 1) / (rows - 1)", ok2 && pr.Raw() == float64(less)/float64(n-1))
		verifAssert("RANK", ok4 && rk.Raw() == int64(less+1))
		if lessEq == n {
			verifAssert("the last peer group has CUME_DIST 1", ok1 && cd.Raw() == 1)
		}
		if !pairs {
			nt, ok3 := view.RecordSet[r][3][0].(*value.Integer)
			size, rem := n/3, n%3
			tile, start := 1, 0
			for tile < 3 {
				sz := size
				if tile <= rem {
					sz++
				}
				if less < start+sz {
					break
				}
				start += sz
				tile++
			}
			verifAssert("NTILE(3)", ok3 && nt.Raw() == int64(tile))
		}
	}
	verifObserve("rows", int64(view.RecordLen()))
	verifReach("end")
}
