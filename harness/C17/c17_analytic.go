package query

//verif:property C17
//verif:pkg lib/query
//verif:setup VerifC17Setup
//verif:harness VerifC17Analytic mode=bv tier=quick split=10

import (
	"github.com/mithrandie/csvq/lib/parser"
	"github.com/mithrandie/csvq/lib/value"
)

var verifC17Src = []string{
	"select id, row_number() over (partition by p order by k) from t",                                   // 0
	"select id, rank() over (partition by p order by k) from t",                                         // 1
	"select id, dense_rank() over (partition by p order by k) from t",                                   // 2
	"select id, cume_dist() over (partition by p order by k) from t",                                    // 3
	"select id, percent_rank() over (partition by p order by k) from t",                                 // 4
	"select id, ntile(@n) over (partition by p order by k) from t",                                      // 5
	"select id, first_value(v) over (partition by p order by k) from t",                                 // 6
	"select id, first_value(v) ignore nulls over (partition by p order by k) from t",                    // 7
	"select id, last_value(v) over (partition by p order by k rows between unbounded preceding and unbounded following) from t", // 8
	"select id, nth_value(v, 2) over (partition by p order by k) from t",                                // 9
	"select id, lag(v) over (partition by p order by k) from t",                                         // 10
	"select id, lag(v, 2, -7) over (partition by p order by k) from t",                                  // 11
	"select id, lead(v) over (partition by p order by k) from t",                                        // 12
	"select id, count(v) over (partition by p order by k rows between 1 preceding and 1 following) from t", // 13
	"select id, max(v) over (partition by p order by k) from t",                                         // 14
	"select id, count(*) over (partition by p) from t",                                                  // 15
	"select id, last_value(v) over (partition by p order by k rows between 1 preceding and current row) from t", // 16
	"select id, first_value(v) over (partition by p order by k rows between 1 preceding and 1 following) from t", // 17
	"select id, lag(v) ignore nulls over (partition by p order by k) from t",                            // 18
	"select id, min(v) over (partition by p order by k rows between current row and unbounded following) from t", // 19
	"select id, count(v) over (partition by p order by k rows between 2 preceding and 1 preceding) from t",       // 20: frame before the row
	"select id, last_value(v) over (partition by p order by k rows between 1 following and 2 following) from t",  // 21: frame after the row
	"select id, row_number() over (partition by p order by k), rank() over (partition by p order by k desc) from t", // 22: two functions, different orders
	"select id, max(v) over (partition by p order by k rows between 1 preceding and 1 preceding) from t",           // 23
	"select id, count(v) over (partition by p order by k rows between 1 following and 1 preceding) from t",         // 24: empty frame
	"select id, max(v) over (partition by p order by k rows between current row and 2 preceding) from t",           // 25: empty frame
	"select id, count(v) over (partition by p order by k rows 9223372036854775807 preceding) from t",               // 26: offset beyond any partition
	"select id, first_value(v) over (partition by p order by k rows between 1 following and 9223372036854775807 following) from t", // 27
	"select id, lag(v, 1, 'n') over (partition by p order by k), lag(v, 1, 'N') over (partition by p order by k) from t",            // 28: differ in the case of a literal only
	"select id, count(*) over (partition by p) from (select k, v, p, id, row_number() over (partition by k order by v) as rn from t) s", // 29: the source is a subquery that ran an analytic function on other columns
	"select id, lag(v, -1, -7) over (partition by p order by k) from t",                                 // 30: a negative offset reaches no row: the default
	"select id, lead(v, -2) over (partition by p order by k) from t",                                    // 31
	"select id, lag(v, 9223372036854775807, -7) over (partition by p order by k) from t",                // 32
	"select id, count(distinct v) over (partition by p order by k) from t",                              // 33: DISTINCT over a running frame
	"select id, count(distinct v) over (partition by p order by k rows between unbounded preceding and 1 following) from t", // 34
	"select id, count(distinct v) over (partition by p order by k rows between 1 preceding and current row) from t",         // 35
	"select id, count(distinct v) over (partition by p) from t",                                         // 36
	"select id, pick(v, k) over (partition by p) from t",                                                // 37: a user-defined aggregate whose only parameter is optional, given per row
	"select id, pick(v) over (partition by p order by k) from t",                                        // 38: the default of that parameter
	"select id, cnt(v) over (partition by p order by k rows between 1 preceding and current row) from t", // 39: a user-defined aggregate over a frame
}

var verifC17Queries []parser.SelectQuery
var verifC17Decl []parser.Statement

func VerifC17Setup() {
	verifC17Decl = verifParse(`declare pick aggregate (list, @w default -5) as begin return @w; end;
		declare cnt aggregate (list) as begin var @c := 0; var @x; while @x in list do if @x is not null then @c := @c + 1; end if; end while; return @c; end;`)
	for _, s := range verifC17Src {
		verifC17Queries = append(verifC17Queries, verifParseSelect(s))
	}
}

// Each analytic function through the real Select pipeline on n <= 3 rows (thorough 4) with a
// symbolic partition column (2 values), an arbitrary int64 ordering key and a NULL-or-int64 value
// column, against the textbook per-partition / per-frame definition.
func VerifC17Analytic() {
	tx := verifNewTx()
	tx.Flags.Quiet = true
	proc := NewProcessor(tx)
	scope := proc.ReferenceScope
	n := 1 + verifChoice("n", verifBound(3, 4))
	qi := verifChoice("query", len(verifC17Src))
	if qi >= 37 && qi <= 39 {
		_, derr := proc.Execute(verifCtx(), verifC17Decl)
		verifAssert("the aggregates are declared", derr == nil)
	}
	part := make([]int, n)
	key := make([]int64, n)
	vnull := make([]bool, n)
	val := make([]int64, n)
	rows := make([][]value.Primary, n)
	usesValues := qi >= 6 && qi != 15
	// under --strict-equal the partition values '1' and '1.0' (texts) are different values
	strictTexts := (qi == 0 || qi == 1 || qi == 15) && verifBool("strict-texts")
	if strictTexts {
		tx.Flags.StrictEqual = true
	}
	for i := 0; i < n; i++ {
		if i > 0 {
			part[i] = verifChoice("p", 2) // row 0 is in partition 0 (symmetry)
		}
		key[i] = verifInt64("k")
		if usesValues {
			vnull[i] = verifBool("v.null")
			val[i] = verifInt64("v")
		}
		var v value.Primary
		if vnull[i] {
			v = value.NewNull()
		} else {
			v = value.NewInteger(val[i])
		}
		var pv value.Primary = value.NewInteger(int64(part[i]))
		if strictTexts {
			pv = value.NewString([]string{"1", "1.0"}[part[i]])
		}
		rows[i] = []value.Primary{value.NewInteger(int64(i)), pv, value.NewInteger(key[i]), v}
	}
	// functions whose value depends on the order among tied rows are checked on distinct keys
	tieSensitive := !(qi == 1 || qi == 2 || qi == 3 || qi == 4 || qi == 15)
	if tieSensitive {
		for i := 0; i < n; i++ {
			for j := i + 1; j < n; j++ {
				if part[i] == part[j] {
					verifAssume(key[i] != key[j])
				}
			}
		}
	}
	nt := int64(1)
	if qi == 5 {
		nt = int64(1 + verifChoice("ntile", 4))
	}
	verifVar(scope, "n", value.NewInteger(nt))
	verifTempTable(scope, "t", []string{"id", "p", "k", "v"}, rows)
	view, err := Select(verifCtx(), scope, verifC17Queries[qi])
	verifAssert("select succeeds", err == nil)
	verifAssert("number of rows unaffected", view.RecordLen() == n)
	seen := make([]bool, n)
	for r := 0; r < view.RecordLen(); r++ {
		id := verifIdOf(view.RecordSet[r][0][0])
		verifAssert("row identity", id >= 0 && id < n && !seen[id])
		seen[id] = true
		// the partition of row id, ordered by key (ties keep table order)
		var mem []int
		for i := 0; i < n; i++ {
			if part[i] == part[id] {
				mem = append(mem, i)
			}
		}
		for a := 1; a < len(mem); a++ {
			for b := a; b > 0 && key[mem[b]] < key[mem[b-1]]; b-- {
				mem[b], mem[b-1] = mem[b-1], mem[b]
			}
		}
		m := len(mem)
		pos := 0
		for a, x := range mem {
			if x == id {
				pos = a
			}
		}
		less, lessEq, distinctLess := 0, 0, 0
		for a, x := range mem {
			if key[x] < key[id] {
				less++
				if a == 0 || key[mem[a-1]] != key[x] {
					distinctLess++
				}
			}
			if key[x] <= key[id] {
				lessEq++
			}
		}
		got := view.RecordSet[r][1][0]
		isInt := func(want int64) bool {
			i, ok := got.(*value.Integer)
			return ok && i.Raw() == want
		}
		isFloat := func(want float64) bool {
			f, ok := got.(*value.Float)
			return ok && f.Raw() == want
		}
		// value of the member at position a, or NULL
		isCell := func(a int) bool {
			if a < 0 || a >= m || vnull[mem[a]] {
				return value.IsNull(got)
			}
			return isInt(val[mem[a]])
		}
		switch qi {
		case 0:
			verifAssert("ROW_NUMBER", isInt(int64(pos+1)))
		case 1:
			verifAssert("RANK", isInt(int64(less+1)))
		case 2:
			verifAssert("DENSE_RANK", isInt(int64(distinctLess+1)))
		case 3:
			verifAssert("CUME_DIST", isFloat(float64(lessEq)/float64(m)))
		case 4:
			if m == 1 {
				// a partition of one row has no (rank-1)/(rows-1); csvq's choice is not judged here
				_, isF := got.(*value.Float)
				verifAssert("PERCENT_RANK of a single row is a float", isF)
			} else {
				verifAssert("PERCENT_RANK", isFloat(float64(less)/float64(m-1)))
			}
		case 5:
			size, rem := m/int(nt), m%int(nt)
			tile, start := 1, 0
			for {
				sz := size
				if tile <= rem {
					sz++
				}
				if pos < start+sz || tile >= int(nt) {
					break
				}
				start += sz
				tile++
			}
			verifAssert("NTILE", isInt(int64(tile)))
		case 6:
			verifAssert("FIRST_VALUE", isCell(0))
		case 7:
			f := -1
			for a := 0; a <= pos; a++ {
				if !vnull[mem[a]] {
					f = a
					break
				}
			}
			verifAssert("FIRST_VALUE IGNORE NULLS", isCell(f))
		case 8:
			verifAssert("LAST_VALUE over the whole partition", isCell(m-1))
		case 9:
			if pos >= 1 {
				verifAssert("NTH_VALUE(2)", isCell(1))
			} else {
				verifAssert("NTH_VALUE(2) before the second row", value.IsNull(got))
			}
		case 10:
			verifAssert("LAG", isCell(pos-1))
		case 11:
			if pos-2 >= 0 {
				verifAssert("LAG(v, 2, default)", isCell(pos-2))
			} else {
				verifAssert("LAG default", isInt(-7))
			}
		case 12:
			verifAssert("LEAD", isCell(pos+1))
		case 13:
			c := 0
			for a := pos - 1; a <= pos+1; a++ {
				if a >= 0 && a < m && !vnull[mem[a]] {
					c++
				}
			}
			verifAssert("COUNT over a ROWS frame", isInt(int64(c)))
		case 14:
			best := -1
			for a := 0; a <= pos; a++ {
				if !vnull[mem[a]] && (best < 0 || val[mem[a]] > val[mem[best]]) {
					best = a
				}
			}
			verifAssert("MAX over the default frame", isCell(best))
		case 15:
			verifAssert("COUNT(*) over the partition", isInt(int64(m)))
		case 16:
			verifAssert("LAST_VALUE over ROWS 1 PRECEDING..CURRENT ROW", isCell(pos))
		case 17:
			f := pos - 1
			if f < 0 {
				f = 0
			}
			verifAssert("FIRST_VALUE over ROWS 1 PRECEDING..1 FOLLOWING", isCell(f))
		case 18:
			f := -1
			for a := pos - 1; a >= 0; a-- {
				if !vnull[mem[a]] {
					f = a
					break
				}
			}
			verifAssert("LAG IGNORE NULLS", isCell(f))
		case 28:
			if pos == 0 {
				s1, ok1 := view.RecordSet[r][1][0].(*value.String)
				s2, ok2 := view.RecordSet[r][2][0].(*value.String)
				verifAssert("LAG defaults that differ only in letter case stay different", ok1 && ok2 && s1.Raw() == "n" && s2.Raw() == "N")
			} else {
				verifAssert("LAG next to a LAG that differs in a literal's case", isCell(pos-1))
			}
		case 29:
			verifAssert("COUNT(*) over the partition of a subquery's result", isInt(int64(m)))
		case 30, 32:
			verifAssert("LAG with an offset that reaches no row: the default", isInt(-7))
		case 31:
			verifAssert("LEAD with an offset that reaches no row: NULL", value.IsNull(view.RecordSet[r][1][0]))
		case 33, 34, 35, 36:
			lo, hi := 0, pos
			switch qi {
			case 34:
				hi = pos + 1
			case 35:
				lo = pos - 1
			case 36:
				hi = m - 1
			}
			c := 0
			for a := lo; a <= hi; a++ {
				if a < 0 || a >= m || vnull[mem[a]] {
					continue
				}
				dup := false
				for b := lo; b < a; b++ {
					if b >= 0 && b < m && !vnull[mem[b]] && val[mem[b]] == val[mem[a]] {
						dup = true
					}
				}
				if !dup {
					c++
				}
			}
			verifAssert("COUNT(DISTINCT) over the row's frame", isInt(int64(c)))
		case 37:
			verifAssert("a user-defined aggregate gets the argument of its own row", isInt(key[id]))
		case 38:
			verifAssert("a user-defined aggregate gets the default of an omitted argument", isInt(-5))
		case 39:
			c := 0
			for a := pos - 1; a <= pos; a++ {
				if a >= 0 && !vnull[mem[a]] {
					c++
				}
			}
			verifAssert("a user-defined aggregate sees exactly the rows of the frame", isInt(int64(c)))
		case 24:
			verifAssert("COUNT over an empty frame", isInt(0))
		case 25:
			verifAssert("MAX over an empty frame", isCell(-1))
		case 26:
			c := 0
			for a := 0; a <= pos; a++ {
				if !vnull[mem[a]] {
					c++
				}
			}
			verifAssert("COUNT over ROWS <huge> PRECEDING", isInt(int64(c)))
		case 27:
			f := -1
			if pos+1 < m {
				f = pos + 1
			}
			verifAssert("FIRST_VALUE over 1 FOLLOWING..<huge> FOLLOWING", isCell(f))
		case 20:
			c := 0
			for a := pos - 2; a <= pos-1; a++ {
				if a >= 0 && a < m && !vnull[mem[a]] {
					c++
				}
			}
			verifAssert("COUNT over a frame that lies before the row", isInt(int64(c)))
		case 21:
			f := -1
			for a := pos + 1; a <= pos+2; a++ {
				if a >= 0 && a < m {
					f = a
				}
			}
			verifAssert("LAST_VALUE over a frame that lies after the row", isCell(f))
		case 22:
			verifAssert("ROW_NUMBER next to another analytic function", isInt(int64(pos+1)))
			r2, ok := view.RecordSet[r][2][0].(*value.Integer)
			greater := 0
			for _, x := range mem {
				if key[x] > key[id] {
					greater++
				}
			}
			verifAssert("RANK with the opposite order in the same query", ok && r2.Raw() == int64(greater+1))
		case 23:
			verifAssert("MAX over the single preceding row", isCell(pos-1))
		case 19:
			best := -1
			for a := pos; a < m; a++ {
				if !vnull[mem[a]] && (best < 0 || val[mem[a]] < val[mem[best]]) {
					best = a
				}
			}
			verifAssert("MIN over CURRENT ROW..UNBOUNDED FOLLOWING", isCell(best))
		}
	}
	verifObserve("rows", int64(view.RecordLen()))
	verifReach("end")
}
