package file

//verif:property C09
//verif:pkg lib/file
//verif:harness VerifC09TwoProcesses mode=bv tier=quick split=8

import "time"

// Two csvq processes (interpreted goroutines with separate containers, sharing the modelled file
// system) contend for one table; each is a writer (acquire for update, read, write the new version,
// commit) or a reader (acquire for read, read, close).  Every interleaving of their file-system
// operations with at most 2 preemptions (thorough 3) and every timeout instant is explored.
func verifC09ReadAll(h *Handler) string {
	fp := h.File()
	_, _ = fp.Seek(0, 0)
	buf := make([]byte, 16)
	n, _ := fp.Read(buf)
	return string(buf[:n])
}

func VerifC09TwoProcesses() {
	verifFileWrite("t.csv", "0")
	verifPreemptions(verifBound(2, 3))
	var writers, readers int
	var acquired, failed [3]bool
	var read [3]string
	role1, role2 := verifChoice("role", 2), verifChoice("role", 2)
	proc := func(id, role int) func() {
		return func() {
			ctx := verifNewCtx(false)
			c := NewContainer()
			if role == 0 { // writer
				h, err := c.CreateHandlerForUpdate(ctx, "t.csv", time.Second, time.Millisecond)
				if err != nil {
					failed[id] = true
					_, notExist := err.(*NotExistError)
					verifAssert("a table that exists is never reported missing (writer)", !notExist)
					return
				}
				acquired[id] = true
				verifAssert("no other process holds the table when a writer enters", writers == 0 && readers == 0)
				writers++
				read[id] = verifC09ReadAll(h) // as csvq does: through the handle it opened
				verifYield()
				fp, e := h.FileForUpdate()
				verifAssert("writer has a file to update", e == nil)
				_ = fp.Truncate(0)
				_, _ = fp.Seek(0, 0)
				_, _ = fp.Write([]byte(read[id] + "x"))
				verifYield()
				writers--
				verifAssert("commit succeeds", c.Commit(h) == nil)
				return
			}
			h, err := c.CreateHandlerForRead(ctx, "t.csv", time.Second, time.Millisecond)
			if err != nil {
				failed[id] = true
				_, notExist := err.(*NotExistError)
				verifAssert("a table that exists is never reported missing (reader)", !notExist)
				return
			}
			acquired[id] = true
			verifAssert("no writer holds the table when a reader enters", writers == 0)
			readers++
			read[id] = verifC09ReadAll(h)
			verifAssert("a reader sees the table as it is on disk", read[id] == verifFileRead("t.csv"))
			verifYield()
			verifAssert("the table did not change while it was being read", verifFileRead("t.csv") == read[id])
			readers--
			verifAssert("close succeeds", c.Close(h) == nil)
		}
	}
	verifSchedules(true)
	verifSpawn(proc(1, role1))
	verifSpawn(proc(2, role2))
	verifJoin()
	verifSchedules(false)
	// every committed change survives: each successful writer appended exactly one mark
	want := "0"
	for id, role := range []int{-1, role1, role2} {
		if id > 0 && role == 0 && acquired[id] {
			want += "x"
		}
	}
	verifAssert("no update was lost and nothing else was written", verifFileRead("t.csv") == want)
	verifAssert("each process either acquired the table or failed", (acquired[1] != failed[1]) && (acquired[2] != failed[2]))
	verifAssert("no control files are left behind", verifControlFilesLeft() == 0)
	verifObserve("final-length", int64(len(verifFileRead("t.csv"))))
	verifReach("end")
}
