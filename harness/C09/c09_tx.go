package query

//verif:property C09
//verif:pkg lib/query
//verif:setup VerifC09Setup
//verif:harness VerifC09Transactions mode=bv tier=quick split=8

import (
	"github.com/mithrandie/csvq/lib/parser"
)

var verifC09Progs [3][]parser.Statement

func VerifC09Setup() {
	// read-modify-write transactions of three shapes
	verifC09Progs[0] = verifParse("update t set n = n + 1; commit;")
	verifC09Progs[1] = verifParse("select n from t; update t set n = n + 1; commit;")
	verifC09Progs[2] = verifParse("select n from t for update; update t set n = n + 1; commit;")
}

// Two csvq processes (separate Transactions, file containers and view caches, sharing the modelled
// file system) each run a read-modify-write transaction on the same table through the real
// Processor, loaders, view cache, Transaction.Commit and lib/file: under every interleaving of
// their file-system operations with at most 2 preemptions (thorough 3) the increments of all
// transactions that committed are in the table - no update is lost - and nothing is left locked.
func VerifC09Transactions() {
	verifFileWrite("t.csv", "n\n0\n")
	verifPreemptions(verifBound(2, 3))
	var ok [2]bool
	shape := [2]int{verifChoice("shape", 3), verifChoice("shape", 3)}
	verifAssume(shape[0] <= shape[1]) // the two processes are interchangeable
	run := func(id int) func() {
		return func() {
			tx := verifNewTx()
			tx.Flags.Quiet = true
			proc := NewProcessor(tx)
			_, err := proc.Execute(verifCtx(), verifC09Progs[shape[id]])
			_ = proc.AutoRollback()
			_ = proc.ReleaseResourcesWithErrors()
			ok[id] = err == nil
		}
	}
	verifSchedules(true)
	verifSpawn(run(0))
	verifSpawn(run(1))
	verifJoin()
	verifSchedules(false)
	want := "n\n0\n"
	switch {
	case ok[0] && ok[1]:
		want = "n\n2\n"
	case ok[0] || ok[1]:
		want = "n\n1\n"
	}
	verifAssert("every committed increment is in the table", verifFileRead("t.csv") == want)
	verifAssert("no control files are left behind", verifFileList() == "t.csv")
	verifObserveBool("both", ok[0] && ok[1])
	verifReach("end")
}
