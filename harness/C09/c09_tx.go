package query

//verif:property C09
//verif:pkg lib/query
//verif:setup VerifC09Setup
//verif:harness VerifC09Transactions mode=bv tier=quick split=8
//verif:harness VerifC09ForUpdateHoldsAll mode=bv tier=quick
//verif:harness VerifC09ReadsRespectWriters mode=bv tier=quick

import (
	"time"

	"github.com/mithrandie/csvq/lib/parser"
)

var verifC09Progs [3][]parser.Statement

func VerifC09Setup() {
	// read-modify-write transactions of three shapes
	verifC09Progs[0] = verifParse("update t set n = n + 1; commit;")
	verifC09Progs[1] = verifParse("select n from t; update t set n = n + 1; commit;")
	verifC09Progs[2] = verifParse("select n from t for update; update t set n = n + 1; commit;")
}

// Two csvq processes (separate Transactions, file containers and view caches, sharing the modelled
// file system) each run a read-modify-write transaction on the same table through the real
// Processor, loaders, view cache, Transaction.Commit and lib/file: under every interleaving of
// their file-system operations with at most 2 preemptions (thorough 3) the increments of all
// transactions that committed are in the table - no update is lost - and nothing is left locked.
func VerifC09Transactions() {
	verifFileWrite("t.csv", "n\n0\n")
	verifPreemptions(verifBound(2, 3))
	var ok [2]bool
	shape := [2]int{verifChoice("shape", 3), verifChoice("shape", 3)}
	verifAssume(shape[0] <= shape[1]) // the two processes are interchangeable
	run := func(id int) func() {
		return func() {
			tx := verifNewTx()
			tx.Flags.Quiet = true
			proc := NewProcessor(tx)
			_, err := proc.Execute(verifCtx(), verifC09Progs[shape[id]])
			_ = proc.AutoRollback()
			_ = proc.ReleaseResourcesWithErrors()
			ok[id] = err == nil
		}
	}
	verifSchedules(true)
	verifSpawn(run(0))
	verifSpawn(run(1))
	verifJoin()
	verifSchedules(false)
	want := "n\n0\n"
	switch {
	case ok[0] && ok[1]:
		want = "n\n2\n"
	case ok[0] || ok[1]:
		want = "n\n1\n"
	}
	verifAssert("every committed increment is in the table", verifFileRead("t.csv") == want)
	verifAssert("no control files are left behind", verifFileList() == "t.csv")
	verifObserveBool("both", ok[0] && ok[1])
	verifReach("end")
}

// SELECT ... FOR UPDATE holds every table the query reads - both operands of a set operator, every
// table of a join - until the transaction ends: their .lock files exist afterwards (so no other
// process can read or write them) and are gone after ROLLBACK.
func VerifC09ForUpdateHoldsAll() {
	verifFileWrite("a.csv", "n\n1\n")
	verifFileWrite("b.csv", "n\n2\n")
	src := []string{
		"select n from a for update",
		"select n from a union select n from b for update",
		"select n from a union all select n from b for update",
		"select n from a except select n from b for update",
		"select a.n from a, b for update",
		"select a.n from a inner join b on a.n < b.n for update",
		"select a.n from (a inner join b on a.n < b.n) for update",       // the join written in parentheses
		"select a.n from (a cross join b) left join a as c on c.n = a.n for update",
		"select a.n from (a), (b) for update",
		"(select n from b) union all select n from a for update", // operands written in parentheses
		"select n from a union all (select n from b) for update",
		"(select n from a) union (select n from b) for update",
		"select n from a intersect select n from b for update",
		"select n from b except (select n from a) for update",
	}
	qi := verifChoice("query", len(src))
	tx := verifNewTx()
	tx.Flags.Quiet = true
	proc := NewProcessor(tx)
	_, err := proc.Execute(verifCtx(), verifParse(src[qi]+";"))
	verifAssert("the query runs", err == nil)
	verifAssert("a is held", verifFileExists(".a.csv.lock"))
	if qi > 0 {
		verifAssert("b is held as well", verifFileExists(".b.csv.lock"))
	}
	_, err = proc.Execute(verifCtx(), verifParse("rollback;"))
	verifAssert("rollback", err == nil)
	_ = proc.ReleaseResourcesWithErrors()
	verifAssert("nothing is held afterwards", verifFileList() == "a.csv\nb.csv")
	verifObserve("query", int64(qi))
	verifReach("end")
}

// While another process holds a table for update (its .lock file exists), this process cannot read
// the file in any way - as a table, through a table function, or through an inline table function:
// the read ends with the lock-wait timeout (deadline from the timer model), it does not return data.
func VerifC09ReadsRespectWriters() {
	verifFileWrite("t.csv", "n\n1\n")
	verifFileWrite(".t.csv.lock", "")
	src := []string{
		"select n from t",
		"select * from csv(',', `t.csv`)",
		"select * from csv_inline(',', `t.csv`)",
		"select (select count(*) from csv_inline(',', `t.csv`)) from dual",
	}
	qi := verifChoice("query", len(src))
	tx := verifNewTx()
	tx.Flags.Quiet = true
	tx.WaitTimeout, tx.RetryDelay = 50*time.Millisecond, time.Millisecond
	proc := NewProcessor(tx)
	verifTimers(true)
	_, err := proc.Execute(ContextForStoringResults(verifCtx()), verifParse(src[qi]+";"))
	verifTimers(false)
	verifAssert("a table held by a writer cannot be read", err != nil)
	if err != nil {
		_, fatal := err.(*FatalError)
		verifAssert("an ordinary error", !fatal)
	}
	_ = proc.ReleaseResourcesWithErrors()
	verifFileRemove(".t.csv.lock")
	verifAssert("no control files of this process are left", verifFileList() == "t.csv")
	verifObserve("query", int64(qi))
	verifReach("end")
}
