package file

//verif:property C09
//verif:pkg lib/file
//verif:harness VerifC09ConcurrentCreate mode=bv tier=quick split=4

// Two processes create a table of the same name at the same time (CREATE TABLE: handler for create,
// write, commit) under every interleaving of their file-system operations with at most 2 preemptions
// (thorough 3): at most one of them succeeds, and a process that reported a successful commit finds
// its table on disk with its own contents afterwards - the loser's clean-up does not take it away.
func VerifC09ConcurrentCreate() {
	verifPreemptions(verifBound(2, 3))
	var committed [3]bool
	proc := func(id int) func() {
		return func() {
			c := NewContainer()
			h, err := c.CreateHandlerForCreate("n.csv")
			if err != nil {
				_ = c.CloseAllWithErrors()
				return
			}
			verifYield()
			if fp, e := h.FileForUpdate(); e == nil {
				_, _ = fp.Write([]byte{byte('0' + id)})
			}
			verifYield()
			if c.Commit(h) == nil {
				committed[id] = true
			}
			_ = c.CloseAllWithErrors()
		}
	}
	verifSchedules(true)
	verifSpawn(proc(1))
	verifSpawn(proc(2))
	verifJoin()
	verifSchedules(false)
	verifAssert("at most one creator succeeds", !(committed[1] && committed[2]))
	if committed[1] || committed[2] {
		want := "1"
		if committed[2] {
			want = "2"
		}
		verifAssert("the committed table exists", verifFileExists("n.csv"))
		verifAssert("the committed table holds its creator's contents", verifFileRead("n.csv") == want)
	}
	verifAssert("no control files are left behind", verifControlFilesLeft() == 0)
	verifObserveBool("created", committed[1] || committed[2])
	verifReach("end")
}
