package file

//verif:property C09
//verif:pkg lib/file
//verif:harness VerifC09TableNames mode=bv tier=quick

import "time"

// The lock files are found by name patterns: for table names that contain the pattern characters
// themselves, a writer still sees a reader's lock (it times out while the reader holds the table,
// acquires after the reader has closed) and a reader still sees a writer's.
func VerifC09TableNames() {
	names := []string{"t.csv", "a[1].csv", "a*.csv", "a?b.csv", "a\\b.csv", "[x.csv", "a[!b].csv"}
	name := names[verifChoice("name", len(names))]
	verifFileWrite(name, "0")
	readerFirst := verifChoice("reader-first", 2) == 1
	c1, c2 := NewContainer(), NewContainer()
	if readerFirst {
		h, err := c1.CreateHandlerForRead(verifNewCtx(true), name, time.Second, time.Millisecond)
		verifAssert("the reader acquires the free table", err == nil)
		_, err2 := c2.CreateHandlerForUpdate(verifNewCtx(false), name, time.Second, time.Millisecond)
		_, timeout := err2.(*TimeoutError)
		verifAssert("a writer does not enter while a reader holds the table", err2 != nil && timeout)
		verifAssert("the reader closes", c1.Close(h) == nil)
		h2, err3 := c2.CreateHandlerForUpdate(verifNewCtx(true), name, time.Second, time.Millisecond)
		verifAssert("the writer acquires the released table", err3 == nil)
		if err3 == nil {
			verifAssert("the writer closes", c2.Close(h2) == nil)
		}
	} else {
		h, err := c1.CreateHandlerForUpdate(verifNewCtx(true), name, time.Second, time.Millisecond)
		verifAssert("the writer acquires the free table", err == nil)
		_, err2 := c2.CreateHandlerForRead(verifNewCtx(false), name, time.Second, time.Millisecond)
		_, timeout := err2.(*TimeoutError)
		verifAssert("a reader does not enter while a writer holds the table", err2 != nil && timeout)
		verifAssert("the writer closes", c1.Close(h) == nil)
		h2, err3 := c2.CreateHandlerForRead(verifNewCtx(true), name, time.Second, time.Millisecond)
		verifAssert("the reader acquires the released table", err3 == nil)
		if err3 == nil {
			verifAssert("the reader closes", c2.Close(h2) == nil)
		}
	}
	verifAssert("no control files are left behind", verifControlFilesLeft() == 0)
	verifObserve("name", int64(len(name)))
	verifReach("end")
}
