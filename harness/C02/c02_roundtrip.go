package query

//verif:property C02
//verif:pkg lib/query
//verif:setup VerifC02Setup
//verif:setup VerifC02Setup1
//verif:harness VerifC02CsvRoundTrip mode=bv tier=quick split=10
//verif:harness VerifC02SingleColumn mode=bv tier=quick split=2

import (
	"github.com/mithrandie/csvq/lib/parser"
	"github.com/mithrandie/csvq/lib/value"
)

var verifC02Create, verifC02Insert, verifC02Select [3][]parser.Statement

func VerifC02Setup() {
	for i, name := range []string{"`x.csv`", "`x.tsv`", "`x.ltsv`"} {
		verifC02Create[i] = verifParse("create table " + name + " (c1, c2);")
		verifC02Insert[i] = verifParse("insert into " + name + " values (@a, @b), ('k', 'z'); commit;")
		verifC02Select[i] = verifParse("select c1, c2 from " + name + ";")
	}
}

// verifC02Cell: NULL, or a text of 0..2 symbolic bytes (thorough 0..3), each byte from the set of
// characters the formats treat specially plus representatives of ordinary text.
func verifC02Cell(tag string) (value.Primary, string, bool) {
	if verifBool(tag + ".null") {
		return value.NewNull(), "", true
	}
	n := verifChoice(tag+".len", verifBound(3, 4))
	b := make([]byte, n)
	for i := range b {
		c := verifByte(tag)
		ok := verifOr(verifOr(verifOr(c == ',', c == '"'), verifOr(c == '\n', c == '\r')), verifOr(verifOr(c == '\t', c == ':'), verifOr(verifOr(c == ' ', c == 'a'), verifOr(c == '\\', c == '1'))))
		verifAssume(ok)
		b[i] = c
	}
	return value.NewString(string(b)), string(b), false
}

// Write-then-read through the real code on the modelled file system: CREATE TABLE + INSERT + COMMIT
// in one transaction (real encoders, lib/file commit), then SELECT in a fresh transaction (real
// loaders).  Either the write is refused with an error and no table exists with partial contents, or
// the table reloads with the same number of records and fields and the same text in every cell
// (NULL and the empty text coincide).
func VerifC02CsvRoundTrip() {
	format := verifChoice("format", verifBound(2, 3)) // csv, tsv (thorough: ltsv)
	a, ta, na := verifC02Cell("a")
	b, tb, nb := verifC02Cell("b")
	tc, nc := "z", false
	tx := verifNewTx()
	tx.Flags.Quiet = true
	proc := NewProcessor(tx)
	scope := proc.ReferenceScope
	verifVar(scope, "a", a)
	verifVar(scope, "b", b)
	_, err := proc.Execute(verifCtx(), verifC02Create[format])
	verifAssert("create table", err == nil)
	_, err = proc.Execute(verifCtx(), verifC02Insert[format])
	_ = proc.AutoRollback()
	_ = proc.ReleaseResourcesWithErrors()
	name := [3]string{"x.csv", "x.tsv", "x.ltsv"}[format]
	if err != nil {
		verifAssert("a refused write leaves no table behind", !verifFileExists(name))
		verifReach("refused")
		return
	}
	// a fresh csvq process
	tx2 := verifNewTx()
	tx2.Flags.Quiet = true
	proc2 := NewProcessor(tx2)
	_, err = proc2.Execute(ContextForStoringResults(verifCtx()), verifC02Select[format])
	verifAssert("the written table loads", err == nil)
	verifAssert("one result", err == nil && len(tx2.SelectedViews) == 1)
	if err != nil || len(tx2.SelectedViews) != 1 {
		return
	}
	v := tx2.SelectedViews[0]
	verifAssert("same number of records", v.RecordLen() == 2)
	verifAssert("same number of fields", v.FieldLen() == 2)
	same := func(p value.Primary, text string, isNull bool) bool {
		if value.IsNull(p) {
			return isNull || text == ""
		}
		s, ok := p.(*value.String)
		if !ok {
			return false
		}
		if isNull {
			return s.Raw() == ""
		}
		return s.Raw() == text
	}
	if v.RecordLen() == 2 && v.FieldLen() == 2 {
		verifAssert("cell (1,1) reads back", same(v.RecordSet[0][0][0], ta, na))
		verifAssert("cell (1,2) reads back", same(v.RecordSet[0][1][0], tb, nb))
		verifAssert("cell (2,1) reads back", same(v.RecordSet[1][0][0], "k", false))
		verifAssert("cell (2,2) reads back", same(v.RecordSet[1][1][0], tc, nc))
	}
	_ = proc2.ReleaseResourcesWithErrors()
	verifObserve("records", int64(v.RecordLen()))
	verifReach("end")
}

var verifC02Create1, verifC02Insert1, verifC02Select1 []parser.Statement

func VerifC02Setup1() {
	verifC02Create1 = verifParse("create table `y.csv` (c1);")
	verifC02Insert1 = verifParse("insert into `y.csv` values ('k'), (@a), ('z'); commit;")
	verifC02Select1 = verifParse("select c1 from `y.csv`;")
}

// The same round trip for a table with a single column (a record is then a bare line).
func VerifC02SingleColumn() {
	a, ta, na := verifC02Cell("a")
	tx := verifNewTx()
	tx.Flags.Quiet = true
	proc := NewProcessor(tx)
	verifVar(proc.ReferenceScope, "a", a)
	_, err := proc.Execute(verifCtx(), verifC02Create1)
	verifAssert("create table", err == nil)
	_, err = proc.Execute(verifCtx(), verifC02Insert1)
	_ = proc.AutoRollback()
	_ = proc.ReleaseResourcesWithErrors()
	if err != nil {
		verifAssert("a refused write leaves no table behind", !verifFileExists("y.csv"))
		verifReach("refused")
		return
	}
	tx2 := verifNewTx()
	tx2.Flags.Quiet = true
	proc2 := NewProcessor(tx2)
	_, err = proc2.Execute(ContextForStoringResults(verifCtx()), verifC02Select1)
	verifAssert("the written table loads", err == nil && len(tx2.SelectedViews) == 1)
	if err != nil || len(tx2.SelectedViews) != 1 {
		return
	}
	v := tx2.SelectedViews[0]
	verifAssert("same number of records", v.RecordLen() == 3)
	if v.RecordLen() == 3 {
		p := v.RecordSet[1][0][0]
		if value.IsNull(p) {
			verifAssert("NULL or empty text reads back as NULL", na || ta == "")
		} else {
			s, ok := p.(*value.String)
			verifAssert("the cell reads back", ok && ((na && s.Raw() == "") || (!na && s.Raw() == ta)))
		}
	}
	verifObserve("records", int64(v.RecordLen()))
	verifReach("end")
}
