package query

//verif:property C02
//verif:pkg lib/query
//verif:setup VerifC02Setup
//verif:setup VerifC02Setup1
//verif:harness VerifC02CsvRoundTrip mode=bv tier=quick split=10
//verif:harness VerifC02SingleColumn mode=bv tier=quick split=2
//verif:harness VerifC02LtsvJsonRoundTrip mode=bv tier=quick split=10
//verif:setup VerifC02Setup2
//verif:setup VerifC02Setup3
//verif:harness VerifC02ManyRecords mode=bv tier=quick
//verif:setup VerifC02Setup4
//verif:harness VerifC02HeaderAndDialect mode=bv tier=quick split=4
//verif:harness VerifC02RetriedCommit mode=bv tier=quick split=4
//verif:setup VerifC02Setup5
//verif:harness VerifC02FixedLength mode=bv tier=quick split=4

import (
	"github.com/mithrandie/csvq/lib/parser"
	"github.com/mithrandie/csvq/lib/value"
)

var verifC02Create, verifC02Insert, verifC02Select [5][]parser.Statement

func VerifC02Setup() {
	for i, name := range []string{"`x.csv`", "`x.tsv`", "`x.ltsv`", "`x.json`", "`x.jsonl`"} {
		verifC02Create[i] = verifParse("create table " + name + " (c1, c2);")
		verifC02Insert[i] = verifParse("insert into " + name + " values (@a, @b), ('k', 'z'); commit;")
		verifC02Select[i] = verifParse("select c1, c2 from " + name + ";")
	}
}

// verifC02Cell: NULL, or a text of 0..2 symbolic bytes (thorough 0..3), each byte from the set of
// characters the formats treat specially plus representatives of ordinary text.
func verifC02Cell(tag string, quickLen, thoroughLen int) (value.Primary, string, bool) {
	if verifBool(tag + ".null") {
		return value.NewNull(), "", true
	}
	n := verifChoice(tag+".len", verifBound(quickLen+1, thoroughLen+1))
	b := make([]byte, n)
	for i := range b {
		c := verifByte(tag)
		ok := verifOr(verifOr(verifOr(c == ',', c == '"'), verifOr(c == '\n', c == '\r')), verifOr(verifOr(c == '\t', c == ':'), verifOr(verifOr(c == ' ', c == 'a'), verifOr(c == '\\', c == '1'))))
		verifAssume(ok)
		b[i] = c
	}
	return value.NewString(string(b)), string(b), false
}

// Write-then-read through the real code on the modelled file system: CREATE TABLE + INSERT + COMMIT
// in one transaction (real encoders, lib/file commit), then SELECT in a fresh transaction (real
// loaders).  Either the write is refused with an error and no table exists with partial contents, or
// the table reloads with the same number of records and fields and the same text in every cell
// (NULL and the empty text coincide).
func VerifC02CsvRoundTrip() {
	format := verifChoice("format", 2) // csv, tsv
	a, ta, na := verifC02Cell("a", 2, 3)
	b, tb, nb := verifC02Cell("b", 2, 3)
	verifC02RoundTrip(format, a, ta, na, b, tb, nb)
}

// The same round trip through the LTSV, JSON and JSON Lines encoders and loaders (cells of 0..1
// bytes, thorough 0..2).
func VerifC02LtsvJsonRoundTrip() {
	format := 2 + verifChoice("format", 3) // ltsv, json, jsonl
	a, ta, na := verifC02Cell("a", 1, 2)
	b, tb, nb := verifC02Cell("b", 1, 2)
	verifC02RoundTrip(format, a, ta, na, b, tb, nb)
}

func verifC02RoundTrip(format int, a value.Primary, ta string, na bool, b value.Primary, tb string, nb bool) {
	tc, nc := "z", false
	tx := verifNewTx()
	tx.Flags.Quiet = true
	proc := NewProcessor(tx)
	scope := proc.ReferenceScope
	verifVar(scope, "a", a)
	verifVar(scope, "b", b)
	_, err := proc.Execute(verifCtx(), verifC02Create[format])
	verifAssert("create table", err == nil)
	_, err = proc.Execute(verifCtx(), verifC02Insert[format])
	_ = proc.AutoRollback()
	_ = proc.ReleaseResourcesWithErrors()
	name := [5]string{"x.csv", "x.tsv", "x.ltsv", "x.json", "x.jsonl"}[format]
	if err != nil {
		verifAssert("a refused write leaves no table behind", !verifFileExists(name))
		verifReach("refused")
		return
	}
	// a fresh csvq process
	tx2 := verifNewTx()
	tx2.Flags.Quiet = true
	proc2 := NewProcessor(tx2)
	_, err = proc2.Execute(ContextForStoringResults(verifCtx()), verifC02Select[format])
	verifAssert("the written table loads", err == nil)
	verifAssert("one result", err == nil && len(tx2.SelectedViews) == 1)
	if err != nil || len(tx2.SelectedViews) != 1 {
		return
	}
	v := tx2.SelectedViews[0]
	verifAssert("same number of records", v.RecordLen() == 2)
	verifAssert("same number of fields", v.FieldLen() == 2)
	same := func(p value.Primary, text string, isNull bool) bool {
		if value.IsNull(p) {
			return isNull || text == ""
		}
		s, ok := p.(*value.String)
		if !ok {
			return false
		}
		if isNull {
			return s.Raw() == ""
		}
		return s.Raw() == text
	}
	if v.RecordLen() == 2 && v.FieldLen() == 2 {
		verifAssert("cell (1,1) reads back", same(v.RecordSet[0][0][0], ta, na))
		verifAssert("cell (1,2) reads back", same(v.RecordSet[0][1][0], tb, nb))
		verifAssert("cell (2,1) reads back", same(v.RecordSet[1][0][0], "k", false))
		verifAssert("cell (2,2) reads back", same(v.RecordSet[1][1][0], tc, nc))
	}
	_ = proc2.ReleaseResourcesWithErrors()
	verifObserve("records", int64(v.RecordLen()))
	verifReach("end")
}

var verifC02Create1, verifC02Insert1, verifC02Select1 []parser.Statement

func VerifC02Setup1() {
	verifC02Create1 = verifParse("create table `y.csv` (c1);")
	verifC02Insert1 = verifParse("insert into `y.csv` values ('k'), (@a), ('z'); commit;")
	verifC02Select1 = verifParse("select c1 from `y.csv`;")
}

// The same round trip for a table with a single column (a record is then a bare line).
func VerifC02SingleColumn() {
	a, ta, na := verifC02Cell("a", 2, 3)
	tx := verifNewTx()
	tx.Flags.Quiet = true
	proc := NewProcessor(tx)
	verifVar(proc.ReferenceScope, "a", a)
	_, err := proc.Execute(verifCtx(), verifC02Create1)
	verifAssert("create table", err == nil)
	_, err = proc.Execute(verifCtx(), verifC02Insert1)
	_ = proc.AutoRollback()
	_ = proc.ReleaseResourcesWithErrors()
	if err != nil {
		verifAssert("a refused write leaves no table behind", !verifFileExists("y.csv"))
		verifReach("refused")
		return
	}
	tx2 := verifNewTx()
	tx2.Flags.Quiet = true
	proc2 := NewProcessor(tx2)
	_, err = proc2.Execute(ContextForStoringResults(verifCtx()), verifC02Select1)
	verifAssert("the written table loads", err == nil && len(tx2.SelectedViews) == 1)
	if err != nil || len(tx2.SelectedViews) != 1 {
		return
	}
	v := tx2.SelectedViews[0]
	verifAssert("same number of records", v.RecordLen() == 3)
	if v.RecordLen() == 3 {
		p := v.RecordSet[1][0][0]
		if value.IsNull(p) {
			verifAssert("NULL or empty text reads back as NULL", na || ta == "")
		} else {
			s, ok := p.(*value.String)
			verifAssert("the cell reads back", ok && ((na && s.Raw() == "") || (!na && s.Raw() == ta)))
		}
	}
	verifObserve("records", int64(v.RecordLen()))
	verifReach("end")
}

var verifC02Retry1, verifC02Retry2, verifC02RetrySelA, verifC02RetrySelL []parser.Statement

func VerifC02Setup2() {
	verifC02Retry1 = verifParse("update a set v = 'bbbb'; update l set v = @c; commit;")
	verifC02Retry2 = verifParse("update a set v = 'b'; update l set v = 'ok'; commit;")
	verifC02RetrySelA = verifParse("select id, v from a;")
	verifC02RetrySelL = verifParse("select k, v from l;")
}

// A COMMIT that is refused (an LTSV value that cannot be encoded) after another updated table was
// already encoded, then retried in the same transaction once the value is repaired (what the
// interactive shell allows): the tables written by the successful COMMIT read back as updated, in
// whichever order the updated tables are encoded.
func VerifC02RetriedCommit() {
	verifMapOrder(true)
	verifFileWrite("a.csv", "id,v\n1,a\n")
	verifFileWrite("l.ltsv", "k:7\tv:o\n")
	c, tc, nc := verifC02Cell("c", 1, 2)
	tx := verifNewTx()
	tx.Flags.Quiet = true
	proc := NewProcessor(tx)
	verifVar(proc.ReferenceScope, "c", c)
	_, err := proc.Execute(verifCtx(), verifC02Retry1)
	want, wantA := tc, "id,v\n1,bbbb\n"
	if err != nil {
		verifReach("refused")
		_, err = proc.Execute(verifCtx(), verifC02Retry2)
		verifAssert("the repaired transaction commits", err == nil)
		want, nc, wantA = "ok", false, "id,v\n1,b\n" // the retried COMMIT writes a shorter table
	}
	_ = proc.AutoRollback()
	_ = proc.ReleaseResourcesWithErrors()
	if err != nil {
		return
	}
	verifAssert("the CSV table is written whole", verifFileRead("a.csv") == wantA)
	tx2 := verifNewTx()
	tx2.Flags.Quiet = true
	proc2 := NewProcessor(tx2)
	_, err = proc2.Execute(ContextForStoringResults(verifCtx()), verifC02RetrySelA)
	verifAssert("the CSV table loads", err == nil && len(tx2.SelectedViews) == 1)
	_, err = proc2.Execute(ContextForStoringResults(verifCtx()), verifC02RetrySelL)
	verifAssert("the LTSV table loads", err == nil && len(tx2.SelectedViews) >= 1)
	if err != nil || len(tx2.SelectedViews) < 1 {
		return
	}
	l := tx2.SelectedViews[len(tx2.SelectedViews)-1]
	verifAssert("the LTSV table has its record", l.RecordLen() == 1 && l.FieldLen() == 2)
	if l.RecordLen() == 1 && l.FieldLen() == 2 {
		p := l.RecordSet[0][1][0]
		if value.IsNull(p) {
			verifAssert("the LTSV cell reads back", nc || want == "")
		} else {
			s, ok := p.(*value.String)
			verifAssert("the LTSV cell reads back", ok && ((nc && s.Raw() == "") || (!nc && s.Raw() == want)))
		}
	}
	_ = proc2.ReleaseResourcesWithErrors()
	verifObserveBool("retried", want == "ok")
	verifReach("end")
}

var verifC02Many []parser.Statement

func VerifC02Setup3() {
	verifC02Many = verifParse("select n, c from `m.csv`;")
}

// A table of 299..302 records (the loader re-sizes its record buffer at the 301st), or of 300 wide
// records followed by 200 narrow ones: every record is read back, in order, with its own cells; the
// first cell is a symbolic byte.
func VerifC02ManyRecords() {
	n := 299 + verifChoice("records", 4)
	// shape 1: 300 wide records followed by 200 narrow ones - the file holds more records than the
	// size of the first 300 suggests
	wideThenNarrow := verifChoice("shape", 2) == 1
	if wideThenNarrow {
		n = 500
	}
	c := verifByte("c")
	verifAssume(verifOr(verifOr(c == 'p', c == 'q'), c == ' '))
	b := []byte("n,c\n")
	for i := 0; i < n; i++ {
		b = append(b, byte('0'+i/100), byte('0'+i/10%10), byte('0'+i%10), ',')
		if i == 0 {
			b = append(b, c)
		} else {
			b = append(b, 'x')
		}
		if wideThenNarrow && i < 300 {
			b = append(b, "xxxxxxxxxxxxxxxxxxxxxxxx"...)
		}
		b = append(b, '\n')
	}
	verifFileWrite("m.csv", string(b))
	tx := verifNewTx()
	tx.Flags.Quiet = true
	proc := NewProcessor(tx)
	_, err := proc.Execute(ContextForStoringResults(verifCtx()), verifC02Many)
	verifAssert("the table loads", err == nil && len(tx.SelectedViews) == 1)
	if err != nil || len(tx.SelectedViews) != 1 {
		return
	}
	v := tx.SelectedViews[0]
	verifAssert("every record is read back", v.RecordLen() == n)
	for i := 0; i < v.RecordLen() && i < n; i++ {
		s, ok := v.RecordSet[i][0][0].(*value.String)
		want := string([]byte{byte('0' + i/100), byte('0' + i/10%10), byte('0' + i%10)})
		verifAssert("records keep their order and cells", ok && s.Raw() == want)
	}
	if v.RecordLen() > 0 {
		s, ok := v.RecordSet[0][1][0].(*value.String)
		want := string([]byte{c})
		if wideThenNarrow {
			want += "xxxxxxxxxxxxxxxxxxxxxxxx"
		}
		verifAssert("the symbolic cell reads back", ok && s.Raw() == want)
	}
	_ = proc.ReleaseResourcesWithErrors()
	verifObserve("records", int64(v.RecordLen()))
	verifReach("end")
}


var verifC02Hdr [2][]parser.Statement
var verifC02HdrSel [2][]parser.Statement
var verifC02Dialect, verifC02DialectSel []parser.Statement

func VerifC02Setup4() {
	for i, name := range []string{"`h.csv`", "`h.tsv`"} {
		verifC02Hdr[i] = verifParse("create table " + name + " (c1, c2); insert into " + name + " values ('p', 'q'); commit;")
		verifC02HdrSel[i] = verifParse("select * from " + name + ";")
	}
	verifC02Dialect = verifParse("update d set b = @c where a = 1; commit;")
	verifC02DialectSel = verifParse("select a, b from d;")
}

// (a) The header is data as well: a column whose name is 1..2 symbolic bytes over the special
// characters (set on the cached table, written by COMMIT) reads back under the same name, or the
// write is refused.  (b) An updated file keeps its line break: a CRLF table stays a CRLF table down to
// its last byte.
func VerifC02HeaderAndDialect() {
	if verifChoice("part", 2) == 0 {
		format := verifChoice("format", 2)
		n := 1 + verifChoice("len", 2)
		b := make([]byte, n)
		for i := range b {
			c := verifByte("h")
			ok := verifOr(verifOr(verifOr(c == ',', c == '"'), verifOr(c == '\n', c == '\r')), verifOr(verifOr(c == '\t', c == ' '), verifOr(c == 'a', c == '1')))
			verifAssume(ok)
			b[i] = c
		}
		name := string(b)
		file := [2]string{"h.csv", "h.tsv"}[format]
		tx := verifNewTx()
		tx.Flags.Quiet = true
		proc := NewProcessor(tx)
		// CREATE + INSERT, then rename the column on the cached view (what ALTER TABLE RENAME does
		// after parsing the new name), then COMMIT
		_, err := proc.Execute(verifCtx(), verifC02Hdr[format][:2])
		verifAssert("create and insert", err == nil)
		tx.CachedViews.Range(func(_, v interface{}) bool {
			v.(*View).Header[0].Column = name
			return true
		})
		_, err = proc.Execute(verifCtx(), verifC02Hdr[format][2:])
		_ = proc.AutoRollback()
		_ = proc.ReleaseResourcesWithErrors()
		if err != nil {
			verifAssert("a refused write leaves no table behind", !verifFileExists(file))
			verifReach("refused")
			return
		}
		tx2 := verifNewTx()
		tx2.Flags.Quiet = true
		proc2 := NewProcessor(tx2)
		_, err = proc2.Execute(ContextForStoringResults(verifCtx()), verifC02HdrSel[format])
		verifAssert("the written table loads", err == nil && len(tx2.SelectedViews) == 1)
		if err == nil && len(tx2.SelectedViews) == 1 {
			v := tx2.SelectedViews[0]
			verifAssert("same number of fields and records", v.FieldLen() == 2 && v.RecordLen() == 1)
			if v.FieldLen() == 2 {
				verifAssert("the column name reads back", v.Header[0].Column == name && v.Header[1].Column == "c2")
			}
		}
		_ = proc2.ReleaseResourcesWithErrors()
		verifObserve("name-length", int64(n))
		verifReach("end")
		return
	}
	// (b)
	verifFileWrite("d.csv", "a,b\r\n1,x\r\n2,y\r\n")
	c, tc, nc := verifC02Cell("c", 1, 2)
	tx := verifNewTx()
	tx.Flags.Quiet = true
	proc := NewProcessor(tx)
	verifVar(proc.ReferenceScope, "c", c)
	_, err := proc.Execute(verifCtx(), verifC02Dialect)
	_ = proc.AutoRollback()
	_ = proc.ReleaseResourcesWithErrors()
	if err != nil {
		verifAssert("a refused update leaves the file as it was", verifFileRead("d.csv") == "a,b\r\n1,x\r\n2,y\r\n")
		verifReach("refused")
		return
	}
	got := []byte(verifFileRead("d.csv"))
	verifAssert("the file still ends with its own line break", len(got) >= 2 && got[len(got)-2] == '\r' && got[len(got)-1] == '\n')
	tx2 := verifNewTx()
	tx2.Flags.Quiet = true
	proc2 := NewProcessor(tx2)
	_, err = proc2.Execute(ContextForStoringResults(verifCtx()), verifC02DialectSel)
	verifAssert("the updated table loads", err == nil && len(tx2.SelectedViews) == 1)
	if err == nil && len(tx2.SelectedViews) == 1 {
		v := tx2.SelectedViews[0]
		verifAssert("same records", v.RecordLen() == 2 && v.FieldLen() == 2)
		if v.RecordLen() == 2 && v.FieldLen() == 2 {
			p := v.RecordSet[0][1][0]
			if value.IsNull(p) {
				verifAssert("the updated cell reads back", nc || tc == "")
			} else {
				s, ok := p.(*value.String)
				verifAssert("the updated cell reads back", ok && ((nc && s.Raw() == "") || (!nc && s.Raw() == tc)))
			}
			s2, ok2 := v.RecordSet[1][1][0].(*value.String)
			verifAssert("the other record is intact", ok2 && s2.Raw() == "y")
		}
	}
	_ = proc2.ReleaseResourcesWithErrors()
	verifReach("end")
}

var verifC02FixedUpd, verifC02FixedSel [2][]parser.Statement

func VerifC02Setup5() {
	for i, pos := range []string{"[2, 5]", "S[2, 5]"} {
		verifC02FixedUpd[i] = verifParse("update fixed('" + pos + "', `f.txt`) set c2 = @c where c1 = 'ab'; commit;")
		verifC02FixedSel[i] = verifParse("select c1, c2 from fixed('" + pos + "', `f.txt`);")
	}
}

// Fixed-length format: a table read with given delimiter positions, one cell replaced by NULL or a text
// of 0..2 (3) symbolic bytes (blank, line breaks, TAB, comma, letter, digit), COMMIT.  Either the
// write is refused (text wider than the field, or a character the format cannot spell) and the file
// is byte-identical, or the table reloads under the same positions with the same records and the
// same cell texts, edge white space dropped (NULL and the empty text coincide).
func VerifC02FixedLength() {
	// records one per line under a header line, or all records on a single line without header
	single := verifChoice("single-line", 2)
	before := "c1c2 \nabcd \nefgh \n"
	if single == 1 {
		before = "abcd efgh "
	}
	verifFileWrite("f.txt", before)
	c, tc, nc := verifC02Cell("c", 2, 3)
	tx := verifNewTx()
	tx.Flags.Quiet = true
	proc := NewProcessor(tx)
	verifVar(proc.ReferenceScope, "c", c)
	_, err := proc.Execute(verifCtx(), verifC02FixedUpd[single])
	_ = proc.AutoRollback()
	_ = proc.ReleaseResourcesWithErrors()
	if err != nil {
		verifAssert("a refused update leaves the file as it was", verifFileRead("f.txt") == before)
		verifReach("refused")
		return
	}
	if single == 1 {
		got := verifFileRead("f.txt")
		verifAssert("a single-line table stays a single line of whole records", len(got) == len(before))
	}
	// expected text: edge white space dropped
	want := []byte(tc)
	isBlank := func(b byte) bool { return b == ' ' || b == '\t' || b == '\n' || b == '\r' }
	for len(want) > 0 && isBlank(want[0]) {
		want = want[1:]
	}
	for len(want) > 0 && isBlank(want[len(want)-1]) {
		want = want[:len(want)-1]
	}
	tx2 := verifNewTx()
	tx2.Flags.Quiet = true
	proc2 := NewProcessor(tx2)
	_, err = proc2.Execute(ContextForStoringResults(verifCtx()), verifC02FixedSel[single])
	verifAssert("the updated table loads", err == nil && len(tx2.SelectedViews) == 1)
	if err != nil || len(tx2.SelectedViews) != 1 {
		return
	}
	v := tx2.SelectedViews[0]
	verifAssert("same number of records", v.RecordLen() == 2)
	verifAssert("same number of fields", v.FieldLen() == 2)
	if v.RecordLen() == 2 && v.FieldLen() == 2 {
		verifAssert("header reads back", v.Header[0].Column == "c1" && v.Header[1].Column == "c2")
		s0, ok0 := v.RecordSet[0][0][0].(*value.String)
		verifAssert("the neighbouring cell is intact", ok0 && s0.Raw() == "ab")
		p := v.RecordSet[0][1][0]
		if value.IsNull(p) {
			verifAssert("the updated cell reads back", nc || len(want) == 0)
		} else {
			s, ok := p.(*value.String)
			verifAssert("the updated cell reads back", ok && !nc && s.Raw() == string(want))
		}
		s1, ok1 := v.RecordSet[1][0][0].(*value.String)
		s2, ok2 := v.RecordSet[1][1][0].(*value.String)
		verifAssert("the other record is intact", ok1 && ok2 && s1.Raw() == "ef" && s2.Raw() == "gh")
	}
	_ = proc2.ReleaseResourcesWithErrors()
	verifObserve("records", int64(v.RecordLen()))
	verifReach("end")
}
