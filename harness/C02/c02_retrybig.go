package query

//verif:property C02
//verif:pkg lib/query
//verif:setup VerifC02RetryBigSetup
//verif:harness VerifC02RetriedBigCommit mode=bv tier=quick split=2

import (
	"strconv"

	"github.com/mithrandie/csvq/lib/parser"
	"github.com/mithrandie/csvq/lib/value"
)

var verifC02RbCreate, verifC02RbBreak, verifC02RbCommit, verifC02RbRepair, verifC02RbShrink [2][]parser.Statement

func VerifC02RetryBigSetup() {
	for i, f := range []string{"`out.ltsv`", "`out.tsv`"} {
		verifC02RbCreate[i] = verifParse("create table " + f + " (id, v) select id, v from src;")
		verifC02RbBreak[i] = verifParse("update " + f + " set v = @bad where id = 500;")
		verifC02RbCommit[i] = verifParse("commit;")
		verifC02RbRepair[i] = verifParse("update " + f + " set v = 'ok' where id = 500;")
		verifC02RbShrink[i] = verifParse("delete from " + f + " where id > 100;")
	}
}

// A table of 600 records - created in this transaction or updated - whose 500th record cannot be
// written (an LTSV value with a TAB; a TSV cell ... is quoted, so there the first COMMIT succeeds): the first
// COMMIT is refused after the writer has flushed several buffers; the value is repaired and COMMIT is given
// again in the same transaction (what the interactive shell allows).  The file then holds exactly the 600
// records, byte for byte - nothing of the refused attempt.
func VerifC02RetriedBigCommit() {
	fi := verifChoice("format", 2)
	created := verifBool("created")
	shrink := verifBool("shrink") // the repair removes the record and most of the table: the second attempt is shorter than what the first one flushed
	name := [2]string{"out.ltsv", "out.tsv"}[fi]
	line := func(id int, v string) string {
		if fi == 0 {
			return "id:" + strconv.Itoa(id) + "\tv:" + v + "\n"
		}
		return strconv.Itoa(id) + "\t" + v + "\n"
	}
	head := ""
	if fi == 1 {
		head = "id\tv\n"
	}
	tx := verifNewTx()
	tx.Flags.Quiet = true
	proc := NewProcessor(tx)
	scope := proc.ReferenceScope
	verifVar(scope, "bad", value.NewString("a\tb"))
	const n = 600
	want := head
	if created {
		rows := make([][]value.Primary, n)
		for i := range rows {
			rows[i] = []value.Primary{value.NewInteger(int64(i + 1)), value.NewString("value" + strconv.Itoa(i+1))}
		}
		verifTempTable(scope, "src", []string{"id", "v"}, rows)
		_, err := proc.Execute(verifCtx(), verifC02RbCreate[fi])
		verifAssert("create table", err == nil)
	} else {
		old := head
		for i := 1; i <= n; i++ {
			old += line(i, "value"+strconv.Itoa(i))
		}
		verifFileWrite(name, old)
	}
	for i := 1; i <= n; i++ {
		if shrink && i > 100 {
			break
		}
		if i == 500 {
			want += line(i, "ok")
		} else {
			want += line(i, "value"+strconv.Itoa(i))
		}
	}
	_, err := proc.Execute(verifCtx(), verifC02RbBreak[fi])
	verifAssert("the update with the unspellable value succeeds in memory", err == nil)
	_, err = proc.Execute(verifCtx(), verifC02RbCommit[fi])
	if fi == 0 {
		verifAssert("the first COMMIT is refused", err != nil)
	}
	if shrink {
		_, err = proc.Execute(verifCtx(), verifC02RbShrink[fi])
	} else {
		_, err = proc.Execute(verifCtx(), verifC02RbRepair[fi])
	}
	verifAssert("the repair succeeds", err == nil)
	_, err = proc.Execute(verifCtx(), verifC02RbCommit[fi])
	verifAssert("the second COMMIT succeeds", err == nil)
	_ = proc.AutoRollback()
	_ = proc.ReleaseResourcesWithErrors()
	got := verifFileRead(name)
	verifAssert("the file has the length of its records", len(got) == len(want))
	verifAssert("the file holds exactly its records", got == want)
	verifAssert("no control files remain", verifFileList() == name)
	verifObserve("length", int64(len(got)))
	verifReach("end")
}
