package query

//verif:property C02
//verif:pkg lib/query
//verif:setup VerifC02AlteredSetup
//verif:harness VerifC02AlteredDialect mode=bv tier=quick split=4

import (
	"github.com/mithrandie/csvq/lib/option"
	"github.com/mithrandie/csvq/lib/parser"
	"github.com/mithrandie/csvq/lib/value"
	"github.com/mithrandie/go-text"
)

var verifC02AltSrc = []string{
	"alter table t set encoding to 'utf16le';",
	"alter table t set encoding to 'utf8m';",
	"alter table t set line_break to 'crlf';",
	"alter table t set delimiter to ';';",
	"alter table t set enclose_all to true;",
	"alter table t set format to 'tsv';",
	"alter table t set format to 'ltsv';",
	"alter table t set format to 'jsonl';",
	"alter table t set encoding to 'utf16be'; alter table t set line_break to 'crlf';",
}
var verifC02AltStmts [][]parser.Statement
var verifC02AltUpd, verifC02AltCommit, verifC02AltSel []parser.Statement

func VerifC02AlteredSetup() {
	for _, s := range verifC02AltSrc {
		verifC02AltStmts = append(verifC02AltStmts, verifParse(s))
	}
	verifC02AltUpd = verifParse("update t set b = 'k' where a = '1';")
	verifC02AltCommit = verifParse("commit;")
	verifC02AltSel = verifParse("select * from t;")
}

// A table file whose attributes are changed with ALTER TABLE ... SET (encoding, line break, delimiter,
// quoting, format) in a transaction that also updates the table - before or after the ALTER - and commits
// once: the file is written entirely in the new dialect (down to its last line break) and loads under the
// matching settings with the updated records.
func VerifC02AlteredDialect() {
	verifFileWrite("t.csv", "a,b\n1,x\n2,y\n")
	ai := verifChoice("attribute", len(verifC02AltSrc))
	updateFirst := verifBool("update-first")
	tx := verifNewTx()
	tx.Flags.Quiet = true
	proc := NewProcessor(tx)
	var err error
	if updateFirst {
		_, err = proc.Execute(verifCtx(), verifC02AltUpd)
		verifAssert("update", err == nil)
	}
	_, err = proc.Execute(verifCtx(), verifC02AltStmts[ai])
	verifAssert("alter table", err == nil)
	if !updateFirst {
		_, err = proc.Execute(verifCtx(), verifC02AltUpd)
		verifAssert("update", err == nil)
	}
	_, err = proc.Execute(verifCtx(), verifC02AltCommit)
	verifAssert("commit", err == nil)
	_ = proc.AutoRollback()
	_ = proc.ReleaseResourcesWithErrors()
	want := ""
	switch ai {
	case 0:
		want = verifUTF16("a,b\n1,k\n2,y\n", false, false)
	case 1:
		want = "\xef\xbb\xbfa,b\n1,k\n2,y\n"
	case 2:
		want = "a,b\r\n1,k\r\n2,y\r\n"
	case 3:
		want = "a;b\n1;k\n2;y\n"
	case 4:
		want = "\"a\",\"b\"\n\"1\",\"k\"\n\"2\",\"y\"\n"
	case 5:
		want = "a\tb\n1\tk\n2\ty\n"
	case 6:
		want = "a:1\tb:k\na:2\tb:y\n"
	case 8:
		want = verifUTF16("a,b\r\n1,k\r\n2,y\r\n", true, false)
	}
	got := verifFileRead("t.csv")
	if ai == 7 {
		// (a JSON Lines table is written with a blank line at its end by the unchanged code; either form is accepted)
		w := "{\"a\":\"1\",\"b\":\"k\"}\n{\"a\":\"2\",\"b\":\"y\"}\n"
		verifAssert("the file is written entirely in the new dialect", got == w || got == w+"\n")
	} else {
		verifAssert("the file is written entirely in the new dialect", got == want)
	}
	if ai == 6 || ai == 7 {
		// the file keeps its name, and csvq reads a file named .csv as CSV: only the bytes are checked
		verifObserve("length", int64(len(got)))
		verifReach("end")
		return
	}
	// a fresh process with the matching settings
	tx2 := verifNewTx()
	tx2.Flags.Quiet = true
	switch ai {
	case 0:
		tx2.Flags.ImportOptions.Encoding = text.UTF16LE
	case 3:
		tx2.Flags.ImportOptions.Delimiter = ';'
	case 5:
		tx2.Flags.ImportOptions.Format = option.TSV
		tx2.Flags.ImportOptions.Delimiter = '\t'
	case 8:
		tx2.Flags.ImportOptions.Encoding = text.UTF16BE
	}
	proc2 := NewProcessor(tx2)
	_, err = proc2.Execute(ContextForStoringResults(verifCtx()), verifC02AltSel)
	verifAssert("the file loads under the matching settings", err == nil && len(tx2.SelectedViews) == 1)
	if err == nil && len(tx2.SelectedViews) == 1 {
		v := tx2.SelectedViews[0]
		verifAssert("two records of two fields", v.RecordLen() == 2 && v.FieldLen() == 2)
		if v.RecordLen() == 2 && v.FieldLen() == 2 {
			cell := func(r, c int) string {
				if s, ok := v.RecordSet[r][c][0].(*value.String); ok {
					return s.Raw()
				}
				return "?"
			}
			verifAssert("the updated records", cell(0, 0) == "1" && cell(0, 1) == "k" && cell(1, 0) == "2" && cell(1, 1) == "y")
			verifAssert("the header", v.Header[0].Column == "a" && v.Header[1].Column == "b")
		}
	}
	_ = proc2.ReleaseResourcesWithErrors()
	verifObserve("length", int64(len(got)))
	verifReach("end")
}

func verifUTF16(s string, bigEndian, bom bool) string {
	out := make([]byte, 0, 2*len(s)+2)
	for i := 0; i < len(s); i++ {
		if bigEndian {
			out = append(out, 0, s[i])
		} else {
			out = append(out, s[i], 0)
		}
	}
	return string(out)
}
