package query

//verif:property C02
//verif:pkg lib/query
//verif:setup VerifC02EncSetup
//verif:harness VerifC02KeepsEncoding mode=bv tier=quick split=6

import (
	"github.com/mithrandie/csvq/lib/parser"
	"github.com/mithrandie/csvq/lib/value"
	"github.com/mithrandie/go-text"
)

var verifC02EncUpd []parser.Statement

func VerifC02EncSetup() {
	verifC02EncUpd = verifParse("update e set b = @c where a = 1; commit;")
}

// verifC02Encode spells an ASCII text in one of the encodings csvq detects: 0 UTF-8 with a byte order
// mark, 1 UTF-16 little endian with mark, 2 UTF-16 big endian with mark, 3 UTF-16 LE, 4 UTF-16 BE (no mark).
func verifC02Encode(s string, enc int) string {
	var b []byte
	switch enc {
	case 0:
		return "\xef\xbb\xbf" + s
	case 1:
		b = append(b, 0xff, 0xfe)
	case 2:
		b = append(b, 0xfe, 0xff)
	}
	for i := 0; i < len(s); i++ {
		if enc == 1 || enc == 3 {
			b = append(b, s[i], 0)
		} else {
			b = append(b, 0, s[i])
		}
	}
	return string(b)
}

// "An updated file keeps its delimiter, encoding, line break and header convention": a CSV or TSV file
// in UTF-8 with a byte order mark or in UTF-16 (either byte order, with or without mark), with LF or
// CRLF line breaks, read with the encoding left to detection (AUTO), given generically (UTF16) or given
// exactly; one cell replaced by a symbolic letter; COMMIT.  The file afterwards is, byte for byte, the
// updated text in the same encoding with the same mark, delimiter and line breaks.
func VerifC02KeepsEncoding() {
	enc := verifChoice("encoding", 5)
	how := verifChoice("import-encoding", 3) // 0 detect, 1 generic UTF16 (where it applies), 2 exact
	tsv := verifBool("tsv")
	crlf := verifBool("crlf")
	if enc >= 3 {
		verifAssume(how == 2) // without a mark the encoding has to be given
	}
	if enc == 0 {
		verifAssume(how != 1)
	}
	d, lb, name := ",", "\n", "e.csv"
	if tsv {
		d, name = "\t", "e.tsv"
	}
	if crlf {
		lb = "\r\n"
	}
	c := verifByte("c")
	verifAssume(verifOr(c == 'p', c == 'q'))
	cell := string([]byte{c})
	before := "a" + d + "b" + lb + "1" + d + "x" + lb + "2" + d + "y" + lb
	after := "a" + d + "b" + lb + "1" + d + cell + lb + "2" + d + "y" + lb
	verifFileWrite(name, verifC02Encode(before, enc))
	tx := verifNewTx()
	tx.Flags.Quiet = true
	switch how {
	case 0:
		tx.Flags.ImportOptions.Encoding = text.AUTO
	case 1:
		tx.Flags.ImportOptions.Encoding = text.UTF16
	default:
		tx.Flags.ImportOptions.Encoding = [5]text.Encoding{text.UTF8M, text.UTF16LEM, text.UTF16BEM, text.UTF16LE, text.UTF16BE}[enc]
	}
	proc := NewProcessor(tx)
	verifVar(proc.ReferenceScope, "c", value.NewString(cell))
	_, err := proc.Execute(verifCtx(), verifC02EncUpd)
	_ = proc.AutoRollback()
	_ = proc.ReleaseResourcesWithErrors()
	verifAssert("the update is committed", err == nil)
	if err != nil {
		return
	}
	got := verifFileRead(name)
	want := verifC02Encode(after, enc)
	verifAssert("same length: encoding, mark and line breaks kept", len(got) == len(want))
	verifAssert("the file is the updated text in the file's own encoding", got == want)
	verifObserve("bytes", int64(len(got)))
	verifReach("end")
}
