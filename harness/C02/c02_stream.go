package query

//verif:property C02
//verif:pkg lib/query
//verif:setup VerifC02StreamSetup
//verif:harness VerifC02ResultStream mode=bv tier=quick split=12

import (
	"bytes"

	"github.com/mithrandie/csvq/lib/option"
	"github.com/mithrandie/csvq/lib/parser"
	"github.com/mithrandie/csvq/lib/value"
	"github.com/mithrandie/go-text"
)

var verifC02StreamSel []parser.Statement
var verifC02StreamLoad [6][]parser.Statement
var verifC02StreamFile = [6]string{"o.csv", "o.tsv", "o.ltsv", "o.json", "o.jsonl", "o.txt"}

func VerifC02StreamSetup() {
	verifC02StreamSel = verifParse("select c1, c2 from t;")
	for i, f := range verifC02StreamFile {
		name := "`" + f + "`"
		if i == 5 {
			name = "fixed('spaces', `o.txt`)"
		}
		verifC02StreamLoad[i] = verifParse("select * from " + name + ";")
	}
}

// The result stream (what csvq writes to --out or to standard output for a SELECT) in each of the six
// re-readable formats: a two-column, two-record result whose first record holds NULLs or texts of 0..1
// (2) symbolic bytes over the special characters is encoded by the real statement path (EncodeView
// and the ending line break) with --line-break LF, CRLF or CR, --enclose-all and --without-header on or
// off; the bytes, stored as a file, load again under the same settings (--no-header where the header
// was left out) with the same records, fields, header and cell texts - or the SELECT reports an error.
func VerifC02ResultStream() {
	format := verifChoice("format", 6)
	a, ta, na := verifC02StreamCell("a", 1, 2)
	b, tb, nb := verifC02StreamCell("b", 1, 2)
	if format == 5 {
		// the automatic layout is read back with delimiter positions 'SPACES': blanks inside or around a
		// text are layout there, and an empty field has no spelling (outside this harness)
		for _, c := range []byte(ta + tb) {
			verifAssume(c != ' ' && c != '\t')
		}
		verifAssume(!na && !nb && len(ta) > 0 && len(tb) > 0)
	}
	lb := verifChoice("line-break", 3) // LF, CRLF, CR
	encloseAll := (format == 0 || format == 1) && verifBool("enclose-all")
	withoutHeader := (format == 0 || format == 1) && verifBool("without-header")
	// the stream in UTF-8, or (CSV, TSV, LTSV, fixed-length) in UTF-16 little endian
	utf16 := format != 3 && format != 4 && verifBool("utf16")

	tx := verifNewTx()
	tx.Flags.Quiet = true
	tx.Flags.ExportOptions.Format = [6]option.Format{option.CSV, option.TSV, option.LTSV, option.JSON, option.JSONL, option.FIXED}[format]
	if format == 1 {
		tx.Flags.ExportOptions.Delimiter = '\t'
	}
	switch lb {
	case 1:
		tx.Flags.ExportOptions.LineBreak = text.CRLF
	case 2:
		tx.Flags.ExportOptions.LineBreak = text.CR
	}
	tx.Flags.ExportOptions.EncloseAll = encloseAll
	if utf16 {
		tx.Flags.ExportOptions.Encoding = text.UTF16LE
	}
	tx.Flags.ExportOptions.WithoutHeader = withoutHeader
	out := &bytes.Buffer{}
	tx.Session.SetOutFile(out)
	proc := NewProcessor(tx)
	verifTempTable(proc.ReferenceScope, "t", []string{"c1", "c2"}, [][]value.Primary{{a, b}, {value.NewString("k"), value.NewString("z")}})
	_, err := proc.Execute(verifCtx(), verifC02StreamSel)
	_ = proc.ReleaseResourcesWithErrors()
	if err != nil {
		verifReach("refused")
		return
	}
	verifFileWrite(verifC02StreamFile[format], out.String())

	tx2 := verifNewTx()
	tx2.Flags.Quiet = true
	tx2.Flags.ImportOptions.NoHeader = withoutHeader
	if utf16 {
		tx2.Flags.ImportOptions.Encoding = text.UTF16LE
	}
	proc2 := NewProcessor(tx2)
	_, err = proc2.Execute(ContextForStoringResults(verifCtx()), verifC02StreamLoad[format])
	verifAssert("the written stream loads", err == nil && len(tx2.SelectedViews) == 1)
	if err != nil || len(tx2.SelectedViews) != 1 {
		return
	}
	v := tx2.SelectedViews[0]
	verifAssert("same number of records", v.RecordLen() == 2)
	verifAssert("same number of fields", v.FieldLen() == 2)
	// with --enclose-all (NULL is the bare empty field, the empty text is "") and in JSON (null, "") the
	// format has a spelling of its own for each: they must not coincide
	twoSpellings := encloseAll || format == 3 || format == 4
	same := func(p value.Primary, text string, isNull bool) bool {
		if twoSpellings && value.IsNull(p) != isNull {
			return false
		}
		if value.IsNull(p) {
			return isNull || text == ""
		}
		s, ok := p.(*value.String)
		if !ok {
			return false
		}
		if isNull {
			return s.Raw() == ""
		}
		return s.Raw() == text
	}
	if v.RecordLen() == 2 && v.FieldLen() == 2 {
		if !withoutHeader {
			verifAssert("same header", v.Header[0].Column == "c1" && v.Header[1].Column == "c2")
		}
		verifAssert("cell (1,1) reads back", same(v.RecordSet[0][0][0], ta, na))
		verifAssert("cell (1,2) reads back", same(v.RecordSet[0][1][0], tb, nb))
		verifAssert("cell (2,1) reads back", same(v.RecordSet[1][0][0], "k", false))
		verifAssert("cell (2,2) reads back", same(v.RecordSet[1][1][0], "z", false))
	}
	_ = proc2.ReleaseResourcesWithErrors()
	verifObserve("records", int64(v.RecordLen()))
	verifReach("end")
}

// NULL, or a text of 0..quickLen (thoroughLen) symbolic bytes over the characters the formats treat
// specially plus representatives of ordinary text.
func verifC02StreamCell(tag string, quickLen, thoroughLen int) (value.Primary, string, bool) {
	if verifBool(tag + ".null") {
		return value.NewNull(), "", true
	}
	n := verifChoice(tag+".len", verifBound(quickLen+1, thoroughLen+1))
	b := make([]byte, n)
	for i := range b {
		c := verifByte(tag)
		ok := verifOr(verifOr(verifOr(c == ',', c == '"'), verifOr(c == '\n', c == '\r')), verifOr(verifOr(c == '\t', c == ':'), verifOr(verifOr(c == ' ', c == 'a'), verifOr(c == '\\', c == '1'))))
		verifAssume(ok)
		b[i] = c
	}
	return value.NewString(string(b)), string(b), false
}
