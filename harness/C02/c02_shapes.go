package query

//verif:property C02
//verif:pkg lib/query
//verif:setup VerifC02ShapesSetup
//verif:harness VerifC02UpdatedShapes mode=bv tier=quick split=4
//verif:setup VerifC02OneColumnSetup
//verif:harness VerifC02OneColumnFormats mode=bv tier=quick split=4

import (
	"github.com/mithrandie/csvq/lib/parser"
	"github.com/mithrandie/csvq/lib/value"
)

// Table files in the shapes other tools leave them in - no line break after the only line, no line
// break at the end, CRLF, every field quoted (with an empty text among them), TAB or ';' as the
// delimiter, no header line - are changed by INSERT and COMMIT: the file afterwards has the old records
// followed by the new ones, the same header, its own delimiter / line break / quoting convention on
// every line, and loads under the same settings with exactly those records and fields; an empty text
// in a file that quotes every field stays an empty text (NULL has its own spelling there).
type verifC02Shape struct {
	file, old, want string
	noHeader        bool
	delimiter       rune
	cols            int
	cells           []string // expected cells row by row; "\x00" = NULL
}

var verifC02Shapes = []verifC02Shape{
	{"s.csv", "a,b", "a,b\n1,2\n3,4\n", false, 0, 2, []string{"1", "2", "3", "4"}},
	{"s.csv", "a,b\n", "a,b\n1,2\n3,4\n", false, 0, 2, []string{"1", "2", "3", "4"}},
	{"s.csv", "a,b\r\n1,x", "a,b\r\n1,x\r\n1,2\r\n3,4\r\n", false, 0, 2, []string{"1", "x", "1", "2", "3", "4"}},
	{"s.csv", "\"a\",\"b\"\n\"1\",\"\"\n\"y\",\n", "\"a\",\"b\"\n\"1\",\"\"\n\"y\",\n\"1\",\"2\"\n\"3\",\"4\"\n", false, 0, 2, []string{"1", "", "y", "\x00", "1", "2", "3", "4"}},
	{"s.tsv", "a\tb", "a\tb\n1\t2\n3\t4\n", false, 0, 2, []string{"1", "2", "3", "4"}},
	{"s.csv", "p,q", "p,q\n1,2\n3,4\n", true, 0, 2, []string{"p", "q", "1", "2", "3", "4"}},
	{"s.csv", "a;b\n1;x\n", "a;b\n1;x\n1;2\n3;4\n", false, ';', 2, []string{"1", "x", "1", "2", "3", "4"}},
	{"s.csv", "a,b\n\"p,q\",\n", "a,b\n\"p,q\",\n1,2\n3,4\n", false, 0, 2, []string{"p,q", "\x00", "1", "2", "3", "4"}},
	{"s.csv", "a,b\r\n", "a,b\r\n1,2\r\n3,4\r\n", false, 0, 2, []string{"1", "2", "3", "4"}},
	{"s.tsv", "a\tb\r\n1\tx\r\n", "a\tb\r\n1\tx\r\n1\t2\r\n3\t4\r\n", false, 0, 2, []string{"1", "x", "1", "2", "3", "4"}},
	// LTSV has no header line: the line break is seen on the first record
	{"s.ltsv", "a:1\tb:x\r\n", "a:1\tb:x\r\na:1\tb:2\r\na:3\tb:4\r\n", false, 0, 2, []string{"1", "x", "1", "2", "3", "4"}},
	{"s.ltsv", "a:1\tb:x\n", "a:1\tb:x\na:1\tb:2\na:3\tb:4\n", false, 0, 2, []string{"1", "x", "1", "2", "3", "4"}},
	{"s.ltsv", "a:1\tb:x", "a:1\tb:x\na:1\tb:2\na:3\tb:4\n", false, 0, 2, []string{"1", "x", "1", "2", "3", "4"}},
	{"s.ltsv", "a:1\tb:x\r\na:5\tb:\r\n", "a:1\tb:x\r\na:5\tb:\r\na:1\tb:2\r\na:3\tb:4\r\n", false, 0, 2, []string{"1", "x", "5", "\x00", "1", "2", "3", "4"}},
}
var verifC02ShapeIns, verifC02ShapeSel [3][]parser.Statement

func VerifC02ShapesSetup() {
	for i, n := range []string{"`s.csv`", "`s.tsv`", "`s.ltsv`"} {
		verifC02ShapeIns[i] = verifParse("insert into " + n + " values ('1', '2'), ('3', '4'); commit;")
		verifC02ShapeSel[i] = verifParse("select * from " + n + ";")
	}
}

func VerifC02UpdatedShapes() {
	si := verifChoice("shape", len(verifC02Shapes))
	sh := verifC02Shapes[si]
	fi := 0
	if sh.file == "s.tsv" {
		fi = 1
	} else if sh.file == "s.ltsv" {
		fi = 2
	}
	verifFileWrite(sh.file, sh.old)
	run := func(stmts []parser.Statement, keep bool) (*Transaction, error) {
		tx := verifNewTx()
		tx.Flags.Quiet = true
		tx.Flags.ImportOptions.NoHeader = sh.noHeader
		if sh.delimiter != 0 {
			tx.Flags.ImportOptions.Delimiter = sh.delimiter
		}
		proc := NewProcessor(tx)
		ctx := verifCtx()
		if keep {
			ctx = ContextForStoringResults(ctx)
		}
		_, err := proc.Execute(ctx, stmts)
		_ = proc.AutoRollback()
		_ = proc.ReleaseResourcesWithErrors()
		return tx, err
	}
	_, err := run(verifC02ShapeIns[fi], false)
	verifAssert("the insert and its commit succeed", err == nil)
	verifAssert("the file is the old table plus the new records in its own dialect", verifFileRead(sh.file) == sh.want)
	tx2, err := run(verifC02ShapeSel[fi], true)
	verifAssert("the updated table loads", err == nil && len(tx2.SelectedViews) == 1)
	if err != nil || len(tx2.SelectedViews) != 1 {
		return
	}
	v := tx2.SelectedViews[0]
	verifAssert("fields as before", v.FieldLen() == sh.cols)
	verifAssert("old records plus the inserted ones", v.RecordLen()*sh.cols == len(sh.cells))
	if v.FieldLen() == sh.cols && v.RecordLen()*sh.cols == len(sh.cells) {
		for r := 0; r < v.RecordLen(); r++ {
			for c := 0; c < sh.cols; c++ {
				want := sh.cells[r*sh.cols+c]
				p := v.RecordSet[r][c][0]
				if want == "\x00" {
					verifAssert("a NULL cell reads back as NULL", value.IsNull(p))
				} else {
					s, ok := p.(*value.String)
					verifAssert("a text cell reads back as the same text", ok && s.Raw() == want)
				}
			}
		}
		if !sh.noHeader {
			verifAssert("header as before", v.Header[0].Column == "a" && v.Header[1].Column == "b")
		}
	}
	verifAssert("no control files remain", verifFileList() == sh.file)
	verifObserve("records", int64(v.RecordLen()))
	verifReach("end")
}

var verifC02OneCreate, verifC02OneInsert, verifC02OneSelect [4][]parser.Statement
var verifC02OneFile = [4]string{"y.tsv", "y.ltsv", "y.json", "y.jsonl"}

func VerifC02OneColumnSetup() {
	for i, f := range verifC02OneFile {
		verifC02OneCreate[i] = verifParse("create table `" + f + "` (c1);")
		verifC02OneInsert[i] = verifParse("insert into `" + f + "` values ('k'), (@a), ('z'); commit;")
		verifC02OneSelect[i] = verifParse("select c1 from `" + f + "`;")
	}
}

// A table with a single column in TSV, LTSV, JSON and JSON Lines (a record is then a bare line or a
// one-member object): three records, the middle one NULL, empty or one character, are written by
// COMMIT and read back by a fresh process.
func VerifC02OneColumnFormats() {
	format := verifChoice("format", 4)
	menu := []string{"\x00", "", "a", "1", " "}
	ta := menu[verifChoice("cell", len(menu))]
	var a value.Primary = value.NewNull()
	if ta != "\x00" {
		a = value.NewString(ta)
	}
	tx := verifNewTx()
	tx.Flags.Quiet = true
	proc := NewProcessor(tx)
	verifVar(proc.ReferenceScope, "a", a)
	_, err := proc.Execute(verifCtx(), verifC02OneCreate[format])
	verifAssert("create table", err == nil)
	_, err = proc.Execute(verifCtx(), verifC02OneInsert[format])
	_ = proc.AutoRollback()
	_ = proc.ReleaseResourcesWithErrors()
	if err != nil {
		verifAssert("a refused write leaves no table behind", !verifFileExists(verifC02OneFile[format]))
		verifReach("refused")
		return
	}
	tx2 := verifNewTx()
	tx2.Flags.Quiet = true
	proc2 := NewProcessor(tx2)
	_, err = proc2.Execute(ContextForStoringResults(verifCtx()), verifC02OneSelect[format])
	verifAssert("the written one-column table loads", err == nil && len(tx2.SelectedViews) == 1)
	if err != nil || len(tx2.SelectedViews) != 1 {
		return
	}
	v := tx2.SelectedViews[0]
	verifAssert("the one-column table has its three records", v.RecordLen() == 3)
	if v.RecordLen() == 3 {
		p := v.RecordSet[1][0][0]
		if value.IsNull(p) {
			verifAssert("NULL or empty text reads back as NULL", ta == "\x00" || ta == "")
		} else {
			s, ok := p.(*value.String)
			verifAssert("the cell reads back", ok && ((ta == "\x00" && s.Raw() == "") || s.Raw() == ta))
		}
		k, ok := v.RecordSet[0][0][0].(*value.String)
		verifAssert("the first record reads back", ok && k.Raw() == "k")
	}
	verifObserve("records", int64(v.RecordLen()))
	verifReach("end")
}
