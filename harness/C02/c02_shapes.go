package query

//verif:property C02
//verif:pkg lib/query
//verif:setup VerifC02ShapesSetup
//verif:harness VerifC02UpdatedShapes mode=bv tier=quick split=4

import (
	"github.com/mithrandie/csvq/lib/parser"
	"github.com/mithrandie/csvq/lib/value"
)

// Table files in the shapes other tools leave them in - no line break after the only line, no line
// break at the end, CRLF, every field quoted (with an empty text among them), TAB or ';' as the
// delimiter, no header line - are changed by INSERT and COMMIT: the file afterwards has the old records
// followed by the new ones, the same header, its own delimiter / line break / quoting convention on
// every line, and loads under the same settings with exactly those records and fields; an empty text
// in a file that quotes every field stays an empty text (NULL has its own spelling there).
type verifC02Shape struct {
	file, old, want string
	noHeader        bool
	delimiter       rune
	cols            int
	cells           []string // expected cells row by row; "\x00" = NULL
}

var verifC02Shapes = []verifC02Shape{
	{"s.csv", "a,b", "a,b\n1,2\n3,4\n", false, 0, 2, []string{"1", "2", "3", "4"}},
	{"s.csv", "a,b\n", "a,b\n1,2\n3,4\n", false, 0, 2, []string{"1", "2", "3", "4"}},
	{"s.csv", "a,b\r\n1,x", "a,b\r\n1,x\r\n1,2\r\n3,4\r\n", false, 0, 2, []string{"1", "x", "1", "2", "3", "4"}},
	{"s.csv", "\"a\",\"b\"\n\"1\",\"\"\n\"y\",\n", "\"a\",\"b\"\n\"1\",\"\"\n\"y\",\n\"1\",\"2\"\n\"3\",\"4\"\n", false, 0, 2, []string{"1", "", "y", "\x00", "1", "2", "3", "4"}},
	{"s.tsv", "a\tb", "a\tb\n1\t2\n3\t4\n", false, 0, 2, []string{"1", "2", "3", "4"}},
	{"s.csv", "p,q", "p,q\n1,2\n3,4\n", true, 0, 2, []string{"p", "q", "1", "2", "3", "4"}},
	{"s.csv", "a;b\n1;x\n", "a;b\n1;x\n1;2\n3;4\n", false, ';', 2, []string{"1", "x", "1", "2", "3", "4"}},
	{"s.csv", "a,b\n\"p,q\",\n", "a,b\n\"p,q\",\n1,2\n3,4\n", false, 0, 2, []string{"p,q", "\x00", "1", "2", "3", "4"}},
	{"s.csv", "a,b\r\n", "a,b\r\n1,2\r\n3,4\r\n", false, 0, 2, []string{"1", "2", "3", "4"}},
	{"s.tsv", "a\tb\r\n1\tx\r\n", "a\tb\r\n1\tx\r\n1\t2\r\n3\t4\r\n", false, 0, 2, []string{"1", "x", "1", "2", "3", "4"}},
}
var verifC02ShapeIns, verifC02ShapeSel [2][]parser.Statement

func VerifC02ShapesSetup() {
	for i, n := range []string{"`s.csv`", "`s.tsv`"} {
		verifC02ShapeIns[i] = verifParse("insert into " + n + " values ('1', '2'), ('3', '4'); commit;")
		verifC02ShapeSel[i] = verifParse("select * from " + n + ";")
	}
}

func VerifC02UpdatedShapes() {
	si := verifChoice("shape", len(verifC02Shapes))
	sh := verifC02Shapes[si]
	fi := 0
	if sh.file == "s.tsv" {
		fi = 1
	}
	verifFileWrite(sh.file, sh.old)
	run := func(stmts []parser.Statement, keep bool) (*Transaction, error) {
		tx := verifNewTx()
		tx.Flags.Quiet = true
		tx.Flags.ImportOptions.NoHeader = sh.noHeader
		if sh.delimiter != 0 {
			tx.Flags.ImportOptions.Delimiter = sh.delimiter
		}
		proc := NewProcessor(tx)
		ctx := verifCtx()
		if keep {
			ctx = ContextForStoringResults(ctx)
		}
		_, err := proc.Execute(ctx, stmts)
		_ = proc.AutoRollback()
		_ = proc.ReleaseResourcesWithErrors()
		return tx, err
	}
	_, err := run(verifC02ShapeIns[fi], false)
	verifAssert("the insert and its commit succeed", err == nil)
	verifAssert("the file is the old table plus the new records in its own dialect", verifFileRead(sh.file) == sh.want)
	tx2, err := run(verifC02ShapeSel[fi], true)
	verifAssert("the updated table loads", err == nil && len(tx2.SelectedViews) == 1)
	if err != nil || len(tx2.SelectedViews) != 1 {
		return
	}
	v := tx2.SelectedViews[0]
	verifAssert("fields as before", v.FieldLen() == sh.cols)
	verifAssert("old records plus the inserted ones", v.RecordLen()*sh.cols == len(sh.cells))
	if v.FieldLen() == sh.cols && v.RecordLen()*sh.cols == len(sh.cells) {
		for r := 0; r < v.RecordLen(); r++ {
			for c := 0; c < sh.cols; c++ {
				want := sh.cells[r*sh.cols+c]
				p := v.RecordSet[r][c][0]
				if want == "\x00" {
					verifAssert("a NULL cell reads back as NULL", value.IsNull(p))
				} else {
					s, ok := p.(*value.String)
					verifAssert("a text cell reads back as the same text", ok && s.Raw() == want)
				}
			}
		}
		if !sh.noHeader {
			verifAssert("header as before", v.Header[0].Column == "a" && v.Header[1].Column == "b")
		}
	}
	verifAssert("no control files remain", verifFileList() == sh.file)
	verifReach("end")
}
