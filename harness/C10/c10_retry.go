package query

//verif:property C10
//verif:pkg lib/query
//verif:setup VerifC10RetrySetup
//verif:harness VerifC10CrashInRetriedCommit mode=bv tier=quick split=4

import (
	"github.com/mithrandie/csvq/lib/parser"
)

var verifC10RetryLong, verifC10RetryShort, verifC10RetryCommit []parser.Statement

func VerifC10RetrySetup() {
	verifC10RetryLong = verifParse("update t set v = 'a-rather-long-text-that-is-written-first' where id = 1;")
	verifC10RetryShort = verifParse("update t set v = 's' where id = 1; delete from t where id = 2;")
	verifC10RetryCommit = verifParse("commit;")
}

// COMMIT is not always the first COMMIT: in one transaction a COMMIT of a longer version of the table is
// refused half-way (disk full: a file size limit of 8 / 20 / 30 bytes cuts the write), the room comes
// back, the transaction shortens the table and commits again - and the process dies at any file-system
// step of that second COMMIT (or at none).  After the refused COMMIT the table is byte for byte the old
// one; afterwards it is complete: old, or exactly the short new version (nothing of the refused
// attempt behind it); a completed COMMIT installs the new version.
func VerifC10CrashInRetriedCommit() {
	old := "id,v\n1,a\n2,b\n"
	verifFileWrite("t.csv", old)
	limit := [3]int{8, 20, 30}[verifChoice("limit", 3)]
	tx := verifNewTx()
	tx.Flags.Quiet = true
	proc := NewProcessor(tx)
	_, err := proc.Execute(verifCtx(), verifC10RetryLong)
	verifAssert("the first update runs", err == nil)
	verifFileSizeLimit(limit)
	_, err = proc.Execute(verifCtx(), verifC10RetryCommit)
	verifFileSizeLimit(-1)
	verifAssert("the COMMIT that does not fit is refused", err != nil)
	verifAssert("a refused COMMIT leaves the table as it was", verifFileRead("t.csv") == old)
	_, err = proc.Execute(verifCtx(), verifC10RetryShort)
	verifAssert("the transaction goes on", err == nil)
	crashed := verifCrashable(func() {
		_, err := proc.Execute(verifCtx(), verifC10RetryCommit)
		verifAssert("the second COMMIT succeeds", err == nil)
		_ = proc.AutoRollback()
		_ = proc.ReleaseResourcesWithErrors()
	})
	want := "id,v\n1,s\n"
	got := verifFileRead("t.csv")
	verifAssert("t.csv still exists at its path", verifFileExists("t.csv"))
	verifAssert("t.csv is complete: old or new", got == old || got == want)
	if !crashed {
		verifAssert("a completed COMMIT installs the new version", got == want)
		verifAssert("no control files remain", verifFileList() == "t.csv")
	}
	verifObserveBool("crashed", crashed)
	verifReach("end")
}
