package query

//verif:property C10
//verif:pkg lib/query
//verif:setup VerifC10Setup
//verif:harness VerifC10CrashInTransaction mode=bv tier=quick split=4

import (
	"strings"

	"github.com/mithrandie/csvq/lib/parser"
	"github.com/mithrandie/csvq/lib/value"
)

var verifC10Prog, verifC10Sel []parser.Statement

func VerifC10Setup() {
	verifC10Prog = verifParse("update t set v = @c where id = 1; insert into u values (@c); create table `n.csv` (c1); insert into `n.csv` values (@c); commit;")
	verifC10Sel = verifParse("select id, v from t; select k from u;")
}

// The whole path of a real transaction - UPDATE of one table, INSERT into a second, CREATE of a
// third, COMMIT through Transaction.Commit, the encoders and lib/file - with the process dying at
// any of its file-system steps (none, or the k-th; chosen by the engine) and a symbolic new cell of
// 0..2 bytes (thorough 0..3): each table that existed before still exists and holds its complete old
// or complete new bytes; after deleting the hidden control files both tables load again.
func VerifC10CrashInTransaction() {
	oldT, oldU := "id,v\n1,a\n2,b\n", "k\nx\n"
	verifFileWrite("t.csv", oldT)
	verifFileWrite("u.csv", oldU)
	n := verifChoice("c.len", verifBound(3, 4))
	b := make([]byte, n)
	for i := range b {
		c := verifByte("c")
		verifAssume(verifOr(c == 'p', c == 'q'))
		b[i] = c
	}
	cell := string(b)
	crashed := verifCrashable(func() {
		tx := verifNewTx()
		tx.Flags.Quiet = true
		proc := NewProcessor(tx)
		verifVar(proc.ReferenceScope, "c", value.NewString(cell))
		_, err := proc.Execute(verifCtx(), verifC10Prog)
		verifAssert("the transaction runs", err == nil)
		_ = proc.AutoRollback()
		_ = proc.ReleaseResourcesWithErrors()
	})
	newT, newU := "id,v\n1,"+cell+"\n2,b\n", "k\nx\n"+cell+"\n"
	verifAssert("t.csv still exists at its path", verifFileExists("t.csv"))
	verifAssert("u.csv still exists at its path", verifFileExists("u.csv"))
	gotT, gotU := verifFileRead("t.csv"), verifFileRead("u.csv")
	verifAssert("t.csv is complete: old or new", gotT == oldT || gotT == newT)
	verifAssert("u.csv is complete: old or new", gotU == oldU || gotU == newU)
	if !crashed {
		verifAssert("a completed commit installs the new contents", gotT == newT && gotU == newU)
	}
	// what the manual instructs after a crash: delete the hidden control files
	for _, f := range strings.Split(verifFileList(), "\n") {
		if strings.HasPrefix(f, ".") {
			verifFileRemove(f)
		}
	}
	tx2 := verifNewTx()
	tx2.Flags.Quiet = true
	proc2 := NewProcessor(tx2)
	_, err := proc2.Execute(ContextForStoringResults(verifCtx()), verifC10Sel)
	verifAssert("both tables are usable again", err == nil)
	_ = proc2.ReleaseResourcesWithErrors()
	verifObserveBool("crashed", crashed)
	verifReach("end")
}
