package query

//verif:property C10
//verif:pkg lib/query
//verif:setup VerifC10FullSetup
//verif:harness VerifC10DiskFull mode=bv tier=quick split=5

import (
	"strings"

	"github.com/mithrandie/csvq/lib/parser"
	"github.com/mithrandie/csvq/lib/value"
)

var verifC10FullProg, verifC10FullSel [6][]parser.Statement
var verifC10FullFile = [6]string{"t.csv", "t.tsv", "t.ltsv", "t.json", "t.jsonl", "t.txt"}
var verifC10FullOld = [6]string{
	"id,v\n1,a\n2,b\n",
	"id\tv\n1\ta\n2\tb\n",
	"id:1\tv:a\nid:2\tv:b\n",
	"[{\"id\":\"1\",\"v\":\"a\"},{\"id\":\"2\",\"v\":\"b\"}]\n",
	"{\"id\":\"1\",\"v\":\"a\"}\n{\"id\":\"2\",\"v\":\"b\"}\n",
	"idv \n1 a \n2 b \n",
}

func VerifC10FullSetup() {
	for i, f := range verifC10FullFile {
		name := "`" + f + "`"
		if i == 5 {
			name = "fixed('[2, 4]', `t.txt`)"
		}
		verifC10FullProg[i] = verifParse("update " + name + " set v = @c where id = 2; commit;")
		verifC10FullSel[i] = verifParse("select id, v from " + name + ";")
	}
}

// The new version of a table cannot be written because the disk is full (modelled, and replayed
// natively, as a file size limit: every write that would grow a file beyond k bytes is cut there and
// fails): for each of the six table formats, with the limit at 0, 4, 11 bytes or out of reach, with
// and without --strip-ending-line-break, and a new cell of one symbolic byte, COMMIT either reports the failure and the table file holds its
// complete previous contents, or succeeds and the table reloads complete with the new cell.  Nothing
// in between: no truncated or mixed file under a COMMIT that claimed success.
func VerifC10DiskFull() {
	format := verifChoice("format", 6)
	file, old := verifC10FullFile[format], verifC10FullOld[format]
	verifFileWrite(file, old)
	c := verifByte("c")
	verifAssume(verifOr(c == 'p', c == 'q'))
	cell := string([]byte{c})
	limit := [4]int{0, 4, 11, 4096}[verifChoice("limit", 4)]
	tx := verifNewTx()
	tx.Flags.Quiet = true
	// with --strip-ending-line-break the encoder's last flush is the last write of the COMMIT
	strip := verifBool("strip-ending-line-break")
	tx.Flags.ExportOptions.StripEndingLineBreak = strip
	proc := NewProcessor(tx)
	verifVar(proc.ReferenceScope, "c", value.NewString(cell))
	verifFileSizeLimit(limit)
	_, err := proc.Execute(verifCtx(), verifC10FullProg[format])
	_ = proc.AutoRollback()
	_ = proc.ReleaseResourcesWithErrors()
	verifFileSizeLimit(-1)
	verifAssert("the table still exists at its path", verifFileExists(file))
	got := verifFileRead(file)
	if err != nil {
		verifAssert("a COMMIT that failed leaves the complete previous contents", got == old)
		verifReach("refused")
	} else {
		verifAssert("room for the whole file was needed for success", limit >= len(old)-1)
	}
	for _, f := range strings.Split(verifFileList(), "\n") {
		verifAssert("no control file is left", !strings.HasPrefix(f, "."))
	}
	tx2 := verifNewTx()
	tx2.Flags.Quiet = true
	proc2 := NewProcessor(tx2)
	_, err2 := proc2.Execute(ContextForStoringResults(verifCtx()), verifC10FullSel[format])
	verifAssert("the table loads", err2 == nil && len(tx2.SelectedViews) == 1)
	if err2 == nil && len(tx2.SelectedViews) == 1 {
		v := tx2.SelectedViews[0]
		verifAssert("the table is complete", v.RecordLen() == 2 && v.FieldLen() == 2)
		if v.RecordLen() == 2 && v.FieldLen() == 2 {
			s, ok := v.RecordSet[1][1][0].(*value.String)
			want := "b"
			if err == nil {
				want = cell
			}
			verifAssert("the cell is the old one after a failure, the new one after a success", ok && s.Raw() == want)
			s0, ok0 := v.RecordSet[0][1][0].(*value.String)
			verifAssert("the other record is intact", ok0 && s0.Raw() == "a")
		}
	}
	_ = proc2.ReleaseResourcesWithErrors()
	verifObserveBool("committed", err == nil)
	verifReach("end")
}
