package file

//verif:property C10
//verif:pkg lib/file
//verif:harness VerifC10CrashInCommit mode=bv tier=quick replay=engine

import "time"

// A process that dies at any file-system operation of Handler.commit (after the new contents were
// written to the temporary file in up to 2 chunks) leaves the table at its path with complete old
// or complete new contents; after deleting the hidden control files the table is usable.
func VerifC10CrashInCommit() {
	verifFileWrite("t.csv", "OLD-CONTENT")
	ctx := verifNewCtx(true)
	c := NewContainer()
	h, err := c.CreateHandlerForUpdate(ctx, "t.csv", time.Second, time.Millisecond)
	verifAssert("open for update succeeds", err == nil)
	crashed := verifCrashable(func() {
		fp, e := h.FileForUpdate()
		if e != nil {
			return
		}
		_ = fp.Truncate(0)
		_, _ = fp.Seek(0, 0)
		_, _ = fp.Write([]byte("NEW-"))
		_, _ = fp.Write([]byte("CONTENT!"))
		_ = c.Commit(h)
	})
	verifAssert("the table still exists at its path", verifFileExists("t.csv"))
	got := verifFileRead("t.csv")
	verifAssert("contents are complete: old or new", got == "OLD-CONTENT" || got == "NEW-CONTENT!")
	if !crashed {
		verifAssert("a completed commit installs the new contents", got == "NEW-CONTENT!")
		verifAssert("a completed commit leaves no control files", verifControlFilesLeft() == 0)
	}
	verifObserveBool("crashed", crashed)
	verifReach("end")
}
