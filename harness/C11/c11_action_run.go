package action

//verif:property C11
//verif:pkg lib/action
//verif:harness VerifC11RunOutFile mode=bv tier=quick split=4

import (
	"context"
	"os"
	"strings"

	csvqfile "github.com/mithrandie/csvq/lib/file"
	"github.com/mithrandie/csvq/lib/query"
)

// programs as `csvq [--out FILE] "<program>"` runs them through action.Run; `wrote` says whether a
// SELECT result reaches the --out file, `fails` whether the run ends with an error, `updated`
// whether t.csv holds the updated cell afterwards (auto-commit at a normal end only).
var verifC11RunPrograms = []struct {
	src                    string
	wrote, fails, updated bool
}{
	{"select 1 as one;", true, false, false},
	{"chdir 'sub'; select 1 as one;", true, false, false},
	{"chdir 'sub';", false, false, false},
	{"chdir 'sub'; select nosuch from `u.csv`;", false, true, false},
	{"update t set b = 3;", false, false, true},
	{"update t set b = 3; chdir 'sub'; select nosuch from `u.csv`;", false, true, false},
	{"update t set b = 3; select a from t; chdir 'sub';", true, false, true},
	{"chdir 'sub'; chdir '..'; update t set b = 3;", false, false, true},
	{"select 1 as one from t for update; chdir 'sub'; select nosuch;", true, true, false},
	{"create table `sub/n.csv` (c1); chdir 'sub'; select nosuch;", false, true, false},
	{"chdir 'sub'; update u set a = 2; select 1 +;", false, true, false},
	{"var @x := 1; chdir 'nowhere';", false, true, false},
}

// VerifC11RunOutFile: the real action.Run (parse, --out file creation, AutoCommit, Execute, deferred
// removal of an empty --out file) followed by what commandAction defers (AutoRollback,
// ReleaseResourcesWithErrors) on the modelled file system, with the --out file given by a relative or an
// absolute path, in the start directory or a sub-directory, and programs that change the working
// directory.  Afterwards: no control file anywhere, an --out file exists exactly when a result was
// written to it (at the place the path named when csvq started), a name that existed is refused and
// left alone, and t.csv holds the update exactly when the run ended normally.
func VerifC11RunOutFile() {
	const oldT = "a,b\n1,2\n"
	const oldU = "a\n1\n"
	verifFileWrite("t.csv", oldT)
	verifFileWrite("sub/u.csv", oldU)
	start, _ := os.Getwd()

	pi := verifChoice("program", len(verifC11RunPrograms))
	p := verifC11RunPrograms[pi]
	outKind := verifChoice("out", 5) // 0 none, 1 relative, 2 relative in sub, 3 absolute, 4 relative and already there
	out := ""
	switch outKind {
	case 1:
		out = "o.txt"
	case 2:
		out = "sub/o.txt"
	case 3:
		out = start + "/o.txt"
	case 4:
		out = "o.txt"
		verifFileWrite("o.txt", "mine\n")
	}

	// a home directory without csvq configuration files
	_ = os.Setenv("HOME", start+"/home")
	_ = os.Unsetenv("XDG_CONFIG_HOME")
	ctx := context.Background()
	session := query.NewSession()
	session.SetStdout(query.NewDiscard())
	session.SetStderr(query.NewDiscard())
	tx, err := query.NewTransaction(ctx, csvqfile.DefaultWaitTimeout, csvqfile.DefaultRetryDelay, session)
	verifAssert("transaction", err == nil)
	if err != nil {
		return
	}
	tx.Flags.SetQuiet(true)
	proc := query.NewProcessor(tx)

	err = Run(ctx, proc, p.src, "", out)
	e1 := proc.AutoRollback()
	e2 := proc.ReleaseResourcesWithErrors()
	verifAssert("rollback and release succeed", e1 == nil && e2 == nil)
	_ = os.Chdir(start)

	if outKind == 4 {
		verifAssert("an existing --out file is refused", err != nil)
		verifAssert("the existing --out file is left alone", verifFileRead("o.txt") == "mine\n")
		verifAssert("nothing ran", verifFileRead("t.csv") == oldT && verifFileRead("sub/u.csv") == oldU)
		verifAssert("no other file appeared", verifFileList() == "o.txt\nt.csv\nu.csv")
		verifReach("refused")
		return
	}
	verifAssert("the run fails exactly when the program does", (err != nil) == p.fails)
	if p.updated {
		verifAssert("normal end: the update is committed", verifFileRead("t.csv") == "a,b\n1,3\n")
	} else {
		verifAssert("no committed update: t.csv as it was", verifFileRead("t.csv") == oldT)
	}
	verifAssert("u.csv as it was", verifFileRead("sub/u.csv") == oldU)

	want := "t.csv\nu.csv"
	if out != "" && p.wrote {
		want = "o.txt\nt.csv\nu.csv"
		where := out
		verifAssert("the result is in the --out file named at the start", strings.Contains(verifFileRead(where), "1"))
		if outKind == 2 {
			verifAssert("no --out file in the start directory", !verifFileExists("o.txt"))
		} else {
			verifAssert("no --out file in the sub-directory", !verifFileExists("sub/o.txt"))
		}
	}
	verifAssert("no control file, no empty --out file, no half-created table", verifFileList() == want)
	verifObserve("program", int64(pi))
	verifObserve("out", int64(outKind))
	verifReach("end")
}
