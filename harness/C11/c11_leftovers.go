package file

//verif:property C11
//verif:pkg lib/file
//verif:harness VerifC11NoLeftovers mode=bv tier=quick split=6
//verif:harness VerifC11Contention mode=bv tier=quick split=8

import (
	"strings"
	"time"
)

// One process opens up to two tables (for read / update / create), possibly hits an injected
// file-system fault (1 per run, thorough 2) or a lock timeout, and then ends by commit, close,
// forced close, or close-all.  Afterwards no lock / rlock / temp file of its own is left, a table
// created but not committed does not exist, and reading changed nothing.
func VerifC11NoLeftovers() {
	verifFileWrite("a.csv", "A-OLD")
	verifFileWrite("b.csv", "B-OLD")
	c := NewContainer()
	ctx := verifNewCtx(false)
	verifFaults(verifBound(1, 2))
	kinds := [2]int{verifChoice("open", 4), verifChoice("open", 4)} // 0 none 1 read 2 update 3 create
	names := [2]string{"a.csv", "b.csv"}
	// the second table may instead be named like the first in another letter case: a different file
	// on a case-sensitive file system, the same key in the container
	alias := verifChoice("alias", 2) == 1
	var hs [2]*Handler
	committed := [2]bool{}
	if alias {
		names[1] = "A.CSV"
	}
	for i := 0; i < 2; i++ {
		var err error
		switch kinds[i] {
		case 1:
			hs[i], err = c.CreateHandlerForRead(ctx, names[i], time.Second, time.Millisecond)
		case 2:
			hs[i], err = c.CreateHandlerForUpdate(ctx, names[i], time.Second, time.Millisecond)
		case 3:
			names[i] = "new" + names[i]
			if i == 1 && alias {
				names[i] = "NEWA.CSV"
			}
			hs[i], err = c.CreateHandlerForCreate(names[i])
		}
		if err != nil {
			hs[i] = nil
		}
	}
	end := verifChoice("end", 4)
	switch end {
	case 0: // commit what was opened for writing, close the rest
		for i := 0; i < 2; i++ {
			if hs[i] == nil {
				continue
			}
			if kinds[i] >= 2 {
				if fp, e := hs[i].FileForUpdate(); e == nil {
					_, _ = fp.Write([]byte("NEW"))
				}
				if c.Commit(hs[i]) == nil {
					committed[i] = true
				}
			} else {
				_ = c.Close(hs[i])
			}
		}
		_ = c.CloseAllWithErrors()
	case 1:
		for i := 0; i < 2; i++ {
			_ = c.Close(hs[i])
		}
		_ = c.CloseAllWithErrors()
	case 2:
		for i := 0; i < 2; i++ {
			_ = c.CloseWithErrors(hs[i])
		}
	default:
		if c.CloseAll() != nil {
			_ = c.CloseAllWithErrors()
		}
	}
	verifFaults(0)
	faulted := verifFaultedOps()
	// the property assumes that removing a file works: a fault injected into remove itself (or
	// into the close that precedes it in ControlFile.Close) is outside
	cleanupFault := strings.Contains(faulted, "remove") || strings.Contains(faulted, "close") || strings.Contains(faulted, "stat")
	if !cleanupFault {
		verifAssert("no lock, rlock or temp file is left", verifControlFilesLeft() == 0)
		for i := 0; i < 2; i++ {
			if kinds[i] == 3 && !committed[i] {
				verifAssert("a created but uncommitted table does not exist", !verifFileExists(names[i]))
			}
		}
		verifAssert("the container is empty", len(c.Keys()) == 0)
	}
	for i := 0; i < 2; i++ {
		if kinds[i] <= 1 {
			want := "A-OLD"
			if i == 1 {
				want = "B-OLD"
			}
			verifAssert("a table that was only read is unchanged", verifFileRead([2]string{"a.csv", "b.csv"}[i]) == want)
			if i == 1 && alias {
				continue
			}
		}
		if kinds[i] == 2 && end != 0 {
			want := "A-OLD"
			if i == 1 {
				want = "B-OLD"
			}
			if i == 1 && alias {
				continue // A.CSV does not exist: nothing was opened
			}
			verifAssert("an update that was closed without commit leaves the table unchanged", verifFileRead(names[i]) == want)
		}
	}
	verifObserve("leftovers", int64(verifControlFilesLeft()))
	verifReach("end")
}

// A writer and a reader process contend for one table (every interleaving of their file-system
// operations with at most 2 preemptions, thorough 3; every timeout instant); each ends by commit,
// close or a lock-timeout error.  When both are gone no lock, rlock or temp file is left and the
// table holds the old or the committed contents.
func VerifC11Contention() {
	verifFileWrite("t.csv", "OLD")
	verifPreemptions(verifBound(2, 3))
	writer := func() {
		ctx := verifNewCtx(false)
		c := NewContainer()
		h, err := c.CreateHandlerForUpdate(ctx, "t.csv", time.Second, time.Millisecond)
		if err != nil {
			_ = c.CloseAllWithErrors()
			return
		}
		if fp, e := h.FileForUpdate(); e == nil {
			_, _ = fp.Write([]byte("NEW"))
		}
		if verifChoice("writer-ends", 2) == 0 {
			_ = c.Commit(h)
		} else {
			_ = c.Close(h)
		}
		_ = c.CloseAllWithErrors()
	}
	reader := func() {
		ctx := verifNewCtx(false)
		c := NewContainer()
		h, err := c.CreateHandlerForRead(ctx, "t.csv", time.Second, time.Millisecond)
		if err == nil {
			_ = c.Close(h)
		}
		_ = c.CloseAllWithErrors()
	}
	verifSchedules(true)
	verifSpawn(writer)
	verifSpawn(reader)
	verifJoin()
	verifSchedules(false)
	verifAssert("no lock, rlock or temp file is left by either process", verifControlFilesLeft() == 0)
	got := verifFileRead("t.csv")
	verifAssert("the table holds the old or the committed contents", got == "OLD" || got == "NEW")
	verifObserve("leftovers", int64(verifControlFilesLeft()))
	verifReach("end")
}
