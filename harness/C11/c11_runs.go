package query

//verif:property C11
//verif:pkg lib/query
//verif:setup VerifC11RunsSetup
//verif:harness VerifC11FailedRuns mode=bv tier=quick split=4

import (
	"github.com/mithrandie/csvq/lib/parser"
)

var verifC11RunSrc = []string{
	// the final COMMIT fails on a table that is written after a created file (an LTSV value cannot hold a TAB)
	"create table `new.csv` (c1); insert into `new.csv` values ('x'); update l set v = 'p\tq';",
	"insert into a values (2,'b'); create table `new.csv` (c1); update l set v = 'p\tq';",
	// the created file itself cannot be encoded (JSON column names that contradict each other)
	"create table `new.json` (a, `a.b`); insert into `new.json` values (1, 2);",
	"update a set v = 'z'; create table `new.json` (a, `a.b`); insert into `new.json` values (1, 2);",
	// a statement fails after files were created and changed
	"create table `new.csv` (c1); insert into a values (2,'b'); select 1 / 0;",
	"create table `new.csv` (c1); commit; create table `new2.csv` (c1); select 1 / 0;",
	// only reading statements, the last one failing
	"select * from a; select * from l; select * from a where 1 / 0 > 0;",
	// a statement fails while it loads the table for update (a record with too few fields)
	"update broken set v = 'z';",
	"create table `new.csv` (c1); insert into broken values (9, 'z');",
	// EXIT with work pending
	"create table `new.csv` (c1); update a set v = 'z'; exit 3;",
}
var verifC11RunProgs [][]parser.Statement

func VerifC11RunsSetup() {
	for _, s := range verifC11RunSrc {
		verifC11RunProgs = append(verifC11RunProgs, verifParse(s))
	}
}

// Runs that do not end normally - the final COMMIT is refused for one of its files, a statement fails,
// a table cannot be loaded for update, EXIT - executed as `csvq` executes them (auto-commit, then the
// deferred rollback and release): afterwards the directory holds no lock, rlock or temporary file and no
// table that the uncommitted part of the run created; tables that were only read, and all tables of a
// run whose work was not committed, are byte-identical.
func VerifC11FailedRuns() {
	old := map[string]string{"a.csv": "id,v\n1,a\n", "l.ltsv": "k:7\tv:o\n", "broken.csv": "id,v\n1,a\n2\n"}
	for name, text := range old {
		verifFileWrite(name, text)
	}
	tx := verifNewTx()
	tx.Flags.Quiet = true
	tx.AutoCommit = true
	proc := NewProcessor(tx)
	pi := verifChoice("program", len(verifC11RunSrc))
	flow, err := proc.Execute(verifCtx(), verifC11RunProgs[pi])
	e1 := proc.AutoRollback()
	e2 := proc.ReleaseResourcesWithErrors()
	verifAssert("rollback and release succeed", e1 == nil && e2 == nil)
	verifAssert("the run does not end normally", err != nil || flow == Exit)
	want := "a.csv\nbroken.csv\nl.ltsv"
	if pi == 5 {
		want += "\nnew.csv" // committed explicitly before the failure
	}
	verifAssert("no control file and no uncommitted created table is left", verifFileList() == want)
	for name, text := range old {
		verifAssert("every table is byte-identical", verifFileRead(name) == text)
	}
	verifObserve("program", int64(pi))
	verifReach("end")
}
