package query

//verif:property C07
//verif:pkg lib/query
//verif:setup VerifC07LargeSetup
//verif:harness VerifC07LargeCut mode=bv tier=quick split=4

import (
	"github.com/mithrandie/csvq/lib/parser"
	"github.com/mithrandie/csvq/lib/value"
)

var verifC07LargeQ []parser.SelectQuery

func VerifC07LargeSetup() {
	for _, s := range []string{
		"select id from t order by id offset @k",
		"select id from t order by id limit @l offset @k",
		"select id from t order by id desc limit @l offset @k",
		"select id from t order by g, id limit @l with ties offset @k",
		"select id from t order by id limit 50 percent offset @k",
		"select id from t offset @k",
	} {
		verifC07LargeQ = append(verifC07LargeQ, verifParseSelect(s))
	}
}

// ORDER BY / OFFSET / LIMIT on tables around and beyond the size at which csvq splits per-record work over
// workers (80 records per worker: 159, 160, 161, 330 records; one or two workers under every order in which they run): OFFSET k drops exactly the
// first k rows, LIMIT keeps exactly the next l, PERCENT is taken of the pre-offset count, WITH TIES adds nothing
// when the keys are unique.  Concrete data: the subject is the size.
func VerifC07LargeCut() {
	sizes := []int{159, 160, 161, 330}
	n := sizes[verifChoice("size", len(sizes))]
	tx := verifNewTx()
	tx.Flags.CPU = 1 + verifChoice("workers", 2)
	scope := NewReferenceScope(tx)
	rows := make([][]value.Primary, n)
	for i := range rows {
		// table order is not id order; g groups ten consecutive ids
		id := (i*7 + 3) % n
		if n%7 == 0 {
			id = (i*11 + 3) % n
		}
		rows[i] = []value.Primary{value.NewInteger(int64(id)), value.NewInteger(int64(id / 10))}
	}
	verifTempTable(scope, "t", []string{"id", "g"}, rows)
	k := []int{0, 1, 5, 81}[verifChoice("offset", 4)]
	l := []int{1, 80, 100}[verifChoice("limit", 3)]
	verifVar(scope, "k", value.NewInteger(int64(k)))
	verifVar(scope, "l", value.NewInteger(int64(l)))
	qi := verifChoice("query", len(verifC07LargeQ))
	// every order in which the workers run to their next synchronisation point
	verifPreemptions(0)
	verifSchedules(true)
	view, err := Select(verifCtx(), scope, verifC07LargeQ[qi])
	verifSchedules(false)
	verifAssert("select succeeds", err == nil)
	if err != nil {
		return
	}
	var want []int
	switch qi {
	case 0:
		for i := k; i < n; i++ {
			want = append(want, i)
		}
	case 1:
		for i := k; i < n && i < k+l; i++ {
			want = append(want, i)
		}
	case 2:
		for i := k; i < n && i < k+l; i++ {
			want = append(want, n-1-i)
		}
	case 3:
		// the keys (g, id) are unique: WITH TIES adds nothing
		for i := k; i < n && i < k+l; i++ {
			want = append(want, i)
		}
	case 4:
		cnt := (n + 1) / 2 // ceil(n * 50 / 100)
		for i := k; i < n && i < k+cnt; i++ {
			want = append(want, i)
		}
	case 5:
		for i := k; i < n; i++ {
			want = append(want, verifIdOf(rows[i][0]))
		}
	}
	verifAssert("exactly the rows of the cut", view.RecordLen() == len(want))
	okAll := view.RecordLen() == len(want)
	for r := 0; okAll && r < len(want); r++ {
		if verifIdOf(view.RecordSet[r][0][0]) != want[r] {
			okAll = false
		}
	}
	verifAssert("the rows of the cut, in order", okAll)
	verifObserve("rows", int64(view.RecordLen()))
	verifReach("end")
}
