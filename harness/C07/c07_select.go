package query

//verif:property C07
//verif:pkg lib/query
//verif:setup VerifC07Setup
//verif:harness VerifC07Order mode=bv tier=quick split=4
//verif:harness VerifC07LimitOffset mode=bv tier=quick split=6
//verif:harness VerifC07Percent mode=real tier=quick split=4
//verif:harness VerifC07PercentLarge mode=bv tier=quick split=3
//verif:setup VerifC07Setup2
//verif:harness VerifC07TwoKeys mode=bv tier=quick split=6

import (
	"github.com/mithrandie/csvq/lib/parser"
	"github.com/mithrandie/csvq/lib/value"
)

var verifC07Order [8]parser.SelectQuery
var verifC07Cut [4]parser.SelectQuery
var verifC07Pct [2]parser.SelectQuery
var verifC07PctLarge parser.SelectQuery
var verifC07LargeRows [][]value.Primary

func VerifC07Setup() {
	dirs := []string{"asc", "desc"}
	nulls := []string{"", " nulls first", " nulls last"}
	i := 0
	for _, d := range dirs {
		for _, n := range nulls {
			verifC07Order[i] = verifParseSelect("select id, k from t order by k " + d + n)
			i++
		}
	}
	// the view is first reordered by an analytic function's own ORDER BY, then sorted again
	verifC07Order[6] = verifParseSelect("select id, k, rank() over (order by k desc) from t order by k")
	verifC07Order[7] = verifParseSelect("select id, k from t order by rank() over (order by k desc) desc, id desc")
	verifC07Cut[0] = verifParseSelect("select id, k from t order by k limit @l offset @o")
	verifC07Cut[1] = verifParseSelect("select id, k from t order by k limit @l with ties offset @o")
	// the same cut with the OFFSET taken in a subquery: it must not leak into the outer LIMIT
	verifC07Cut[2] = verifParseSelect("select id, k from (select id, k from t order by k offset @o) s order by k limit @l")
	verifC07Cut[3] = verifParseSelect("select id, k from (select id, k from t order by k offset @o) s order by k limit @l with ties")
	verifC07Pct[0] = verifParseSelect("select id, k from t order by k limit @p percent offset @o")
	verifC07Pct[1] = verifParseSelect("select id, k from t order by k limit @p percent with ties offset @o")
	verifC07PctLarge = verifParseSelect("select id from big limit @p percent")
	verifC07LargeRows = make([][]value.Primary, 120)
	for i := range verifC07LargeRows {
		verifC07LargeRows[i] = []value.Primary{value.NewInteger(int64(i))}
	}
}

// LIMIT p PERCENT on tables of 25, 100 and 120 rows, every whole percentage in [-5, 130] and the
// same plus one half: the kept prefix has exactly min(n, max(0, ceil(n*p/100))) rows.  The percentage
// and the row count are concrete here, so the float arithmetic of the implementation is executed bit
// for bit (IEEE doubles, not the exact rationals of the symbolic PERCENT harness): a product that is a
// whole number must not be rounded up by a detour through p/100.
func VerifC07PercentLarge() {
	tx := verifNewTx()
	scope := NewReferenceScope(tx)
	n := [3]int{25, 100, 120}[verifChoice("rows", 3)]
	verifTempTable(scope, "big", []string{"id"}, verifC07LargeRows[:n])
	p2 := int64(verifChoice("half-percents", 272)) - 10 // p = p2 / 2
	verifVar(scope, "p", value.NewFloat(float64(p2)/2))
	view, err := Select(verifCtx(), scope, verifC07PctLarge)
	verifAssert("select succeeds", err == nil)
	if err != nil {
		return
	}
	got := view.RecordLen()
	want := int64(0)
	if p2 > 0 {
		want = (int64(n)*p2 + 199) / 200
		if want > int64(n) {
			want = int64(n)
		}
	}
	verifAssert("percent of a large table", int64(got) == want)
	if got > 0 {
		verifAssert("prefix kept: first", view.RecordSet[0][0][0] == verifC07LargeRows[0][0])
		verifAssert("prefix kept: last", view.RecordSet[got-1][0][0] == verifC07LargeRows[got-1][0])
	}
	verifObserve("rows", int64(got))
	verifReach("end")
}

type verifC07Table struct {
	n      int
	isNull []bool
	key    []int64
	rows   [][]value.Primary
}

func verifC07Rows(scope *ReferenceScope, n int, withNulls bool) *verifC07Table {
	t := &verifC07Table{n: n, isNull: make([]bool, n), key: make([]int64, n), rows: make([][]value.Primary, n)}
	for i := 0; i < n; i++ {
		if withNulls {
			t.isNull[i] = verifBool("null")
		}
		t.key[i] = verifInt64("key")
		var k value.Primary
		if t.isNull[i] {
			k = value.NewNull()
		} else {
			k = value.NewInteger(t.key[i])
		}
		t.rows[i] = []value.Primary{value.NewInteger(int64(i)), k}
	}
	verifTempTable(scope, "t", []string{"id", "k"}, t.rows)
	return t
}

// ids returns the input row numbers of the result rows, checking that the result is a
// sub-permutation of the input made of the very same cells.
func (t *verifC07Table) ids(view *View) []int {
	out := make([]int, view.RecordLen())
	seen := make([]bool, t.n)
	for i := range out {
		id := int(view.RecordSet[i][0][0].(*value.Integer).Raw())
		verifAssert("row comes from the input", id >= 0 && id < t.n)
		verifAssert("row appears once", !seen[id])
		seen[id] = true
		out[i] = id
		verifAssert("cell identity", view.RecordSet[i][1][0] == t.rows[id][1])
	}
	return out
}

// ORDER BY k with every direction / null position over n <= 3 rows (thorough 4) whose key is
// NULL or any int64: the real Select pipeline; output is a permutation in a correct order.
func VerifC07Order() {
	tx := verifNewTx()
	scope := NewReferenceScope(tx)
	n := verifChoice("n", verifBound(4, 5))
	t := verifC07Rows(scope, n, true)
	qi := verifChoice("query", 8)
	desc := qi >= 3 && qi < 6
	nullMode := qi % 3 // 0 default, 1 first, 2 last
	if qi >= 6 {
		nullMode = 0
		if qi == 7 {
			// rank() over (order by k desc) desc == k ascending with NULLs (rank 1 under DESC: nulls last -> highest rank) first
			for i := 0; i < n; i++ {
				verifAssume(!t.isNull[i])
			}
		}
	}
	view, err := Select(verifCtx(), scope, verifC07Order[qi])
	verifAssert("select succeeds", err == nil)
	nullsFirst := nullMode == 1 || (nullMode == 0 && !desc)
	out := t.ids(view)
	verifAssert("all rows kept", len(out) == n)
	for i := 0; i+1 < len(out); i++ {
		a, b := out[i], out[i+1] // b must not sort strictly before a
		var bad bool
		if t.isNull[a] || t.isNull[b] {
			if t.isNull[a] && t.isNull[b] {
				bad = false
			} else {
				bad = t.isNull[b] == nullsFirst
			}
		} else if desc {
			bad = t.key[b] > t.key[a]
		} else {
			bad = t.key[b] < t.key[a]
		}
		verifAssert("adjacent rows in order", !bad)
		verifObserve("id", int64(a))
	}
	verifReach("end")
}

// ORDER BY k LIMIT l [WITH TIES] OFFSET o, l and o arbitrary int64, n <= 3 non-null keys.
func VerifC07LimitOffset() {
	tx := verifNewTx()
	scope := NewReferenceScope(tx)
	n := verifChoice("n", verifBound(4, 5))
	t := verifC07Rows(scope, n, false)
	qi := verifChoice("ties", 4)
	limit := verifInt64("limit")
	offset := verifInt64("offset")
	verifVar(scope, "l", value.NewInteger(limit))
	verifVar(scope, "o", value.NewInteger(offset))
	view, err := Select(verifCtx(), scope, verifC07Cut[qi])
	verifAssert("select succeeds", err == nil)
	out := t.ids(view)
	off := 0
	if offset > 0 {
		off = n
		if offset < int64(n) {
			off = int(offset)
		}
	}
	want := 0
	if limit > 0 {
		want = n - off
		if limit < int64(n-off) {
			want = int(limit)
		}
	}
	verifC07CheckCut(t, out, off, want, qi == 1 || qi == 3)
	verifObserve("rows", int64(len(out)))
	verifReach("end")
}

// verifC07CheckCut: out must be rows [off, off+want) of a correctly sorted order, extended by
// exactly the rows tied with the last kept one when withTies.
func verifC07CheckCut(t *verifC07Table, out []int, off, want int, withTies bool) {
	n := t.n
	rank := func(id int) int { // rows that must come strictly before id
		c := 0
		for j := 0; j < n; j++ {
			if t.key[j] < t.key[id] {
				c++
			}
		}
		return c
	}
	for i := 0; i+1 < len(out); i++ {
		verifAssert("adjacent rows in order", t.key[out[i]] <= t.key[out[i+1]])
	}
	kept := make([]bool, n)
	for i, id := range out {
		kept[id] = true
		verifAssert("kept row is not ranked beyond its position", rank(id) <= off+i)
	}
	if len(out) > 0 {
		// every row left out sorts before the window (<= first kept) or after it (>= last kept)
		first, last := out[0], out[len(out)-1]
		before := 0
		for j := 0; j < n; j++ {
			if !kept[j] {
				verifAssert("dropped row lies outside the window", t.key[j] <= t.key[first] || t.key[j] >= t.key[last])
				if t.key[j] <= t.key[first] && rank(j) < off {
					before++
				}
			}
		}
		_ = before
	}
	if !withTies {
		verifAssert("row count = min(limit, n-offset)", len(out) == want)
		return
	}
	if want <= 0 {
		verifAssert("with ties and nothing to keep keeps nothing", len(out) == 0)
		return
	}
	verifAssert("with ties keeps at least limit rows", len(out) >= want)
	lastKept := out[want-1]
	for i := want; i < len(out); i++ {
		verifAssert("extra rows tie with the last kept row", t.key[out[i]] == t.key[lastKept])
	}
	// count of rows equal to the last kept key must all be inside the result unless they
	// precede the window (ranked before the offset)
	eqTotal, eqKept, less := 0, 0, 0
	for j := 0; j < n; j++ {
		if t.key[j] == t.key[lastKept] {
			eqTotal++
			if kept[j] {
				eqKept++
			}
		}
		if t.key[j] < t.key[lastKept] {
			less++
		}
	}
	// rows with the tie key occupy sorted positions [less, less+eqTotal); those at positions >= off are in the window
	inWindow := eqTotal
	if off > less {
		inWindow = eqTotal - (off - less)
	}
	verifAssert("no tied row was left out", eqKept == inWindow)
}

// LIMIT p PERCENT [WITH TIES] OFFSET o with integral p in [-5, 205] (exact-rational floats: for
// n+o < 2^31 and integral p, n*p is exact and one correctly rounded division by 100 cannot cross
// an integer, so Ceil of the float and of the exact quotient agree; see DESIGN.md §2.5).
func VerifC07Percent() {
	tx := verifNewTx()
	scope := NewReferenceScope(tx)
	n := verifChoice("n", verifBound(4, 5))
	t := verifC07Rows(scope, n, false)
	qi := verifChoice("ties", 2)
	p := verifInt64("percent")
	verifAssume(p >= -5)
	verifAssume(p <= 205)
	offset := verifInt64("offset")
	verifAssume(offset >= -2)
	verifAssume(offset <= 5)
	verifVar(scope, "p", value.NewFloat(float64(p)))
	verifVar(scope, "o", value.NewInteger(offset))
	view, err := Select(verifCtx(), scope, verifC07Pct[qi])
	verifAssert("select succeeds", err == nil)
	out := t.ids(view)
	off := 0
	if offset > 0 {
		off = n
		if offset < int64(n) {
			off = int(offset)
		}
	}
	// PERCENT is taken of the pre-offset row count n: ceil(n*p/100), clamped to [0, n-off]
	want := 0
	if p > 0 {
		pp := p
		if pp > 100 {
			pp = 100
		}
		c := (int64(n)*pp + 99) / 100
		want = n - off
		if c < int64(n-off) {
			want = int(c)
		}
	}
	verifC07CheckCut(t, out, off, want, qi == 1)
	verifObserve("rows", int64(len(out)))
	verifReach("end")
}

var verifC07Two []parser.SelectQuery
var verifC07TwoSpec = []struct {
	src                                  string
	desc1, nullsFirst1, desc2, nullsFirst2 bool
	idCol                                int  // position of id in the select list
	mFirst                               bool // the first sort key is m, the second k
}{
	{"select id, k, m from t order by k, m", false, true, false, true, 0, false},
	{"select id, k, m from t order by k desc, m", true, false, false, true, 0, false},
	{"select id, k, m from t order by k nulls last, m desc", false, false, true, false, 0, false},
	{"select id, k, m from t order by k desc nulls first, m desc nulls first", true, true, true, true, 0, false},
	// DISTINCT after an analytic function cached per-cell sort keys, then ORDER BY
	{"select distinct id, k, m, count(*) over (partition by k) from t order by k, m", false, true, false, true, 0, false},
	// the same with duplicate rows to merge: only k is selected (checked separately below)
	{"select distinct k, count(*) over (partition by k) from t order by k", false, true, false, true, 0, false},
	// WITH TIES: exactly the rows whose key ties with the first one (an integer ties with the equal float)
	{"select id, k, m from t order by k limit 1 with ties", false, true, false, true, 0, false},
	// sort keys that are expressions outside the select list, next to an analytic function
	{"select id, k, m, rank() over (order by k) from t order by k + 0, m + 0", false, true, false, true, 0, false},
	// DISTINCT that merges nothing re-lays the records in select-list order (different from the table's)
	// after an analytic function cached sort keys per table column; then ORDER BY
	{"select distinct m, k, id, row_number() over (order by id desc) from t order by m, k", false, true, false, true, 2, true},
	{"select distinct k, id, m, row_number() over (order by id desc) from t order by k desc, m", true, false, false, true, 1, false},
}

func VerifC07Setup2() {
	for _, q := range verifC07TwoSpec {
		verifC07Two = append(verifC07Two, verifParseSelect(q.src))
	}
}

// ORDER BY with two keys, every combination of directions and NULL positions from a menu, over
// n <= 3 rows (thorough 4) whose keys are NULL or any int64 (the first key from a small range, as an
// integer or as the equal float, so that ties on it - also across the two number types - are explored): the output is a permutation in which no row precedes one that
// sorts strictly before it lexicographically.
func VerifC07TwoKeys() {
	tx := verifNewTx()
	scope := NewReferenceScope(tx)
	qi := verifChoice("query", len(verifC07TwoSpec))
	n := 1 + verifChoice("n", verifBound(3, 4))
	kvals := 2
	if qi == 5 {
		// duplicates to merge plus three distinct keys need four rows; the second key is unused
		n, kvals = 4, 3
	}
	kn, mn := make([]bool, n), make([]bool, n)
	kv, mv := make([]int64, n), make([]int64, n)
	rows := make([][]value.Primary, n)
	for i := 0; i < n; i++ {
		kn[i] = verifBool("k.null")
		kv[i] = int64(verifChoice("k", kvals))
		if qi != 5 && qi != 6 {
			mv[i] = verifInt64("m")
			if i < 2 {
				mn[i] = verifBool("m.null")
			}
		}
		var k, m value.Primary = value.NewInteger(kv[i]), value.NewInteger(mv[i])
		if (qi < 2 || qi == 6) && i < 2 && verifBool("k.float") {
			k = value.NewFloat(float64(kv[i])) // the same number as a float: sorts and ties like the integer
		}
		if kn[i] {
			k = value.NewNull()
		}
		if mn[i] {
			m = value.NewNull()
		}
		rows[i] = []value.Primary{value.NewInteger(int64(i)), k, m}
	}
	if qi == 5 {
		// k as the leading column, as in the result of the DISTINCT query
		for i := range rows {
			rows[i][0], rows[i][1] = rows[i][1], rows[i][0]
		}
		verifTempTable(scope, "t", []string{"k", "id", "m"}, rows)
	} else {
		verifTempTable(scope, "t", []string{"id", "k", "m"}, rows)
	}
	sp := verifC07TwoSpec[qi]
	view, err := Select(verifCtx(), scope, verifC07Two[qi])
	verifAssert("select succeeds", err == nil)
	if err != nil {
		return
	}
	if qi == 5 {
		// one row per distinct k (NULL counts as one value), NULL first, then ascending
		for i := 0; i+1 < view.RecordLen(); i++ {
			a, b := view.RecordSet[i][0][0], view.RecordSet[i+1][0][0]
			ai, aok := a.(*value.Integer)
			bi, bok := b.(*value.Integer)
			verifAssert("distinct keys in ascending order, NULL first", bok && (!aok || ai.Raw() < bi.Raw()))
		}
		for i := 0; i < n; i++ {
			found := false
			for j := 0; j < view.RecordLen(); j++ {
				c, ok := view.RecordSet[j][0][0].(*value.Integer)
				if (kn[i] && !ok) || (!kn[i] && ok && c.Raw() == kv[i]) {
					found = true
				}
			}
			verifAssert("every key value appears", found)
		}
		verifObserve("rows", int64(view.RecordLen()))
		verifReach("end")
		return
	}
	if qi == 6 {
		anyNull := false
		min := int64(1 << 62)
		for i := 0; i < n; i++ {
			if kn[i] {
				anyNull = true
			} else if kv[i] < min {
				min = kv[i]
			}
		}
		tied := func(i int) bool { return (anyNull && kn[i]) || (!anyNull && kv[i] == min) }
		want := 0
		for i := 0; i < n; i++ {
			if tied(i) {
				want++
			}
		}
		verifAssert("WITH TIES keeps exactly the rows tied with the first", view.RecordLen() == want)
		for r := 0; r < view.RecordLen(); r++ {
			id := int(view.RecordSet[r][0][0].(*value.Integer).Raw())
			verifAssert("a kept row ties with the first", id >= 0 && id < n && tied(id))
		}
		verifObserve("rows", int64(view.RecordLen()))
		verifReach("end")
		return
	}
	verifAssert("all rows kept", view.RecordLen() == n)
	// cmp: -1 a before b, 0 tie, 1 a after b
	cmp := func(an, bn bool, av, bv int64, desc, nullsFirst bool) int {
		switch {
		case an && bn:
			return 0
		case an:
			if nullsFirst {
				return -1
			}
			return 1
		case bn:
			if nullsFirst {
				return 1
			}
			return -1
		case av == bv:
			return 0
		case (av < bv) != desc:
			return -1
		}
		return 1
	}
	seen := make([]bool, n)
	prev := -1
	for i := 0; i < view.RecordLen() && i < n; i++ {
		id := int(view.RecordSet[i][sp.idCol][0].(*value.Integer).Raw())
		verifAssert("row comes from the input, once", id >= 0 && id < n && !seen[id])
		if id < 0 || id >= n {
			return
		}
		seen[id] = true
		if prev >= 0 {
			c := 0
			if sp.mFirst {
				c = cmp(mn[prev], mn[id], mv[prev], mv[id], sp.desc1, sp.nullsFirst1)
				if c == 0 {
					c = cmp(kn[prev], kn[id], kv[prev], kv[id], sp.desc2, sp.nullsFirst2)
				}
			} else {
				c = cmp(kn[prev], kn[id], kv[prev], kv[id], sp.desc1, sp.nullsFirst1)
				if c == 0 {
					c = cmp(mn[prev], mn[id], mv[prev], mv[id], sp.desc2, sp.nullsFirst2)
				}
			}
			verifAssert("adjacent rows in lexicographic order", c <= 0)
		}
		prev = id
		verifObserve("id", int64(id))
	}
	verifReach("end")
}
