package query

//verif:property C07
//verif:pkg lib/query
//verif:setup VerifC07TypesSetup
//verif:harness VerifC07TypedKeys mode=bv tier=quick split=6

import (
	"time"

	"github.com/mithrandie/csvq/lib/parser"
	"github.com/mithrandie/csvq/lib/value"
	"github.com/mithrandie/ternary"
)

var verifC07TypesQ [4]parser.SelectQuery

func VerifC07TypesSetup() {
	verifC07TypesQ[0] = verifParseSelect("select id, k from t order by k")
	verifC07TypesQ[1] = verifParseSelect("select id, k from t order by k desc")
	verifC07TypesQ[2] = verifParseSelect("select id, k from t order by k limit 1 with ties")
	verifC07TypesQ[3] = verifParseSelect("select id, k from t order by k desc nulls first")
}

// instants inside and outside the range in which a time has a nanosecond count (years 1678..2262)
var verifC07Instants = []time.Time{
	time.Date(2012, 2, 3, 9, 18, 15, 0, time.UTC),
	time.Date(2012, 2, 3, 9, 18, 15, 1, time.UTC),
	time.Date(9999, 12, 31, 0, 0, 0, 0, time.UTC),
	time.Date(1400, 1, 1, 0, 0, 0, 0, time.UTC),
	time.Date(1984, 7, 21, 23, 34, 33, 709551616, time.UTC), // 2^64 ns after the one before
	time.Date(1650, 1, 1, 0, 0, 0, 0, time.UTC),
}
var verifC07Texts = []string{"a", "B", " b", "ab", "A ", "", "z"}
// texts that are datetimes: in built-in notations and in the notation of --datetime-format "%b %e %Y"
// (starting with a letter, shorter than the built-in ones); the fourth is the same day as the first
var verifC07DateTexts = []string{"Mar 5 2020", "Jan 10 2021", "Dec 1 2019", "2020-03-05", "2012-02-03 09:18:15", "Apr 1 2020", " Feb 29 2020 "}
var verifC07Floats = []float64{-1.5, 0, 0.25, 1e19, -1e19, 2.5e19}

// Sort keys of one class per run - datetimes (also far outside the years 1678..2262), plain texts
// (compared without regard to case and edge blanks), floats (also beyond the int64 range), texts that are
// datetimes in built-in notations and in a notation given with --datetime-format - with
// NULLs, 3 rows (thorough 4): the output of ORDER BY is a permutation in which no row precedes a row
// that csvq's own < puts before it (DESC: after it), NULLs first or last as the direction says, and
// LIMIT 1 WITH TIES returns exactly the rows whose key equals the smallest.
func VerifC07TypedKeys() {
	tx := verifNewTx()
	flags := tx.Flags
	scope := NewReferenceScope(tx)
	class := verifChoice("class", 4)
	if class == 3 {
		flags.DatetimeFormat = []string{"%b %e %Y"}
	}
	n := verifBound(3, 4)
	rows := make([][]value.Primary, n)
	for i := 0; i < n; i++ {
		var k value.Primary
		switch {
		case verifBool("null"):
			k = value.NewNull()
		case class == 0:
			k = value.NewDatetime(verifC07Instants[verifChoice("instant", len(verifC07Instants))])
		case class == 1:
			k = value.NewString(verifC07Texts[verifChoice("text", len(verifC07Texts))])
		case class == 3:
			k = value.NewString(verifC07DateTexts[verifChoice("date-text", len(verifC07DateTexts))])
		default:
			k = value.NewFloat(verifC07Floats[verifChoice("float", len(verifC07Floats))])
		}
		rows[i] = []value.Primary{value.NewInteger(int64(i)), k}
	}
	verifTempTable(scope, "t", []string{"id", "k"}, rows)
	qi := verifChoice("query", 4)
	view, err := Select(verifCtx(), scope, verifC07TypesQ[qi])
	verifAssert("select succeeds", err == nil)
	if err != nil {
		return
	}
	less := func(a, b value.Primary) bool {
		return value.Less(a, b, flags.DatetimeFormat, flags.GetTimeLocation()) == ternary.TRUE
	}
	equal := func(a, b value.Primary) bool {
		if value.IsNull(a) || value.IsNull(b) {
			return value.IsNull(a) && value.IsNull(b)
		}
		return value.Equal(a, b, flags.DatetimeFormat, flags.GetTimeLocation()) == ternary.TRUE
	}
	seen := make([]bool, n)
	out := make([]value.Primary, 0, n)
	for r := 0; r < view.RecordLen(); r++ {
		id := verifIdOf(view.RecordSet[r][0][0])
		verifAssert("row comes from the input, once", id >= 0 && id < n && !seen[id])
		if id < 0 || id >= n {
			return
		}
		seen[id] = true
		verifAssert("the key travels with its row", view.RecordSet[r][1][0] == rows[id][1])
		out = append(out, rows[id][1])
	}
	desc := qi == 1 || qi == 3
	nullsFirst := qi == 0 || qi == 2 || qi == 3
	if qi != 2 {
		verifAssert("a permutation of the input", len(out) == n)
	}
	for i := 0; i < len(out); i++ {
		for j := i + 1; j < len(out); j++ {
			a, b := out[i], out[j]
			switch {
			case value.IsNull(a) && !value.IsNull(b):
				verifAssert("NULLs come where the direction puts them", nullsFirst)
			case !value.IsNull(a) && value.IsNull(b):
				verifAssert("NULLs come where the direction puts them", !nullsFirst)
			case value.IsNull(a):
			case desc:
				verifAssert("no row precedes one that sorts before it", !less(a, b))
			default:
				verifAssert("no row precedes one that sorts before it", !less(b, a))
			}
		}
	}
	if qi == 2 && n > 0 {
		// the smallest key under ASC NULLS FIRST: NULL if there is one, else the minimum
		min := rows[0][1]
		for i := 1; i < n; i++ {
			k := rows[i][1]
			if value.IsNull(min) {
				break
			}
			if value.IsNull(k) || less(k, min) {
				min = k
			}
		}
		want := 0
		for i := 0; i < n; i++ {
			if equal(rows[i][1], min) {
				want++
			}
		}
		verifAssert("WITH TIES keeps exactly the rows that tie with the first", len(out) == want)
		for _, k := range out {
			verifAssert("every kept row ties with the first", equal(k, min))
		}
	}
	verifObserve("rows", int64(len(out)))
	verifReach("end")
}
