package file

//verif:pkg lib/file

import (
	"context"
	"time"
)

// verifCtxT is a context whose deadline fires at a moment chosen by the engine: each time the
// waiting code looks at Done() the timeout may strike (at the latest on the third look), which
// is how "the wait times out at any retry" enters.  It reports a deadline so that
// GetTimeoutContext uses it as it is.
type verifCtxT struct {
	ch    chan struct{}
	fired bool
	looks int
	after int // the deadline passes at this look at Done(); 0 = it never does
}

// verifNewCtx: the retry at which the wait times out is chosen once per context (1st or 2nd retry,
// or - bounded - at the 4th look at the latest).
func verifNewCtx(never bool) *verifCtxT {
	c := &verifCtxT{ch: make(chan struct{}, 1)}
	if !never {
		c.after = 1 + verifChoice("timeout-at", 3)
		if c.after == 3 {
			c.after = 4
		}
	}
	return c
}

func (c *verifCtxT) Deadline() (time.Time, bool) { return time.Time{}, true }
func (c *verifCtxT) Done() <-chan struct{} {
	c.looks++
	if !c.fired && c.after > 0 && c.looks >= c.after {
		c.fired = true
		close(c.ch)
	}
	return c.ch
}
func (c *verifCtxT) Err() error {
	if c.fired {
		return context.DeadlineExceeded
	}
	return nil
}
func (c *verifCtxT) Value(key interface{}) interface{} { return nil }

func verifControlFilesLeft() int {
	n := 0
	for _, name := range splitLines(verifFileList()) {
		if len(name) > 0 && name[0] == '.' {
			n++
		}
	}
	return n
}

func splitLines(s string) []string {
	var out []string
	cur := ""
	for i := 0; i < len(s); i++ {
		if s[i] == '\n' {
			out = append(out, cur)
			cur = ""
		} else {
			cur += string(s[i])
		}
	}
	if cur != "" {
		out = append(out, cur)
	}
	return out
}
