package query

//verif:pkg lib/query

// Shared helpers for harnesses in package query: a Transaction/ReferenceScope built directly
// (no environment, no files), temporary tables with chosen cells, and a statement parser.

import (
	"context"
	"sync"
	"time"

	"github.com/mithrandie/csvq/lib/file"
	"github.com/mithrandie/csvq/lib/option"
	"github.com/mithrandie/csvq/lib/parser"
	"github.com/mithrandie/csvq/lib/value"
)

func verifNewTx() *Transaction {
	utc := "UTC"
	flags, err := option.NewFlags(&option.Environment{Timezone: &utc})
	if err != nil {
		panic("verifNewTx: " + err.Error())
	}
	flags.CPU = 1
	palette, err := option.NewPalette(&option.Environment{})
	if err != nil {
		panic("verifNewTx: " + err.Error())
	}
	palette.Disable()
	return &Transaction{
		Palette: palette,
		Session: &Session{
			stdout:       NewDiscard(),
			stderr:       NewDiscard(),
			stdinViewMap: NewViewMap(),
			stdinLocker:  NewStdinLocker(),
			mtx:          &sync.Mutex{},
		},
		Environment:        &option.Environment{},
		Flags:              flags,
		WaitTimeout:        file.DefaultWaitTimeout,
		RetryDelay:         file.DefaultRetryDelay,
		FileContainer:      file.NewContainer(),
		CachedViews:        NewViewMap(),
		UncommittedViews:   NewUncommittedViews(),
		UrlCache:           make(map[string]*UrlResource, 5),
		operationMutex:     &sync.Mutex{},
		viewLoadingMutex:   &sync.Mutex{},
		flagMutex:          &sync.RWMutex{},
		PreparedStatements: NewPreparedStatementMap(),
	}
}

// verifTempTable declares temporary table `name` with the given columns and rows in scope.
func verifTempTable(scope *ReferenceScope, name string, cols []string, rows [][]value.Primary) *View {
	v := NewView()
	v.Header = NewHeader(name, cols)
	v.RecordSet = make(RecordSet, len(rows))
	for i, r := range rows {
		v.RecordSet[i] = NewRecord(r)
	}
	v.FileInfo = NewTemporaryTableFileInfo(name)
	v.CreateRestorePoint()
	scope.SetTemporaryTable(v)
	return v
}

// verifParse parses one or more statements with the real parser (concrete text).
func verifParse(src string) []parser.Statement {
	stmts, _, err := parser.Parse(src, "", false, false)
	if err != nil {
		panic("verifParse: " + err.Error() + " in: " + src)
	}
	return stmts
}

func verifParseSelect(src string) parser.SelectQuery {
	return verifParse(src)[0].(parser.SelectQuery)
}

func verifCtx() context.Context { return context.Background() }

func verifVar(scope *ReferenceScope, name string, v value.Primary) {
	if err := scope.DeclareVariableDirectly(parser.Variable{Name: name}, v); err != nil {
		panic("verifVar: " + err.Error())
	}
}

// stored returns the published temporary table object (not a copy).
func verifStored(scope *ReferenceScope, name string) *View {
	v, ok := scope.Blocks[0].TemporaryTables.Load(name)
	if !ok {
		panic("verifStored: no table " + name)
	}
	return v
}


func verifIdOf(p value.Primary) int {
	if value.IsNull(p) {
		return -1
	}
	return int(p.(*value.Integer).Raw())
}


// churn takes objects out of every value pool and overwrites them: a value that was wrongly
// discarded while still referenced is reissued here and changes under its owner's feet.
func verifC14Churn() {
	for k := 0; k < 6; k++ {
		_ = value.NewInteger(int64(-7777 - k))
		_ = value.NewFloat(-7777.5)
		_ = value.NewString("~churn~")
		_ = value.NewDatetime(time.Unix(0, 0))
	}
}


func verifSamePrimary(x, y value.Primary) bool {
	switch a := x.(type) {
	case *value.Integer:
		b, ok := y.(*value.Integer)
		return ok && a.Raw() == b.Raw()
	case *value.Float:
		b, ok := y.(*value.Float)
		return ok && (a.Raw() == b.Raw() || (a.Raw() != a.Raw() && b.Raw() != b.Raw()))
	case *value.String:
		b, ok := y.(*value.String)
		return ok && a.Raw() == b.Raw()
	case *value.Datetime:
		b, ok := y.(*value.Datetime)
		return ok && a.Raw().Equal(b.Raw())
	case *value.Boolean:
		b, ok := y.(*value.Boolean)
		return ok && a.Raw() == b.Raw()
	case *value.Ternary:
		b, ok := y.(*value.Ternary)
		return ok && a.Ternary() == b.Ternary()
	case *value.Null:
		_, ok := y.(*value.Null)
		return ok
	}
	return false
}


func verifEpoch() time.Time { return time.Unix(1328260695, 0).In(time.UTC) }

// verifCancelCtx: a context that is cancelled (SIGINT / SIGTERM reach csvq as context cancellation)
// at the k-th time the program looks at it; k is chosen by the engine.
type verifCancelCtx struct {
	ch    chan struct{}
	looks int
	at    int
	fired bool
}

func (c *verifCancelCtx) look() {
	c.looks++
	if !c.fired && c.at > 0 && c.looks >= c.at {
		c.fired = true
		close(c.ch)
	}
}
func (c *verifCancelCtx) Deadline() (deadline time.Time, ok bool) { return time.Time{}, true }
func (c *verifCancelCtx) Done() <-chan struct{}                   { c.look(); return c.ch }
func (c *verifCancelCtx) Err() error {
	c.look()
	if c.fired {
		return context.Canceled
	}
	return nil
}
func (c *verifCancelCtx) Value(key interface{}) interface{} { return nil }

