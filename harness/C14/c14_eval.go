package query

//verif:property C14
//verif:pkg lib/query
//verif:setup VerifC14Setup
//verif:harness VerifC14Expressions mode=bv tier=quick split=8
//verif:harness VerifC14Statements mode=bv tier=quick split=4

import (
	"time"

	"github.com/mithrandie/csvq/lib/parser"
	"github.com/mithrandie/csvq/lib/value"
)

// expressions over the variables @i (integer), @j (integer), @f (float), @s, @t (strings),
// @d (datetime), @z (null) and the columns of table t
var verifC14Src = []string{
	"@i + @j", "@i - @f", "@i * 2", "@s || @t", "-@i", "@i / 4", "@i % 7",
	"@i < @j", "@s = @t", "@i between @j and 10", "@i in (1, @j, 3)", "@s like 'a%'", "@z is null", "@i is not null",
	"coalesce(@z, @i, @j)", "if(@i < @j, @s, @t)", "ifnull(@z, @s)", "nullif(@i, @j)", "nullif(@s, @t)",
	"abs(@i)", "ceil(@f)", "floor(@f)", "round(@f, 1)", "sqrt(@f)", "pow(@f, 2)",
	"trim(@s)", "ltrim(@s, 'a')", "rtrim(@t)", "upper(@s)", "lower(@t)", "len(@s)", "byte_len(@t)",
	"lpad(@s, 8, 'x')", "rpad(@t, 8, @s)", "substring(@s, 2)", "substr(@t, 1, 2)", "instr(@s, @t)", "replace(@s, 'a', @t)", "list_elem(@s, 'b', 0)",
	"string(@i)", "integer(@s)", "integer(@f)", "float(@i)", "float(@s)", "boolean(@i)", "ternary(@s)", "datetime(@s)", "string(@d)",
	"year(@d)", "month(@d)", "add_day(@d, @i)", "date_diff(@d, @d)", "datetime_format(@d, '%Y-%m-%d')",
	"case when @i < @j then @s else @t end", "case @i when @j then 1 else @i end",
	"(select max(a) from t)", "(select count(*) from t where a < @i)", "@i = any (select a from t)",
	"format('%s-%d', @s, @i)", "base64_encode(@s)", "hex_encode(@t)",
	"datetime(@d, 'UTC')", "datetime(@s, 'UTC')", "datetime(@i)", "string(@d)", "integer(@d)", "float(@d)", "boolean(@s)", "ternary(@i)",
	"add_month(@d, 1)", "trunc_day(@d)", "datetime_format(@d, @s)", "utc(@d)", "unix_time(@d)", "weekday(@d)",
	"date_diff(@d, datetime(@s))", "time_diff(@d, @d)", "nullif(@d, @d)", "coalesce(@d, @s)", "if(@z is null, @d, @s)",
	"round(@f)", "round(@i, -1)", "ceil(@i)", "floor(@f, 1)", "abs(@f)", "pow(@i, 2)", "log(@f + 3)",
	"len(@i)", "upper(@i)", "trim(@i)", "substring(@s from 2 for 2)", "lpad(@i, 5, '0')", "replace(@s, @t, @s)",
	"@d < @d", "@d = @s", "@d between @d and @d", "@d in (@d, @s)", "(@i, @d) = (@j, @d)", "@s || @i || @f",
	"case when @d is not null then @d else @s end",
	// unary operators on table cells that are any int64 (the ends of the range take their own paths)
	"(select -a from t where b = 'x')", "(select +a from t where b = 'y')", "(select -(-a) from t where b = 'x')",
	"(select abs(a) from t where b = 'x')", "(select a * -1 from t where b = 'y')", "(select -a + 0 from t where b = 'y') is not null",
}

var verifC14Exprs []parser.QueryExpression
var verifC14Progs [][]parser.Statement

var verifC14StmtSrc = []string{
	`select a + @i, b || @s from t where a < @j order by a;`,
	`select count(*) over (), max(a) over (partition by b) from t;`,
	`prepare p from 'select a from t where a < ?'; execute p using @i;`,
	`declare f function (@k) as begin return @k + @i; end; select f(a) from t;`,
	`select a, count(*), listagg(b, ',') from t group by a;`,
	`select distinct b, a % 2 from t;`,
	`update t set b = b || @s where a < @j;`,
	`select t.a, u.b from t inner join t as u on t.a = u.a and u.a < @j;`,
	`execute 'select ' || @s2;`,
	`var @cmd := 'select a from t'; execute @cmd; execute @cmd;`,
	`echo @s; print @s; printf '%s', @s;`,
	// statements that hand a value to the environment, the flags or the output
	`set @%VERIF_X = @s; set @%VERIF_Y = @s || @t; set @%VERIF_Z = ident; select @%VERIF_Y;`,
	`set @@datetime_format = @s; set @@wait_timeout = @f + 20; set @@cpu = @i;`,
	`var @w := @s; @w := @t; select @w, @s;`,
	`declare c cursor for select a, b from t; open c; var @x, @y; fetch c into @x, @y; close c; dispose cursor c; select @x;`,
	// table objects with literal arguments, read twice with other text work in between
	"select b || '-' || a from csv(',', `f.csv`, 'utf8', false); select upper(b) from ltsv(`g.ltsv`, 'UTF8') g; select a from fixed('[1,2]', `h.txt`, 'utf8');",
	"select a from json_table('rows', `j.json`); select a from jsonl('', `k.jsonl`); select c1 from csv_inline(',', 'p,q', 'utf8', true);",
}

func VerifC14Setup() {
	for _, s := range verifC14Src {
		q := verifParseSelect("select " + s)
		verifC14Exprs = append(verifC14Exprs, q.SelectEntity.(parser.SelectEntity).SelectClause.(parser.SelectClause).Fields[0].(parser.Field).Object)
	}
	for _, s := range verifC14StmtSrc {
		verifC14Progs = append(verifC14Progs, verifParse(s))
	}
}

type verifC14State struct {
	i, j  int64
	f     float64
	s, t  string
	cells [][]value.Primary
	a     []int64
	b     []string
	scope *ReferenceScope
}

var verifC14Floats = []float64{1.5, -2.25}
var verifC14Strs = []string{"abc", " a b ", "12", "2012-02-03 09:18:15"}

// verifC14CellOnly: expressions from this marker on read table cells only; the variable menus are fixed for them
const verifC14CellOnlyMarker = "(select -a from t where b = 'x')"

func verifC14Init(scope *ReferenceScope) *verifC14State { return verifC14InitFor(scope, false) }

func verifC14InitFor(scope *ReferenceScope, fixedMenus bool) *verifC14State {
	st := &verifC14State{scope: scope}
	// the subject is aliasing and in-place modification, not arithmetic: integer inputs come from a
	// small menu (concrete arithmetic), table cells stay symbolic
	ints := []int64{-3, 0, 12, 5}
	if fixedMenus {
		st.i, st.j, st.f, st.s, st.t = ints[0], ints[2], verifC14Floats[0], verifC14Strs[0], verifC14Strs[0]
	} else {
		st.i, st.j = ints[verifChoice("i", 3)], ints[2+verifChoice("j", 2)]
		st.f = verifC14Floats[verifChoice("f", len(verifC14Floats))]
		st.s = verifC14Strs[verifChoice("s", len(verifC14Strs))]
		st.t = verifC14Strs[verifChoice("t", 2)]
	}
	verifVar(scope, "i", value.NewInteger(st.i))
	verifVar(scope, "j", value.NewInteger(st.j))
	verifVar(scope, "f", value.NewFloat(st.f))
	verifVar(scope, "s", value.NewString(st.s))
	verifVar(scope, "t", value.NewString(st.t))
	verifVar(scope, "d", value.NewDatetime(time.Unix(1328260695, 0).In(time.UTC)))
	verifVar(scope, "z", value.NewNull())
	st.a = []int64{verifInt64("a"), verifInt64("a")}
	st.b = []string{"x", "y"}
	for r := 0; r < 2; r++ {
		st.cells = append(st.cells, []value.Primary{value.NewInteger(st.a[r]), value.NewString(st.b[r])})
	}
	verifTempTable(scope, "t", []string{"a", "b"}, st.cells)
	verifVar(scope, "s2", value.NewString("'lit'"))
	return st
}

func (st *verifC14State) unchanged(tag string) {
	get := func(n string) value.Primary {
		v, err := st.scope.GetVariable(parser.Variable{Name: n})
		if err != nil {
			return value.NewNull()
		}
		return v
	}
	iv, ok1 := get("i").(*value.Integer)
	jv, ok2 := get("j").(*value.Integer)
	fv, ok3 := get("f").(*value.Float)
	sv, ok4 := get("s").(*value.String)
	tv, ok5 := get("t").(*value.String)
	dv, ok6 := get("d").(*value.Datetime)
	verifAssert(tag+": variables keep their types", ok1 && ok2 && ok3 && ok4 && ok5 && ok6)
	verifAssert(tag+": integer variables unchanged", verifAnd(iv.Raw() == st.i, jv.Raw() == st.j))
	verifAssert(tag+": float variable unchanged", fv.Raw() == st.f)
	verifAssert(tag+": string variables unchanged", sv.Raw() == st.s && tv.Raw() == st.t)
	verifAssert(tag+": datetime variable unchanged", dv.Raw().Unix() == 1328260695)
}

func (st *verifC14State) tableUnchanged(tag string, bWant []string) {
	v := verifStored(st.scope, "T")
	verifAssert(tag+": table keeps its rows", v.RecordLen() == 2)
	for r := 0; r < 2 && r < v.RecordLen(); r++ {
		ai, ok := v.RecordSet[r][0][0].(*value.Integer)
		verifAssert(tag+": integer cell unchanged", ok && ai.Raw() == st.a[r])
		bs, ok := v.RecordSet[r][1][0].(*value.String)
		verifAssert(tag+": string cell unchanged", ok && bs.Raw() == bWant[r])
	}
}

// Evaluating an expression (operators, built-in functions, CASE, subqueries) leaves every variable
// and table cell it reads unchanged - also after the value pools have been churned, which reissues
// any object that was discarded while still referenced - and evaluating it again gives the same value.
func VerifC14Expressions() {
	tx := verifNewTx()
	scope := NewReferenceScope(tx)
	ei := verifChoice("expr", len(verifC14Src))
	cellOnly := 0
	for k, src := range verifC14Src {
		if src == verifC14CellOnlyMarker {
			cellOnly = k
		}
	}
	st := verifC14InitFor(scope, cellOnly > 0 && ei >= cellOnly)
	r1, err1 := Evaluate(verifCtx(), scope, verifC14Exprs[ei])
	verifC14Churn()
	st.unchanged("after evaluation")
	st.tableUnchanged("after evaluation", st.b)
	r2, err2 := Evaluate(verifCtx(), scope, verifC14Exprs[ei])
	verifAssert("same outcome class on re-evaluation", (err1 == nil) == (err2 == nil))
	if err1 == nil && err2 == nil {
		verifAssert("first result still intact and equal to the second", verifSamePrimary(r1, r2))
	}
	verifC14Churn()
	st.unchanged("after re-evaluation")
	verifObserveBool("error", err1 != nil)
	verifReach("end")
}

// Whole statements run twice by the real Processor (query with analytic functions, prepared
// statement, user-defined function, GROUP BY, DISTINCT, join): both runs return the same rows and
// leave variables and (for queries) the table unchanged.
func VerifC14Statements() {
	tx := verifNewTx()
	tx.Flags.Quiet = true
	proc := NewProcessor(tx)
	scope := proc.ReferenceScope
	st := verifC14Init(scope)
	pi := verifChoice("program", len(verifC14StmtSrc))
	ctx := ContextForStoringResults(verifCtx())
	run := func(stmts []parser.Statement) ([][]value.Primary, error) {
		_, err := proc.Execute(ctx, stmts)
		var rows [][]value.Primary
		for _, v := range tx.SelectedViews {
			for _, rec := range v.RecordSet {
				row := make([]value.Primary, len(rec))
				for c := range rec {
					row[c] = rec[c][0]
				}
				rows = append(rows, row)
			}
		}
		return rows, err
	}
	prog := verifC14Progs[pi]
	verifFileWrite("f.csv", "a,b\n1,x\n")
	verifFileWrite("g.ltsv", "a:1\tb:x\n")
	verifFileWrite("h.txt", "1x\n")
	verifFileWrite("j.json", "{\"rows\":[{\"a\":\"1\"}]}")
	verifFileWrite("k.jsonl", "{\"a\":\"1\"}\n")
	text0 := verifProgText(prog)
	rows1, err1 := run(prog)
	verifAssert("statement runs", err1 == nil)
	verifC14Churn()
	verifAssert("the statements print as before the first run", verifProgText(prog) == text0)
	st.unchanged("after the first run")
	// second run: for programs that declare something, only the last statement is repeated
	again := prog
	if pi == 2 || pi == 3 || pi == 9 || pi == 13 || pi == 14 {
		again = prog[len(prog)-1:]
	}
	if s2, err := scope.GetVariable(parser.Variable{Name: "s2"}); true {
		sv, ok := s2.(*value.String)
		verifAssert("a variable that EXECUTE only reads keeps its value", err == nil && ok && sv.Raw() == "'lit'")
	}
	if pi == 9 {
		cv, err := scope.GetVariable(parser.Variable{Name: "cmd"})
		cs, ok := cv.(*value.String)
		verifAssert("the statement text variable is unchanged after EXECUTE", err == nil && ok && cs.Raw() == "select a from t")
	}
	if pi == 6 {
		// UPDATE: its effect must be exactly one application per run
		want := []string{st.b[0], st.b[1]}
		for r := 0; r < 2; r++ {
			if st.a[r] < st.j {
				want[r] += st.s
			}
		}
		st.tableUnchanged("after one UPDATE", want)
		verifReach("end-update")
		return
	}
	st.tableUnchanged("after the first run", st.b)
	rows2, err2 := run(again)
	verifAssert("statement runs again", err2 == nil)
	if pi == 9 {
		// the first run executed the text twice, the repetition once
		verifAssert("EXECUTE of the same text returns the same rows each time", len(rows1) == 2*len(rows2))
		rows1 = rows1[:len(rows2)]
	}
	verifAssert("same number of rows on the second run", len(rows1) == len(rows2))
	for r := 0; r < len(rows1) && r < len(rows2); r++ {
		verifAssert("same row width", len(rows1[r]) == len(rows2[r]))
		for c := 0; c < len(rows1[r]) && c < len(rows2[r]); c++ {
			verifAssert("same value on the second run", verifSamePrimary(rows1[r][c], rows2[r][c]))
		}
	}
	verifC14Churn()
	verifAssert("the statements print as before after the second run", verifProgText(prog) == text0)
	st.unchanged("after the second run")
	st.tableUnchanged("after the second run", st.b)
	verifObserve("rows", int64(len(rows1)))
	verifReach("end")
}

// verifProgText: the text csvq derives from the syntax trees of the statements that can be printed.
func verifProgText(prog []parser.Statement) string {
	out := ""
	for _, st := range prog {
		if p, ok := st.(interface{ String() string }); ok {
			out += p.String() + ";"
		} else if d, ok := st.(parser.CursorDeclaration); ok {
			out += d.Query.String() + ";"
		}
	}
	return out
}
