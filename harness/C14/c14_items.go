package query

//verif:property C14
//verif:pkg lib/query
//verif:setup VerifC14ItemsSetup
//verif:harness VerifC14SelectItems mode=bv tier=quick split=6

import (
	"github.com/mithrandie/csvq/lib/parser"
	"github.com/mithrandie/csvq/lib/value"
)

// items that only read the row (or group) they are evaluated for
var verifC14Items = []string{
	"json_object()", "json_object(b)", "json_object(b, a)", "json_object(a + 1 as n, b)",
	"(select count(*) from t as u where u.a = t.a)", "coalesce(b, 'x')", "string(a) || b", "b || b",
	"case when a = 1 then b else 'q' end", "a in (select u.a from t as u)", "nullif(b, 'y')", "+a", "+a + 1", "-(-a)",
	"if(a = 1, a, b)", "format('%s', b)", "lower(b)", "replace(b, 'x', 'w')", "instr(b, 'y')",
}
var verifC14GroupItems = []string{
	"json_object()", "json_object(a)", "count(distinct a)", "count(distinct b)", "listagg(distinct b, ',')", "max(b)", "min(a)",
	"json_agg(b)", "median(a)", "count(distinct a + 1)", "sum(distinct a)", "avg(distinct a)", "listagg(b, '-') within group (order by b desc)",
}

type verifC14Form struct {
	with, without parser.SelectQuery
	pos           int // column of the item in the result with it; -1: it adds no column
}

var verifC14Forms, verifC14GroupForms [][]verifC14Form

func VerifC14ItemsSetup() {
	for _, x := range verifC14Items {
		verifC14Forms = append(verifC14Forms, []verifC14Form{
			{verifParseSelect("select " + x + ", a, b from t"), verifParseSelect("select a, b from t"), 0},
			{verifParseSelect("select a + 1 as c, " + x + ", a, b from t"), verifParseSelect("select a + 1 as c, a, b from t"), 1},
			{verifParseSelect("select a, b from t where " + x + " is not null or a = a"), verifParseSelect("select a, b from t"), -1},
		})
	}
	for _, x := range verifC14GroupItems {
		verifC14GroupForms = append(verifC14GroupForms, []verifC14Form{
			{verifParseSelect("select " + x + ", count(*), count(a), sum(a), listagg(b, ','), max(a), min(b) from t group by a"), verifParseSelect("select count(*), count(a), sum(a), listagg(b, ','), max(a), min(b) from t group by a"), 0},
			{verifParseSelect("select b, " + x + ", count(*), sum(a), listagg(a, ',') from t group by b"), verifParseSelect("select b, count(*), sum(a), listagg(a, ',') from t group by b"), 1},
			{verifParseSelect("select " + x + ", count(*), sum(a), listagg(b, ',') from t"), verifParseSelect("select count(*), sum(a), listagg(b, ',') from t"), 0},
			{verifParseSelect("select count(*), sum(a), listagg(b, ',') from t group by a having " + x + " is not null or 1 = 1"), verifParseSelect("select count(*), sum(a), listagg(b, ',') from t group by a"), -1},
			// grouped by every column, the item behind a computed column
			{verifParseSelect("select count(*), " + x + ", count(*) + 0, count(b), sum(a), listagg(a, ',') from t group by a, b"), verifParseSelect("select count(*), count(*) + 0, count(b), sum(a), listagg(a, ',') from t group by a, b"), 1},
		})
	}
}

// A select item (or a condition) that only reads its row or group, put in front of the other items of a
// query: the other columns of the result are cell for cell what they are without it, the table keeps
// its cells, and the plain query gives the same rows afterwards.  Rows and groups: a table of 4 rows
// (a: 1, 1, 2, 1 with the duplicate before a different value; b: texts, one repeated).
func VerifC14SelectItems() {
	tx := verifNewTx()
	scope := NewReferenceScope(tx)
	as := []int64{1, 1, 2, 1}
	bs := []string{"x", "y", "z", "x"}
	cells := make([][]value.Primary, len(as))
	for i := range as {
		cells[i] = []value.Primary{value.NewInteger(as[i]), value.NewString(bs[i])}
	}
	verifTempTable(scope, "t", []string{"a", "b"}, cells)
	grouped := verifBool("grouped")
	var form verifC14Form
	if grouped {
		xi := verifChoice("item", len(verifC14GroupItems))
		fi := verifChoice("form", 5)
		form = verifC14GroupForms[xi][fi]
		verifObserve("form", int64(fi))
	} else {
		xi := verifChoice("item", len(verifC14Items))
		fi := verifChoice("form", 3)
		form = verifC14Forms[xi][fi]
		verifObserve("form", int64(fi))
	}
	rowsOf := func(q parser.SelectQuery) ([][]value.Primary, error) {
		v, err := Select(verifCtx(), scope, q)
		if err != nil {
			return nil, err
		}
		return verifRowsOfC14(v), nil
	}
	want, err0 := rowsOf(form.without)
	verifAssert("the plain query runs", err0 == nil)
	got, err1 := rowsOf(form.with)
	if err1 != nil {
		// an item the context does not allow: not a subject
		verifReach("refused")
		return
	}
	verifC14Churn()
	verifAssert("same number of rows with and without the item", len(got) == len(want))
	for r := 0; r < len(got) && r < len(want); r++ {
		// the item's own column is dropped
		g := got[r]
		if form.pos >= 0 && form.pos < len(g) {
			g = append(append([]value.Primary{}, g[:form.pos]...), g[form.pos+1:]...)
		}
		verifAssert("same row width apart from the item", len(g) == len(want[r]))
		for c := 0; c < len(g) && c < len(want[r]); c++ {
			verifAssert("the other columns are what they are without the item", verifSamePrimary(g[c], want[r][c]))
		}
	}
	stored := verifStored(scope, "T")
	verifAssert("the table keeps its rows", stored.RecordLen() == len(as))
	for i := 0; i < stored.RecordLen() && i < len(as); i++ {
		verifAssert("the table keeps its cells", len(stored.RecordSet[i]) == 2 && stored.RecordSet[i][0][0] == cells[i][0] && stored.RecordSet[i][1][0] == cells[i][1])
		iv, ok1 := cells[i][0].(*value.Integer)
		sv, ok2 := cells[i][1].(*value.String)
		verifAssert("the cells keep their values", ok1 && ok2 && iv.Raw() == as[i] && sv.Raw() == bs[i])
	}
	again, err2 := rowsOf(form.without)
	verifAssert("the plain query runs again", err2 == nil && len(again) == len(want))
	for r := 0; r < len(again) && r < len(want); r++ {
		for c := 0; c < len(again[r]) && c < len(want[r]); c++ {
			verifAssert("the plain query gives the same rows afterwards", verifSamePrimary(again[r][c], want[r][c]))
		}
	}
	verifObserve("rows", int64(len(got)))
	verifReach("end")
}

func verifRowsOfC14(v *View) [][]value.Primary {
	out := make([][]value.Primary, v.RecordLen())
	for i, rec := range v.RecordSet {
		row := make([]value.Primary, len(rec))
		for c := range rec {
			row[c] = rec[c][0]
		}
		out[i] = row
	}
	return out
}
