package query

//verif:property C14
//verif:pkg lib/query
//verif:setup VerifC14LargeSetup
//verif:harness VerifC14LargeTables mode=bv tier=quick split=4

import (
	"strconv"

	"github.com/mithrandie/csvq/lib/parser"
	"github.com/mithrandie/csvq/lib/value"
)

var verifC14LargeQ []parser.SelectQuery

func VerifC14LargeSetup() {
	for _, s := range []string{
		"select city from big",
		"select name, id from big",
		"select city, count(*) from big group by city",
		"select distinct city from big",
		"select id from big order by city desc, id limit 5 offset 3",
		"select id, row_number() over (partition by city order by id desc) from big",
		"select b.id from big as b inner join (select id from big where id < 3) c on b.id = c.id",
	} {
		verifC14LargeQ = append(verifC14LargeQ, verifParseSelect(s))
	}
}

// Tables on the far side of csvq's size thresholds (300 prepared records, 80 records per worker): a
// temporary table of 161, 301 or 340 records is read by a reading statement (projection, grouping,
// DISTINCT, ORDER BY with LIMIT / OFFSET, an analytic function, a join with a subquery on itself) with one or
// four workers, then read again: every cell of the stored table is the object and the value it was, and
// a plain SELECT * returns the table as declared.
func VerifC14LargeTables() {
	sizes := []int{161, 301, 340}
	n := sizes[verifChoice("size", len(sizes))]
	tx := verifNewTx()
	tx.Flags.CPU = 1 + 3*verifChoice("workers", 2)
	scope := NewReferenceScope(tx)
	rows := make([][]value.Primary, n)
	for i := range rows {
		rows[i] = []value.Primary{value.NewInteger(int64(i)), value.NewString("name" + strconv.Itoa(i)), value.NewString("city" + strconv.Itoa(i%7))}
	}
	verifTempTable(scope, "big", []string{"id", "name", "city"}, rows)
	qi := verifChoice("query", len(verifC14LargeQ))
	_, err := Select(verifCtx(), scope, verifC14LargeQ[qi])
	verifAssert("the statement runs", err == nil)
	verifC14Churn()
	stored := verifStored(scope, "BIG")
	verifAssert("the table keeps its records", stored.RecordLen() == n)
	ok := stored.RecordLen() == n
	for i := 0; ok && i < n; i++ {
		rec := stored.RecordSet[i]
		if len(rec) != 3 || rec[0][0] != rows[i][0] || rec[1][0] != rows[i][1] || rec[2][0] != rows[i][2] {
			ok = false
			break
		}
		id, ok1 := rec[0][0].(*value.Integer)
		nm, ok2 := rec[1][0].(*value.String)
		ct, ok3 := rec[2][0].(*value.String)
		if !ok1 || !ok2 || !ok3 || id.Raw() != int64(i) || nm.Raw() != "name"+strconv.Itoa(i) || ct.Raw() != "city"+strconv.Itoa(i%7) {
			ok = false
		}
	}
	verifAssert("every cell of the stored table is the object and the value it was", ok)
	all, err := Select(verifCtx(), scope, verifParseSelectAllBig())
	verifAssert("SELECT * runs afterwards", err == nil && all.RecordLen() == n && all.FieldLen() == 3)
	same := err == nil && all.RecordLen() == n && all.FieldLen() == 3
	for i := 0; same && i < n; i++ {
		rec := all.RecordSet[i]
		id, ok1 := rec[0][0].(*value.Integer)
		nm, ok2 := rec[1][0].(*value.String)
		ct, ok3 := rec[2][0].(*value.String)
		if !ok1 || !ok2 || !ok3 || id.Raw() != int64(i) || nm.Raw() != "name"+strconv.Itoa(i) || ct.Raw() != "city"+strconv.Itoa(i%7) {
			same = false
		}
	}
	verifAssert("SELECT * returns the table as declared", same)
	verifObserve("records", int64(n))
	verifReach("end")
}

var verifC14LargeAll parser.SelectQuery

func verifParseSelectAllBig() parser.SelectQuery { return verifC14LargeAll }

//verif:setup VerifC14LargeSetup2
func VerifC14LargeSetup2() { verifC14LargeAll = verifParseSelect("select * from big") }
