package query

//verif:property C03
//verif:pkg lib/query
//verif:setup VerifC03UsingSetup
//verif:harness VerifC03UsingTwoKeys mode=bv tier=quick split=8

import (
	"github.com/mithrandie/csvq/lib/parser"
	"github.com/mithrandie/csvq/lib/value"
)

var verifC03UsingSrc = []string{
	"select id, id2, k1, k2 from a inner join b using (k1, k2)", // 0
	"select id, id2, k1, k2 from a left join b using (k1, k2)",  // 1
	"select id, id2, k1, k2 from a right join b using (k1, k2)", // 2
	"select id, id2, k1, k2 from a full join b using (k1, k2)",  // 3
	"select id, id2, k1, k2 from a natural left join b",         // 4
	"select * from a full join b using (k2, k1)",                // 5: merged columns first, in USING order
	"select id, id2 from a left join b using (k1, k2) where k2 is not null", // 6
}
var verifC03UsingQ []parser.SelectQuery

func VerifC03UsingSetup() {
	for _, s := range verifC03UsingSrc {
		verifC03UsingQ = append(verifC03UsingQ, verifParseSelect(s))
	}
}

type verifC03Row struct {
	n1, n2 bool
	v1, v2 int64
	p1, p2 value.Primary
}

func verifC03Rows(tag string, n int) []verifC03Row {
	rs := make([]verifC03Row, n)
	for i := range rs {
		r := &rs[i]
		r.n1, r.v1 = verifBool(tag+".k1.null"), verifInt64(tag+".k1")
		r.n2, r.v2 = verifBool(tag+".k2.null"), verifInt64(tag+".k2")
		r.p1, r.p2 = value.Primary(value.NewInteger(r.v1)), value.Primary(value.NewInteger(r.v2))
		if r.n1 {
			r.p1 = value.NewNull()
		}
		if r.n2 {
			r.p2 = value.NewNull()
		}
	}
	return rs
}

// USING / NATURAL joins on two columns, tables of 1..2 and 1 (1..2) rows whose keys are NULL or any int64: a pair
// matches iff both keys are non-NULL and equal; each merged column appears once and holds, column by
// column, the value of whichever side the row came from - an unmatched row keeps its own second key
// even when its first key is NULL.
func VerifC03UsingTwoKeys() {
	tx := verifNewTx()
	scope := NewReferenceScope(tx)
	na := 1 + verifChoice("na", 2)
	nb := 1 + verifChoice("nb", verifBound(1, 2))
	a, b := verifC03Rows("a", na), verifC03Rows("b", nb)
	ra := make([][]value.Primary, na)
	for i := range ra {
		ra[i] = []value.Primary{value.NewInteger(int64(i)), a[i].p1, a[i].p2}
	}
	rb := make([][]value.Primary, nb)
	for j := range rb {
		rb[j] = []value.Primary{value.NewInteger(int64(j)), b[j].p1, b[j].p2}
	}
	verifTempTable(scope, "a", []string{"id", "k1", "k2"}, ra)
	verifTempTable(scope, "b", []string{"id2", "k1", "k2"}, rb)
	qi := verifChoice("query", len(verifC03UsingSrc))
	view, err := Select(verifCtx(), scope, verifC03UsingQ[qi])
	verifAssert("select succeeds", err == nil)
	if err != nil {
		return
	}
	match := func(i, j int) bool {
		return !a[i].n1 && !b[j].n1 && a[i].v1 == b[j].v1 && !a[i].n2 && !b[j].n2 && a[i].v2 == b[j].v2
	}
	kind := [7]int{0, 1, 2, 3, 1, 3, 1}[qi]
	want := map[[2]int]int{}
	matchedB := make([]bool, nb)
	for i := 0; i < na; i++ {
		any := false
		for j := 0; j < nb; j++ {
			if match(i, j) {
				want[[2]int{i, j}]++
				any = true
				matchedB[j] = true
			}
		}
		if !any && (kind == 1 || kind == 3) && (qi != 6 || !a[i].n2) {
			want[[2]int{i, -1}]++
		}
	}
	if kind == 2 || kind == 3 {
		for j := 0; j < nb; j++ {
			if !matchedB[j] {
				want[[2]int{-1, j}]++
			}
		}
	}
	total := 0
	for _, c := range want {
		total += c
	}
	verifAssert("number of result rows", view.RecordLen() == total)
	// column positions of id, id2, k1, k2 in the result
	cid, cid2, c1, c2 := 0, 1, 2, 3
	if qi == 5 {
		verifAssert("merged columns once, first, in USING order", view.FieldLen() == 4 && view.Header[0].Column == "k2" && view.Header[1].Column == "k1" && view.Header[2].Column == "id" && view.Header[3].Column == "id2")
		cid, cid2, c1, c2 = 2, 3, 1, 0
	}
	if qi == 6 {
		c1, c2 = -1, -1
	}
	got := map[[2]int]int{}
	for r := 0; r < view.RecordLen(); r++ {
		rec := view.RecordSet[r]
		if len(rec) <= cid2 || (c1 >= 0 && len(rec) != 4) {
			verifAssert("record as wide as the select list", false)
			continue
		}
		key := [2]int{verifIdOf(rec[cid][0]), verifIdOf(rec[cid2][0])}
		got[key]++
		verifAssert("result row is expected, with its multiplicity", got[key] <= want[key])
		if c1 < 0 {
			continue
		}
		src := verifC03Row{}
		if key[0] >= 0 && key[0] < na {
			src = a[key[0]]
		} else if key[1] >= 0 && key[1] < nb {
			src = b[key[1]]
		} else {
			continue
		}
		g1, g2 := rec[c1][0], rec[c2][0]
		verifAssert("first merged column holds the row's own first key", (src.n1 && value.IsNull(g1)) || (!src.n1 && !value.IsNull(g1) && verifIdOf64(g1) == src.v1))
		verifAssert("second merged column holds the row's own second key", (src.n2 && value.IsNull(g2)) || (!src.n2 && !value.IsNull(g2) && verifIdOf64(g2) == src.v2))
	}
	verifObserve("rows", int64(view.RecordLen()))
	verifReach("end")
}

func verifIdOf64(p value.Primary) int64 {
	if i, ok := p.(*value.Integer); ok {
		return i.Raw()
	}
	return -1
}
