package query

//verif:property C03
//verif:pkg lib/query
//verif:setup VerifC03Setup
//verif:harness VerifC03Joins mode=bv tier=quick split=8
//verif:harness VerifC03FilterProject mode=bv tier=quick split=4

import (
	"github.com/mithrandie/csvq/lib/parser"
	"github.com/mithrandie/csvq/lib/value"
)

var verifC03JoinSrc = []string{
	"select a.id, b.id2 from a inner join b on a.k = b.k",                    // 0
	"select a.id, b.id2 from a left join b on a.k = b.k",                     // 1
	"select a.id, b.id2 from a right join b on a.k = b.k",                    // 2
	"select a.id, b.id2 from a full join b on a.k = b.k",                     // 3
	"select a.id, b.id2 from a cross join b",                                 // 4
	"select id, id2, k from a inner join b using (k)",                        // 5
	"select id, id2, k from a natural join b",                                // 6
	"select id, id2, k from a left join b using (k)",                         // 7
	"select id, id2, k from a full join b using (k)",                         // 8
	"select a.id, b.id2 from a, b where a.k = b.k",                           // 9
	"select a.id, s.id2 from a inner join (select id2, k from b) s on a.k = s.k", // 10
	"select a.id, s.c from a cross join lateral (select count(*) as c from b where b.k = a.k) s", // 11
}

var verifC03FilterSrc = []string{
	"select id from a where k < @x",                                                       // 0
	"select id, k from (select id, k from a where k >= @x) s where k < @y",                // 1
	"select A.* from a",                                                                   // 2: the qualifier in another letter case
	"with c as (select id, k from a where k < @x) select id from c",                       // 3
	"select k, id from a where not (k < @x)",                                              // 4
	"select id from a where k < @x or k >= @y",                                            // 5
	"select id from a where k in (select k from a where k >= @x)",                         // 6
	"select id from a where exists (select 1 from a as z where z.k = a.k and z.id <> a.id)", // 7
	"with recursive r (n) as (select 1 union all select n + 1 from r where n < @m) select n from r", // 8
	"select id, (select count(*) from a as z where z.k < a.k) from a",                     // 9
	"with c as (select id, k from a) select y.id from (select id, k from c where k >= @x) x cross join c y where x.id = y.id or y.id = 0", // 10: CTE read twice
	"with c as (select k, id from a) select id from c where k < @x union all select id from c", // 11
	"select id from a where k not in (select z.k from a as z where z.k >= @x)",            // 12: the list may be empty, k may be NULL
	"select id from a where k <> all (select z.k from a as z where z.k >= @x)",            // 13
	"select id from a where not (k = any (select z.k from a as z where z.k >= @x))",       // 14
	"select id from a where k not in (select z.k from a as z where z.k > a.k)",            // 15: correlated; for a NULL k the list is empty
	"select id from a where not exists (select 1 from a as z where z.k > a.k)",            // 16
	"select id from a where k < @x and exists (select 1 from a as z where k >= @y)",       // 17: the inner, unqualified k is z's, although the outer k was just evaluated
	"select id from a where id >= 0 and id in (select id from a as z where k >= @x)",      // 18
	"select id, (select count(*) from a as z where k = a.k) from a where k = k",           // 19
	"select id from a where k not between (select z.k from a as z where 1 = 0) and @x",    // 20: the lower bound is NULL (a subquery without a row)
	"select id from a where not (k between @x and (select max(z.k) from a as z where 1 = 0))", // 21: the upper bound is NULL
}

var verifC03Joins, verifC03Filters []parser.SelectQuery

func VerifC03Setup() {
	for _, s := range verifC03JoinSrc {
		verifC03Joins = append(verifC03Joins, verifParseSelect(s))
	}
	for _, s := range verifC03FilterSrc {
		verifC03Filters = append(verifC03Filters, verifParseSelect(s))
	}
}

type verifKey struct {
	null bool
	v    int64
}

func verifKeys(tag string, n int) ([]verifKey, []value.Primary) {
	ks := make([]verifKey, n)
	ps := make([]value.Primary, n)
	for i := range ks {
		ks[i] = verifKey{null: verifBool(tag + ".null"), v: verifInt64(tag)}
		if ks[i].null {
			ps[i] = value.NewNull()
		} else {
			ps[i] = value.NewInteger(ks[i].v)
		}
	}
	return ks, ps
}

// Joins of two temporary tables (<= 2 rows each, thorough 3 x 2) whose join keys are NULL or any
// int64, through the real parser and Select pipeline: the result is exactly the multiset of row
// pairs the operator's definition yields (condition TRUE, unmatched rows NULL-padded, USING /
// NATURAL column merged once).
func VerifC03Joins() {
	tx := verifNewTx()
	scope := NewReferenceScope(tx)
	na := 1 + verifChoice("na", verifBound(2, 3))
	nb := 1 + verifChoice("nb", 2)
	switch verifChoice("emptyb", 5) { // either side may have no rows at all
	case 0:
		nb = 0
	case 1:
		na = 0
	}
	ka, pa := verifKeys("ka", na)
	kb, pb := verifKeys("kb", nb)
	ra := make([][]value.Primary, na)
	for i := range ra {
		ra[i] = []value.Primary{value.NewInteger(int64(i)), pa[i]}
	}
	rb := make([][]value.Primary, nb)
	for j := range rb {
		rb[j] = []value.Primary{value.NewInteger(int64(j)), pb[j]}
	}
	verifTempTable(scope, "a", []string{"id", "k"}, ra)
	verifTempTable(scope, "b", []string{"id2", "k"}, rb)
	qi := verifChoice("query", len(verifC03JoinSrc))
	view, err := Select(verifCtx(), scope, verifC03Joins[qi])
	verifAssert("select succeeds", err == nil)

	match := func(i, j int) bool { return !ka[i].null && !kb[j].null && ka[i].v == kb[j].v }
	// expected multiset of (id, id2) with -1 for a NULL-padded side
	want := map[[2]int]int{}
	kind := qi
	switch qi {
	case 5, 6, 9, 10:
		kind = 0
	case 7:
		kind = 1
	case 8:
		kind = 3
	}
	if qi == 11 {
		for i := 0; i < na; i++ {
			c := 0
			for j := 0; j < nb; j++ {
				if match(i, j) {
					c++
				}
			}
			want[[2]int{i, c}]++
		}
	} else {
		matchedB := make([]bool, nb)
		for i := 0; i < na; i++ {
			any := false
			for j := 0; j < nb; j++ {
				if kind == 4 || match(i, j) {
					want[[2]int{i, j}]++
					any = true
					matchedB[j] = true
				}
			}
			if !any && (kind == 1 || kind == 3) {
				want[[2]int{i, -1}]++
			}
		}
		if kind == 2 || kind == 3 {
			for j := 0; j < nb; j++ {
				if !matchedB[j] {
					want[[2]int{-1, j}]++
				}
			}
		}
	}
	got := map[[2]int]int{}
	total := 0
	for _, c := range want {
		total += c
	}
	verifAssert("number of result rows", view.RecordLen() == total)
	for r := 0; r < view.RecordLen(); r++ {
		rec := view.RecordSet[r]
		key := [2]int{verifIdOf(rec[0][0]), verifIdOf(rec[1][0])}
		got[key]++
		verifAssert("result row is expected, with its multiplicity", got[key] <= want[key])
		if qi >= 5 && qi <= 8 {
			// merged USING/NATURAL column: the key of whichever side is present
			k := rec[2][0]
			switch {
			case key[0] >= 0:
				verifAssert("merged column holds the left key", k == pa[key[0]] || (value.IsNull(k) && ka[key[0]].null))
			default:
				verifAssert("merged column holds the right key", k == pb[key[1]] || (value.IsNull(k) && kb[key[1]].null))
			}
			verifAssert("merged column appears once", len(rec) == 3)
		}
	}
	verifObserve("rows", int64(view.RecordLen()))
	verifReach("end")
}

// WHERE / projection / subqueries / CTEs over one table of <= 3 rows (thorough 4): a row is kept iff
// its condition is TRUE, source order is kept, selected columns come in select order.
func VerifC03FilterProject() {
	tx := verifNewTx()
	scope := NewReferenceScope(tx)
	n := verifChoice("n", verifBound(4, 5))
	ks, ps := verifKeys("k", n)
	rows := make([][]value.Primary, n)
	for i := range rows {
		rows[i] = []value.Primary{value.NewInteger(int64(i)), ps[i]}
	}
	verifTempTable(scope, "a", []string{"id", "k"}, rows)
	x, y := verifInt64("x"), verifInt64("y")
	m := verifInt64("m")
	verifAssume(m >= -1)
	verifAssume(m <= 3)
	verifVar(scope, "x", value.NewInteger(x))
	verifVar(scope, "y", value.NewInteger(y))
	verifVar(scope, "m", value.NewInteger(m))
	qi := verifChoice("query", len(verifC03FilterSrc))
	view, err := Select(verifCtx(), scope, verifC03Filters[qi])
	verifAssert("select succeeds", err == nil)
	lt := func(k verifKey, v int64) bool { return !k.null && k.v < v }
	ge := func(k verifKey, v int64) bool { return !k.null && k.v >= v }
	var want []int
	idCol := 0
	switch qi {
	case 0, 3:
		for i := 0; i < n; i++ {
			if lt(ks[i], x) {
				want = append(want, i)
			}
		}
	case 1:
		for i := 0; i < n; i++ {
			if ge(ks[i], x) && lt(ks[i], y) {
				want = append(want, i)
			}
		}
	case 2, 9:
		for i := 0; i < n; i++ {
			want = append(want, i)
		}
	case 4:
		idCol = 1
		for i := 0; i < n; i++ {
			if ge(ks[i], x) { // NOT(k < x) is TRUE only for non-null k >= x
				want = append(want, i)
			}
		}
	case 5:
		for i := 0; i < n; i++ {
			if lt(ks[i], x) || ge(ks[i], y) {
				want = append(want, i)
			}
		}
	case 6:
		for i := 0; i < n; i++ {
			if ge(ks[i], x) {
				want = append(want, i)
			}
		}
	case 7:
		for i := 0; i < n; i++ {
			dup := false
			for j := 0; j < n; j++ {
				if j != i && !ks[i].null && !ks[j].null && ks[i].v == ks[j].v {
					dup = true
				}
			}
			if dup {
				want = append(want, i)
			}
		}
	case 10:
		for i := 0; i < n; i++ {
			if ge(ks[i], x) {
				if i != 0 {
					want = append(want, 0) // y.id = 0 partner first (y in table order)
				}
				want = append(want, i)
			}
		}
	case 11:
		for i := 0; i < n; i++ {
			if lt(ks[i], x) {
				want = append(want, i)
			}
		}
		for i := 0; i < n; i++ {
			want = append(want, i)
		}
	case 12, 13, 14:
		// the list holds the non-NULL keys >= x: over an empty list NOT IN / <> ALL are TRUE for every row,
		// also for a NULL key; otherwise TRUE iff the key is not NULL and not in the list
		empty := true
		for i := 0; i < n; i++ {
			if ge(ks[i], x) {
				empty = false
			}
		}
		for i := 0; i < n; i++ {
			if empty || lt(ks[i], x) {
				want = append(want, i)
			}
		}
	case 20:
		// NOT (NULL <= k AND k <= x): TRUE exactly when k <= x is FALSE
		for i := 0; i < n; i++ {
			if !ks[i].null && ks[i].v > x {
				want = append(want, i)
			}
		}
	case 21:
		for i := 0; i < n; i++ {
			if lt(ks[i], x) {
				want = append(want, i)
			}
		}
	case 17:
		any := false
		for j := 0; j < n; j++ {
			if ge(ks[j], y) {
				any = true
			}
		}
		for i := 0; i < n; i++ {
			if any && lt(ks[i], x) {
				want = append(want, i)
			}
		}
	case 18:
		for i := 0; i < n; i++ {
			if ge(ks[i], x) {
				want = append(want, i)
			}
		}
	case 19:
		for i := 0; i < n; i++ {
			if !ks[i].null {
				want = append(want, i)
			}
		}
	case 15:
		// the list of row i holds keys greater than its own (none for a NULL key): never equal, never NULL
		for i := 0; i < n; i++ {
			want = append(want, i)
		}
	case 16:
		for i := 0; i < n; i++ {
			greater := false
			for j := 0; j < n; j++ {
				if !ks[i].null && !ks[j].null && ks[j].v > ks[i].v {
					greater = true
				}
			}
			if !greater {
				want = append(want, i)
			}
		}
	case 8:
		want = append(want, 1)
		for v := int64(2); v <= m; v++ {
			want = append(want, int(v))
		}
	}
	verifAssert("number of rows kept", view.RecordLen() == len(want))
	for r := 0; r < view.RecordLen() && r < len(want); r++ {
		verifAssert("kept rows, in source order", verifIdOf(view.RecordSet[r][idCol][0]) == want[r])
		switch qi {
		case 1, 2:
			verifAssert("projected cell is the source cell", view.RecordSet[r][1][0] == ps[want[r]])
		case 4:
			verifAssert("columns in select order", view.RecordSet[r][0][0] == ps[want[r]])
		case 19:
			c := 0
			for j := 0; j < n; j++ {
				if !ks[j].null && !ks[want[r]].null && ks[j].v == ks[want[r]].v {
					c++
				}
			}
			verifAssert("correlated scalar subquery with an unqualified inner column", verifIdOf(view.RecordSet[r][1][0]) == c)
		case 9:
			c := 0
			for j := 0; j < n; j++ {
				if !ks[j].null && lt(ks[j], ks[r].v) && !ks[r].null {
					c++
				}
			}
			verifAssert("correlated scalar subquery per row", verifIdOf(view.RecordSet[r][1][0]) == c)
		}
	}
	if qi == 2 {
		verifAssert("select * keeps the column order", view.FieldLen() == 2 && view.Header[0].Column == "id" && view.Header[1].Column == "k")
	}
	verifObserve("rows", int64(view.RecordLen()))
	verifReach("end")
}
