package query

//verif:property C03
//verif:pkg lib/query
//verif:setup VerifC03SplitSetup
//verif:harness VerifC03SplitJoins mode=bv tier=quick split=4

import (
	"github.com/mithrandie/csvq/lib/parser"
	"github.com/mithrandie/csvq/lib/value"
)

var verifC03Split [5]parser.SelectQuery

func VerifC03SplitSetup() {
	for i, j := range []string{"inner join r on l.k = r.k", "left join r on l.k = r.k", "right join r on l.k = r.k", "full join r on l.k = r.k", "full join r using (k)"} {
		verifC03Split[i] = verifParseSelect("select l.id, r.id2 from l " + j)
	}
}

// Joins large enough to be split over three goroutines (30 x 10 rows, --cpu 3): the left rows of each
// third either all have a partner or none (chosen per third), so the partners of a right row live in
// some chunks and not in others.  The result is the multiset the join's definition yields: every
// matching pair once, every unmatched row of a preserved side once, padded.
func VerifC03SplitJoins() {
	var has [3]bool
	for c := range has {
		has[c] = verifBool("third-has-partners")
	}
	kind := verifChoice("join", len(verifC03Split))
	tx := verifNewTx()
	tx.Flags.CPU = 3
	scope := NewReferenceScope(tx)
	l := make([][]value.Primary, 30)
	for i := range l {
		k := int64(i % 10)
		if !has[i/10] {
			k += 1000
		}
		l[i] = []value.Primary{value.NewInteger(int64(i)), value.NewInteger(k)}
	}
	r := make([][]value.Primary, 10)
	for j := range r {
		r[j] = []value.Primary{value.NewInteger(int64(j)), value.NewInteger(int64(j))}
	}
	verifTempTable(scope, "l", []string{"id", "k"}, l)
	verifTempTable(scope, "r", []string{"id2", "k"}, r)
	view, err := Select(verifCtx(), scope, verifC03Split[kind])
	verifAssert("select succeeds", err == nil)
	if err != nil {
		return
	}
	want := map[[2]int]int{}
	any := false
	for i := 0; i < 30; i++ {
		if has[i/10] {
			want[[2]int{i, i % 10}]++
			any = true
		} else if kind == 1 || kind == 3 || kind == 4 {
			want[[2]int{i, -1}]++
		}
	}
	if !any && kind >= 2 {
		for j := 0; j < 10; j++ {
			want[[2]int{-1, j}]++
		}
	}
	total := 0
	for _, c := range want {
		total += c
	}
	verifAssert("number of result rows", view.RecordLen() == total)
	got := map[[2]int]int{}
	for _, rec := range view.RecordSet {
		key := [2]int{verifIdOf(rec[0][0]), verifIdOf(rec[1][0])}
		got[key]++
		verifAssert("result row is expected, with its multiplicity", got[key] <= want[key])
	}
	verifObserve("rows", int64(view.RecordLen()))
	verifReach("end")
}
