package query

//verif:property C03
//verif:pkg lib/query
//verif:setup VerifC03EmptySetup
//verif:harness VerifC03EmptySources mode=bv tier=quick

import (
	"github.com/mithrandie/csvq/lib/parser"
	"github.com/mithrandie/csvq/lib/value"
)

var verifC03EmptySrc = []string{
	"select * from a inner join b on a.k = b.k",
	"select * from a left join b on a.k = b.k",
	"select * from a right join b on a.k = b.k",
	"select * from a full join b on a.k = b.k",
	"select * from a cross join b",
	"select * from a inner join b using (k)",
	"select * from a natural join b",
	"select * from a full join b using (k)",
	"select * from a, b",
	"select * from a, lateral (select id2 from b where b.k = a.k) s",
	"select * from a left join lateral (select id2, k as k2 from b where b.k = a.k) s on true",
	"select * from a inner join (select id2, k as k2 from b) s on a.k = s.k2",
	"select * from (select id, k from a where k > 0) s",
}
var verifC03EmptyQueries []parser.SelectQuery

func VerifC03EmptySetup() {
	for _, s := range verifC03EmptySrc {
		verifC03EmptyQueries = append(verifC03EmptyQueries, verifParseSelect(s))
	}
}

// The columns of a result do not depend on whether the sources have rows: every join form over
// tables of which either or both are empty (and with keys that match or not) returns the same
// column names in the same order as over one-row tables, and no rows where the operator's
// definition yields none.
func VerifC03EmptySources() {
	qi := verifChoice("query", len(verifC03EmptySrc))
	emptyA, emptyB := verifBool("a.empty"), verifBool("b.empty")
	ka, kb := verifInt64("ka"), verifInt64("kb")
	run := func(ea, eb bool) (*View, error) {
		tx := verifNewTx()
		scope := NewReferenceScope(tx)
		ra, rb := [][]value.Primary{}, [][]value.Primary{}
		if !ea {
			ra = append(ra, []value.Primary{value.NewInteger(0), value.NewInteger(ka)})
		}
		if !eb {
			rb = append(rb, []value.Primary{value.NewInteger(0), value.NewInteger(kb)})
		}
		verifTempTable(scope, "a", []string{"id", "k"}, ra)
		verifTempTable(scope, "b", []string{"id2", "k"}, rb)
		return Select(verifCtx(), scope, verifC03EmptyQueries[qi])
	}
	ref, err0 := run(false, false)
	got, err := run(emptyA, emptyB)
	verifAssert("both runs succeed", err0 == nil && err == nil)
	if err0 != nil || err != nil {
		return
	}
	verifAssert("same number of columns as over non-empty sources", got.FieldLen() == ref.FieldLen())
	for i := 0; i < got.FieldLen() && i < ref.FieldLen(); i++ {
		verifAssert("same column names in the same order", got.Header[i].Column == ref.Header[i].Column)
	}
	if emptyA && emptyB {
		verifAssert("no rows from two empty sources", got.RecordLen() == 0)
	}
	for r := 0; r < got.RecordLen(); r++ {
		verifAssert("every record is as wide as the header", len(got.RecordSet[r]) == got.FieldLen())
	}
	verifObserve("columns", int64(got.FieldLen()))
	verifReach("end")
}
