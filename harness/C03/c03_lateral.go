package query

//verif:property C03
//verif:pkg lib/query
//verif:setup VerifC03LateralSetup
//verif:harness VerifC03LateralForms mode=bv tier=quick split=6

import (
	"github.com/mithrandie/csvq/lib/parser"
	"github.com/mithrandie/csvq/lib/value"
)

var verifC03LatSrc = []string{
	"select id, k, m from a natural join lateral (select max(b.k) as k, count(*) as m from b where b.k <= a.k) s",      // 0: one row per outer row
	"select id, k, m from a natural left join lateral (select max(b.k) as k, count(*) as m from b where b.k <= a.k) s", // 1
	"select id, k, m from a inner join lateral (select max(b.k) as k, count(*) as m from b where b.k <= a.k) s using (k)", // 2
	"select a.id, s.k, s.m from a cross join lateral (select max(b.k) as k, count(*) as m from b where b.k <= a.k) s",   // 3
	"select a.id, s.k, s.m from a left join lateral (select b.k as k, 1 as m from b where b.k = a.k) s on s.k = a.k",    // 4: none, one or two rows per outer row
	"select * from a natural join lateral (select max(b.k) as k, count(*) as m from b where b.k <= a.k) s",              // 5: the merged column comes first, once
}
var verifC03LatQueries []parser.SelectQuery

func VerifC03LateralSetup() {
	for _, s := range verifC03LatSrc {
		verifC03LatQueries = append(verifC03LatQueries, verifParseSelect(s))
	}
}

// LATERAL joins in their NATURAL, USING, CROSS and ON forms, the lateral subquery yielding exactly one
// row per outer row (an aggregate) or as many as there are partners: a (2 rows) and b (2 rows) with
// arbitrary int64 keys.  NATURAL / USING compare the common column and merge it once; CROSS keeps every
// combination; LEFT pads the outer rows without a partner.
func VerifC03LateralForms() {
	tx := verifNewTx()
	scope := NewReferenceScope(tx)
	var ka, kb [2]int64
	ar := make([][]value.Primary, 2)
	br := make([][]value.Primary, 2)
	for i := 0; i < 2; i++ {
		ka[i] = verifInt64("ka")
		ar[i] = []value.Primary{value.NewInteger(int64(i)), value.NewInteger(ka[i])}
	}
	for j := 0; j < 2; j++ {
		kb[j] = verifInt64("kb")
		br[j] = []value.Primary{value.NewInteger(kb[j])}
	}
	verifTempTable(scope, "a", []string{"id", "k"}, ar)
	verifTempTable(scope, "b", []string{"k"}, br)
	qi := verifChoice("query", len(verifC03LatSrc))
	view, err := Select(verifCtx(), scope, verifC03LatQueries[qi])
	verifAssert("select succeeds", err == nil)
	if err != nil {
		return
	}
	type row struct {
		id      int
		kNull   bool
		k       int64
		m       int64
		mIsNull bool
	}
	var want []row
	for i := 0; i < 2; i++ {
		// the aggregate subquery of outer row i: the greatest b.k <= a.k and the number of such rows
		cnt, max, has := int64(0), int64(0), false
		eq := 0
		for j := 0; j < 2; j++ {
			if kb[j] <= ka[i] {
				if !has || kb[j] > max {
					max = kb[j]
				}
				has = true
				cnt++
			}
			if kb[j] == ka[i] {
				eq++
			}
		}
		switch qi {
		case 0, 2, 5:
			if has && max == ka[i] {
				want = append(want, row{id: i, k: ka[i], m: cnt})
			}
		case 1:
			if has && max == ka[i] {
				want = append(want, row{id: i, k: ka[i], m: cnt})
			} else {
				want = append(want, row{id: i, k: ka[i], mIsNull: true})
			}
		case 3:
			want = append(want, row{id: i, kNull: !has, k: max, m: cnt})
		case 4:
			if eq == 0 {
				want = append(want, row{id: i, kNull: true, mIsNull: true})
			}
			for e := 0; e < eq; e++ {
				want = append(want, row{id: i, k: ka[i], m: 1})
			}
		}
	}
	verifAssert("number of result rows", view.RecordLen() == len(want))
	idCol, kCol, mCol := 0, 1, 2
	if qi == 5 {
		verifAssert("the merged column comes first and once", view.FieldLen() == 3 && view.Header[0].Column == "k" && view.Header[1].Column == "id" && view.Header[2].Column == "m")
		idCol, kCol = 1, 0
	}
	for r := 0; r < view.RecordLen() && r < len(want); r++ {
		rec := view.RecordSet[r]
		if len(rec) != 3 {
			verifAssert("three columns", false)
			return
		}
		w := want[r]
		verifAssert("outer rows in source order", verifIdOf(rec[idCol][0]) == w.id)
		if w.kNull {
			verifAssert("key column", value.IsNull(rec[kCol][0]))
		} else {
			ki, ok := rec[kCol][0].(*value.Integer)
			verifAssert("key column", ok && ki.Raw() == w.k)
		}
		if w.mIsNull {
			verifAssert("padded column", value.IsNull(rec[mCol][0]))
		} else {
			mi, ok := rec[mCol][0].(*value.Integer)
			verifAssert("the lateral subquery's column", ok && mi.Raw() == w.m)
		}
	}
	verifObserve("rows", int64(view.RecordLen()))
	verifReach("end")
}
