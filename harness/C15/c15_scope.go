package query

//verif:property C15
//verif:pkg lib/query
//verif:setup VerifC15Setup
//verif:harness VerifC15Programs mode=bv tier=quick split=8

import (
	"github.com/mithrandie/csvq/lib/parser"
	"github.com/mithrandie/csvq/lib/value"
)

var verifC15Src = []string{
	// 0: IF block: inner declaration shadows, disappears afterwards; outer assignment persists
	`var @outer := @x; var @log := 0; var @seen := 0;
	 if @c = 1 then var @outer := @y; var @inner := 7; @log := @outer; @seen := @inner; end if;`,
	// 1: WHILE with CONTINUE and BREAK
	`var @i := 0; var @sum := 0;
	 while @i < @n do
	   @i := @i + 1;
	   if @i = @skip then continue; end if;
	   if @i = @stop then break; end if;
	   var @tmp := @i; @sum := @sum + @tmp;
	 end while;`,
	// 2: recursive function with locals that must survive the inner invocation
	`declare f function (@k) as begin
	   var @local := @k * 2;
	   if @k <= 0 then return 0; end if;
	   var @r := f(@k - 1);
	   return @r + @local;
	 end;
	 var @res := f(@n);`,
	// 3: a function's local shadows a global without changing it; parameters are per call
	`var @a := @x;
	 declare g function (@p) as begin var @a := @p + 1; @p := @p + 100; return @a; end;
	 var @arg := @y; var @r := g(@arg);`,
	// 4: EXIT inside a nested block stops everything
	`var @a := 1; var @b := 1;
	 if @c = 1 then @a := 2; if @d = 1 then exit; end if; @a := 3; end if;
	 @b := 2;`,
	// 5: CASE statement picks the first matching branch; its block is local
	`var @r := 0;
	 case when @x < 0 then var @v := 1; @r := @v; when @x < 10 then var @v := 2; @r := @v; else var @v := 3; @r := @v; end case;`,
	// 6: WHILE IN over a cursor visits every row once, in order
	`var @sum := 0; var @last := -1; var @cnt := 0; var @id;
	 declare cur cursor for select id from t order by id;
	 open cur;
	 while @id in cur do @sum := @sum * 10 + @id; @last := @id; @cnt := @cnt + 1; end while;
	 close cur;`,
	// 7: objects declared in a block are gone afterwards (cursor, temporary table, function)
	`var @ok := 0;
	 if @c = 1 then
	   declare tmpv view (c1); declare cur2 cursor for select 1; declare h function () as begin return 1; end;
	   @ok := h();
	 end if;`,
	// 8: nested loops: BREAK leaves only the innermost loop
	`var @i := 0; var @hits := 0;
	 while @i < 2 do
	   @i := @i + 1; var @j := 0;
	   while @j < 3 do @j := @j + 1; if @j = @stop then break; end if; @hits := @hits + 1; end while;
	 end while;`,
	// 9: RETURN inside a loop inside a function leaves the function with the value
	`declare firstge function (@lim) as begin
	   var @i := 0;
	   while true do @i := @i + 1; if @lim <= @i then return @i; end if; end while;
	 end;
	 var @res := firstge(@n);`,
	// 10: a declaration made before CONTINUE must not survive into the next iteration
	`var @i := 0; var @sum := 0;
	 while @i < @n do
	   @i := @i + 1;
	   var @cur := @i * 10;
	   if @i = @skip then continue; end if;
	   @sum := @sum + @cur;
	 end while;`,
	// 11: the same through CASE and a nested block, with BREAK
	`var @i := 0; var @sum := 0;
	 while @i < @n do
	   @i := @i + 1;
	   var @cur := @i;
	   case when @i = @skip then continue; when @i = @stop then break; else @sum := @sum + @cur; end case;
	 end while;`,
	// 12: a block that declares only a function (shadowing an outer one); a later sibling block and a
	//     later function invocation must see the outer function again, and may declare their own
	`var @r1 := 0; var @r2 := 0; var @r3 := 0;
	 declare g function () as begin return 1; end;
	 declare h function () as begin return g() + 10; end;
	 if @c = 1 then declare g function () as begin return 100; end; end if;
	 if @d = 1 then @r1 := g(); end if;
	 @r2 := h();
	 if @c = 1 then declare g function () as begin return 7; end; @r3 := g(); end if;`,
	// 13: a temporary table declared in a block shadows an outer one of the same name and is gone afterwards
	`var @inner := 0; var @outer := 0;
	 declare tt view (c1); insert into tt values (1);
	 if @c = 1 then
	   declare tt view (c1); insert into tt values (5), (6);
	   @inner := (select count(*) from tt);
	 end if;
	 @outer := (select count(*) from tt);`,
	// 14: a parameter default may refer to the parameters before it: they are bound first, and they are
	// those of this invocation (not a global of the same name, not the calling invocation's)
	`var @k := 100;
	 declare tw function (@k, @m default @k * 2) as begin return @m; end;
	 var @r1 := tw(@n);
	 declare tr function (@k, @tag default @k) as begin
	   if @k <= 0 then return @tag; end if;
	   var @in := tr(@k - 1);
	   return @in * 10 + @tag;
	 end;
	 var @r2 := tr(@n);
	 declare td function (@p default 7, @q default @p + 1) as begin return @p * 100 + @q; end;
	 var @r3 := td(); var @r4 := td(@n);`,
	// 15: after a user-defined aggregate has run, nested blocks still get scopes of their own
	`declare total aggregate (c) as begin
	   var @s := 0; var @v;
	   while @v in c do @s := @s + @v; end while;
	   return @s;
	 end;
	 var @sum := (select total(id) from t);
	 var @sum2 := (select total(id) from t where id < 3);
	 var @deep := 0; var @mid := 0; var @top := 0; var @after := 0;
	 if 1 = 1 then
	   var @lv := 1;
	   if 1 = 1 then
	     var @lv := 2;
	     if 1 = 1 then var @lv := 3; @deep := @lv; end if;
	     @mid := @lv;
	   end if;
	   @top := @lv;
	 end if;
	 if 1 = 1 then var @lv := 9; @after := @lv; end if;`,
	// 16: after a function has returned from inside a WHILE loop, the invocations of a recursive function and
	// nested blocks still get scopes of their own (the loop's scope must be given back exactly once)
	`declare fr function (@m) as begin
	   var @i := 0;
	   while true do @i := @i + 1; if @i >= @m then return @i; end if; end while;
	 end;
	 declare sd function (@k) as begin
	   if @k <= 0 then return 0; end if;
	   var @mine := @k;
	   var @rest := sd(@k - 1);
	   return @mine + @rest;
	 end;
	 var @first := fr(@n);
	 var @total := sd(4);
	 var @deep := 0; var @mid := 0;
	 if 1 = 1 then var @lv := 1; if 1 = 1 then var @lv := 2; @deep := @lv; end if; @mid := @lv; end if;
	 var @again := fr(2) * 100 + sd(3);`,
}

var verifC15Progs [][]parser.Statement

func VerifC15Setup() {
	for _, s := range verifC15Src {
		verifC15Progs = append(verifC15Progs, verifParse(s))
	}
}

func verifGetInt(scope *ReferenceScope, name string) (int64, bool) {
	v, err := scope.GetVariable(parser.Variable{Name: name})
	if err != nil {
		return 0, false
	}
	i, ok := v.(*value.Integer)
	if !ok {
		return 0, false
	}
	return i.Raw(), true
}

func verifHasVar(scope *ReferenceScope, name string) bool {
	_, err := scope.GetVariable(parser.Variable{Name: name})
	return err == nil
}

// Procedures with blocks, loops, functions and recursion, run by the real Processor with symbolic
// inputs: declarations are local to their block or invocation and shadow without modifying, outer
// assignments persist, BREAK/CONTINUE/RETURN/EXIT transfer control as documented.
func VerifC15Programs() {
	tx := verifNewTx()
	tx.Flags.Quiet = true
	proc := NewProcessor(tx)
	scope := proc.ReferenceScope
	x, y := verifInt64("x"), verifInt64("y")
	verifAssume(y < 1<<40) // keeps @p + 100 etc. away from int64 overflow (not the subject here)
	verifAssume(y > -(1 << 40))
	c, d := int64(verifChoice("c", 2)), int64(verifChoice("d", 2))
	n := int64(verifChoice("n", verifBound(4, 6))) // loop bound 0..3 (thorough 0..5)
	skip, stop := int64(verifChoice("skip", verifBound(5, 7))), int64(verifChoice("stop", verifBound(5, 7)))
	for name, v := range map[string]int64{"c": c, "d": d, "n": n, "skip": skip, "stop": stop} {
		verifVar(scope, name, value.NewInteger(v))
	}
	verifVar(scope, "x", value.NewInteger(x))
	verifVar(scope, "y", value.NewInteger(y))
	verifTempTable(scope, "t", []string{"id"}, [][]value.Primary{{value.NewInteger(3)}, {value.NewInteger(1)}, {value.NewInteger(2)}})
	pi := verifChoice("program", len(verifC15Src))
	flow, err := proc.Execute(verifCtx(), verifC15Progs[pi])
	verifAssert("program runs without error", err == nil)
	get := func(name string) int64 {
		v, ok := verifGetInt(scope, name)
		verifAssert("variable "+name+" holds an integer", ok)
		return v
	}
	switch pi {
	case 0:
		verifAssert("outer variable unchanged by the shadowing declaration", get("outer") == x)
		verifAssert("inner variable gone after the block", !verifHasVar(scope, "inner"))
		if c == 1 {
			verifAssert("block saw its own declaration", get("log") == y)
			verifAssert("assignment to an outer variable persists", get("seen") == 7)
		} else {
			verifAssert("block not entered", get("log") == 0 && get("seen") == 0)
		}
	case 1:
		var i, sum int64
		for i < n {
			i++
			if i == skip {
				continue
			}
			if i == stop {
				break
			}
			sum += i
		}
		verifAssert("loop counter", get("i") == i)
		verifAssert("BREAK / CONTINUE", get("sum") == sum)
		verifAssert("loop-local variable gone", !verifHasVar(scope, "tmp"))
	case 2:
		verifAssert("recursive locals", get("res") == n*(n+1))
		verifAssert("function locals are not global", !verifHasVar(scope, "local") && !verifHasVar(scope, "k"))
	case 3:
		verifAssert("global not modified by the function's local", get("a") == x)
		verifAssert("function result uses its own local", get("r") == y+1)
		verifAssert("argument variable not modified by parameter assignment", get("arg") == y)
	case 4:
		if c == 1 && d == 1 {
			verifAssert("EXIT flow", flow == Exit)
			verifAssert("statements after EXIT are not run", get("a") == 2 && get("b") == 1)
		} else {
			verifAssert("normal termination", flow == Terminate)
			verifAssert("all statements run", get("b") == 2)
			if c == 1 {
				verifAssert("block completed", get("a") == 3)
			}
		}
	case 5:
		want := int64(3)
		if x < 0 {
			want = 1
		} else if x < 10 {
			want = 2
		}
		verifAssert("CASE picks the first true branch", get("r") == want)
		verifAssert("CASE branch variable is local", !verifHasVar(scope, "v"))
	case 6:
		verifAssert("WHILE IN visits every row once in order", get("sum") == 123 && get("cnt") == 3 && get("last") == 3)
	case 7:
		if c == 1 {
			verifAssert("block ran", get("ok") == 1)
		}
		verifAssert("temporary table declared in the block is gone", !scope.TemporaryTableExists("tmpv"))
		_, e1 := scope.CursorIsOpen(parser.Identifier{Literal: "cur2"})
		verifAssert("cursor declared in the block is gone", e1 != nil)
		_, e2 := scope.GetFunction(parser.Function{Name: "h"}, "H")
		verifAssert("function declared in the block is gone", e2 != nil)
	case 8:
		per := int64(3)
		if stop >= 1 && stop <= 3 {
			per = stop - 1
		}
		verifAssert("BREAK leaves only the inner loop", get("hits") == 2*per && get("i") == 2)
	case 9:
		want := n
		if want < 1 {
			want = 1
		}
		verifAssert("RETURN from inside a loop", get("res") == want)
	case 13:
		verifAssert("the block sees its own temporary table", get("inner") == 2*c)
		verifAssert("the outer temporary table is untouched and visible again", get("outer") == 1)
	case 12:
		verifAssert("a sibling block sees the outer function", get("r1") == d)
		verifAssert("a later invocation sees the outer function", get("r2") == 11)
		verifAssert("a later block may declare its own function of that name", get("r3") == 7*c)
	case 14:
		verifAssert("a default sees the parameter bound before it, not a global of that name", get("r1") == 2*n)
		var want int64
		for k := int64(1); k <= n; k++ {
			want = want*10 + k
		}
		verifAssert("a default in a recursive function sees its own invocation's parameter", get("r2") == want)
		verifAssert("defaults that build on defaults", get("r3") == 708 && get("r4") == n*100+n+1)
		verifAssert("the global of the same name is untouched", get("k") == 100)
	case 15:
		verifAssert("the aggregate sees its rows", get("sum") == 6 && get("sum2") == 3)
		verifAssert("nested blocks shadow level by level after an aggregate has run", get("deep") == 3 && get("mid") == 2 && get("top") == 1 && get("after") == 9)
		verifAssert("block variables are gone", !verifHasVar(scope, "lv") && !verifHasVar(scope, "s"))
	case 16:
		wantFirst := n
		if wantFirst < 1 {
			wantFirst = 1
		}
		verifAssert("RETURN from inside WHILE TRUE", get("first") == wantFirst)
		verifAssert("recursive invocations keep their own locals after a loop was left by RETURN", get("total") == 10)
		verifAssert("nested blocks shadow level by level after a loop was left by RETURN", get("deep") == 2 && get("mid") == 1)
		verifAssert("and again", get("again") == 206)
		verifAssert("locals are gone", !verifHasVar(scope, "mine") && !verifHasVar(scope, "lv") && !verifHasVar(scope, "i"))
	case 10, 11:
		var i, sum int64
		for i < n {
			i++
			if i == skip {
				continue
			}
			if pi == 11 && i == stop {
				break
			}
			if pi == 10 {
				sum += i * 10
			} else {
				sum += i
			}
		}
		verifAssert("loop with a declaration before CONTINUE: counter", get("i") == i)
		verifAssert("loop with a declaration before CONTINUE: sum", get("sum") == sum)
		verifAssert("loop-local declaration is gone", !verifHasVar(scope, "cur"))
	}
	verifAssert("global inputs untouched", get("x") == x && get("y") == y)
	verifObserve("flow", int64(flow))
	verifReach("end")
}
