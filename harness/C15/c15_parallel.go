package query

//verif:property C15
//verif:pkg lib/query
//verif:setup VerifC15ParSetup
//verif:harness VerifC15ParallelInvocations mode=bv tier=quick split=8

import (
	"github.com/mithrandie/csvq/lib/parser"
	"github.com/mithrandie/csvq/lib/value"
)

var verifC15ParDecl []parser.Statement
var verifC15ParQuery parser.SelectQuery

func VerifC15ParSetup() {
	verifC15ParDecl = verifParse("declare inc function (@v) as begin var @w := @v + 1; return @w; end;")
	verifC15ParQuery = verifParseSelect("select id, inc(id) from t")
}

// A user-defined function with a local variable, invoked for different rows by two workers at the
// same time: under every interleaving of the workers with at most 2 preemptions (thorough 3) each
// invocation has its own scope - the query succeeds and every row gets f(row), never another
// invocation's variable and never "undeclared variable".  (Block scopes are recycled through a pool
// shared by all goroutines.)
func VerifC15ParallelInvocations() {
	tx := verifNewTx()
	tx.Flags.Quiet = true
	tx.Flags.CPU = 2
	amp := verifAmplify()
	if amp > 1 {
		tx.Flags.CPU = 4
	}
	proc := NewProcessor(tx)
	scope := proc.ReferenceScope
	_, err := proc.Execute(verifCtx(), verifC15ParDecl)
	verifAssert("declaration", err == nil)
	rows := make([][]value.Primary, 2*amp)
	for i := range rows {
		rows[i] = []value.Primary{value.NewInteger(int64(10 * i))}
	}
	verifTempTable(scope, "t", []string{"id"}, rows)
	GetGoroutineManager().MinimumRequiredPerCore = 1
	verifPreemptions(verifBound(2, 3))
	verifSchedules(true)
	view, err := Select(verifCtx(), scope, verifC15ParQuery)
	verifSchedules(false)
	verifAssert("the query succeeds", err == nil)
	if err == nil {
		verifAssert("one result per row", view.RecordLen() == len(rows))
		for i := 0; i < view.RecordLen() && i < len(rows); i++ {
			id, ok1 := view.RecordSet[i][0][0].(*value.Integer)
			r, ok2 := view.RecordSet[i][1][0].(*value.Integer)
			verifAssert("each invocation returns its own result", ok1 && ok2 && r.Raw() == id.Raw()+1)
		}
		verifObserve("rows", int64(view.RecordLen()))
	}
	verifReach("end")
}
