package query

//verif:property C13
//verif:pkg lib/query
//verif:setup VerifC13Setup
//verif:setup VerifC13LoadSetup
//verif:harness VerifC13ParallelQueries mode=bv tier=quick split=8
//verif:harness VerifC13FileLoad mode=bv tier=quick split=4
//verif:setup VerifC13JoinSetup
//verif:harness VerifC13Joins mode=bv tier=quick split=5
//verif:setup VerifC13SubFilesSetup
//verif:harness VerifC13SubqueryFiles mode=bv tier=quick split=4

import (
	"github.com/mithrandie/csvq/lib/parser"
	"github.com/mithrandie/csvq/lib/value"
)

var verifC13Src = []string{
	"select id, k from t where k < 1",
	"select k, count(*), max(id) from t group by k",
	"select distinct k from t",
	"select id, k from t order by k desc, id",
	"select id, count(*) over (partition by k), row_number() over (partition by k order by id desc) from t",
	"select id, k + 1, upper('x') from t",
	"select k from t union select k from t",
	"select id from t where 10 / k > 1",                  // a worker hits an error (division by zero) when some k is 0
	"select id, pick(id, k, id) over (partition by id) from t", // user-defined aggregate as analytic function
	"select id, inc(k) from t where inc(id) > 0",          // user-defined scalar function on several workers
	"select t.id, u.id from t inner join t as u on t.k = u.k",
	"select id, (select count(*) from t as z where z.k = t.k) from t",
	// a correlated subquery with more than 8 references to the outer record (its field-index cache
	// changes representation while the inner scan's workers use it)
	"select id, (select count(*) from t as z where z.k = t.k + t.id + t.k + t.id + t.k + t.id + t.k + t.id + t.k + t.id - t.k) from t",
	// the same from a one-row outer table: the outer query is not split, so the inner scan is
	"select id, (select count(*) from t as z where z.k = o.k) from o",
	"select id, (select count(*) from t as z where z.k = o.k + o.id + o.k + o.id + o.k + o.id + o.k + o.id + o.k + o.id - o.k) from o",
	// process-wide random generators used from the workers
	"select id, rand(), rand(1, 6) from t",
	"select t.id, s.c from t, lateral (select count(*) as c from t as z where z.k = t.k) s",
	"select id, (select count(*) from json_table('{id,k}', '[{\"id\":1,\"k\":1}]') jt where jt.k = t.k) from t",
	// a set operation evaluated by the workers of a scan inside the recursive term of a recursive query
	// (they share the query's recursion counter)
	"with recursive r (n) as (select 1 union all select n + 1 from r where n < 2 and n in (select z.k from t as z where z.k in (select 1 union select 0))) select n from r",
	// pooled helpers of the string functions, also after an earlier statement in which they failed
	"select id, format('%s-%05d|%s', id, k, 'x'), datetime_format(datetime(id), '%Y'), number_format(k, 2) from t",
	// a LATERAL join whose left side is itself a join result (3 + 2 columns): the workers extend its header
	"select w.id, s.c from (w inner join o on w.k >= o.k - 1) cross join lateral (select count(*) as c from t as z where z.k = w.k) s",
}
var verifC13Queries []parser.SelectQuery
var verifC13Decls []parser.Statement
var verifC13Prelude, verifC13Prelude2 parser.SelectQuery

func VerifC13Setup() {
	verifC13Decls = verifParse(`declare pick aggregate (list, @a, @b) as begin return @b; end;
		declare inc function (@v) as begin var @w := @v + 1; return @w; end;`)
	verifC13Prelude = verifParse("select count(distinct k), listagg(distinct k, ',') from t")[0].(parser.SelectQuery)
	verifC13Prelude2 = verifParse("select format('%06d|%s', 1), datetime_format(null, '%Y'), number_format('x', 'y')")[0].(parser.SelectQuery)
	for _, s := range verifC13Src {
		q := verifParse(s)[0].(parser.SelectQuery)
		verifC13Queries = append(verifC13Queries, q)
	}
}

// Queries evaluated by two workers with the happens-before race detector on:
// under every order in which the workers run (thorough: plus one preemption) no two accesses to
// the same memory from different goroutines are unordered by synchronisation.
func VerifC13ParallelQueries() {
	qi := verifChoice("query", len(verifC13Src))
	const n = 3
	var keys [n]int64
	for i := range keys {
		keys[i] = int64(verifChoice("k", 2))
	}
	tx := verifNewTx()
	tx.Flags.Quiet = true
	tx.Flags.CPU = 2 // (the thorough tier adds a preemption, not a third worker: 17 queries x 3 workers x 1 preemption does not finish in the 40-minute budget)
	amp := verifAmplify() // 1 in the engine; the native race-confirmation run repeats the chosen rows
	if amp > 1 {
		tx.Flags.CPU = 4
	}
	if qi == 18 {
		tx.Flags.LimitRecursion = 6 // the nested set operations count as recursion steps: keep the run short
	}
	proc := NewProcessor(tx)
	scope := proc.ReferenceScope
	_, err := proc.Execute(verifCtx(), verifC13Decls)
	verifAssert("declarations", err == nil)
	rows := make([][]value.Primary, n*amp)
	for i := range rows {
		rows[i] = []value.Primary{value.NewInteger(int64(i)), value.NewInteger(keys[i%n])}
	}
	verifTempTable(scope, "t", []string{"id", "k"}, rows)
	verifTempTable(scope, "o", []string{"id", "k"}, rows[:1])
	wrows := make([][]value.Primary, len(rows))
	for i := range wrows {
		wrows[i] = []value.Primary{rows[i][0], rows[i][1], value.NewInteger(7)}
	}
	verifTempTable(scope, "w", []string{"id", "k", "x"}, wrows)
	GetGoroutineManager().MinimumRequiredPerCore = 1
	preludes := 2
	if qi == 19 {
		preludes = 3 // the failing prelude matters to the statement that uses the same helpers
	}
	switch verifChoice("prelude", preludes) {
	case 1:
		// an earlier statement of the session that uses the pooled key buffers (DISTINCT aggregates)
		_, e := Select(verifCtx(), scope, verifC13Prelude)
		verifAssert("the prelude runs", e == nil)
	case 2:
		// an earlier statement of the session in which a string function failed
		_, e := Select(verifCtx(), scope, verifC13Prelude2)
		verifAssert("the failing prelude fails", e != nil)
	}
	verifPreemptions(verifBound(0, 1))
	if qi == 18 {
		// the first worker to get there ends the statement (recursion limit): the other one must be
		// switched to while the first is still at it
		verifPreemptions(1)
	}
	verifRaces(true)
	verifSchedules(true)
	view, err := Select(verifCtx(), scope, verifC13Queries[qi])
	verifSchedules(false)
	verifRaces(false)
	if qi != 7 && qi != 18 {
		verifAssert("the query runs", err == nil)
	}
	if err == nil {
		verifObserve("rows", int64(view.RecordLen()))
	}
	verifReach("end")
}

var verifC13Load []parser.Statement

func VerifC13LoadSetup() {
	verifC13Load = verifParse("select * from `f.csv`; select * from `g.ltsv`; select * from `h.jsonl`;")
}

// Loading files: the reader goroutine and the converter goroutine of readRecordSet (CSV, LTSV) and
// of the JSON Lines loader, under the race monitor, for a well-formed file and for one whose third
// line is malformed (the error path), and for a file of 302 records (the buffers are re-sized at the 301st).
func VerifC13FileLoad() {
	shape := verifChoice("malformed", 3)
	bad := shape == 1
	if shape == 2 {
		// 302 records: the loaders re-size their buffers when the 301st arrives, from the bytes read so far
		csv, ltsv, jsonl := "a,b\n", "", ""
		for i := 0; i < 302; i++ {
			csv += "1,2\n"
			ltsv += "a:1\tb:2\n"
			jsonl += "{\"a\":1}\n"
		}
		verifFileWrite("f.csv", csv)
		verifFileWrite("g.ltsv", ltsv)
		verifFileWrite("h.jsonl", jsonl)
	} else if bad {
		verifFileWrite("f.csv", "a,b\n1,2\n3\n4,5\n")
		verifFileWrite("g.ltsv", "a:1\tb:2\nnocolon\n")
		verifFileWrite("h.jsonl", "{\"a\":1}\n{\"a\":\n")
	} else {
		verifFileWrite("f.csv", "a,b\n1,2\n3,4\n5,6\n")
		verifFileWrite("g.ltsv", "a:1\tb:2\na:3\tb:4\n")
		verifFileWrite("h.jsonl", "{\"a\":1}\n{\"a\":2}\n")
	}
	which := verifChoice("file", 3)
	tx := verifNewTx()
	tx.Flags.Quiet = true
	tx.Flags.CPU = 2
	proc := NewProcessor(tx)
	GetGoroutineManager().MinimumRequiredPerCore = 1 // the JSON Lines loader converts its rows with several workers
	verifPreemptions(verifBound(0, 1))
	verifRaces(true)
	verifSchedules(true)
	_, err := proc.Execute(ContextForStoringResults(verifCtx()), verifC13Load[which:which+1])
	verifSchedules(false)
	verifRaces(false)
	verifAssert("a well-formed file loads, a malformed one is refused", (err != nil) == (bad && which != 0 || bad && which == 0))
	_ = proc.ReleaseResourcesWithErrors()
	verifObserveBool("error", err != nil)
	verifReach("end")
}

var verifC13JoinSrc = []string{
	"select l.id, r.id from l inner join r on l.k = r.k",
	"select l.id, r.id from l left join r on l.k = r.k",
	"select l.id, r.id from l right join r on l.k = r.k",
	"select l.id, r.id from l full join r on l.k = r.k",
	"select l.id, r.id from l cross join r",
}
var verifC13JoinQueries []parser.SelectQuery

func VerifC13JoinSetup() {
	for _, s := range verifC13JoinSrc {
		verifC13JoinQueries = append(verifC13JoinQueries, verifParse(s)[0].(parser.SelectQuery))
	}
}

// Joins split over two workers (a join is split by its left table once the two tables have more
// than 80 row pairs: 2 left rows x 81 right rows here), inner / left / right / full outer / cross,
// with the race monitor on, under every order in which the workers run (thorough: plus one
// preemption).  The left keys are chosen by the engine, so that the workers match the same right
// rows, different ones, or none.
func VerifC13Joins() {
	qi := verifChoice("join", len(verifC13JoinSrc))
	amp := verifAmplify()
	tx := verifNewTx()
	tx.Flags.Quiet = true
	tx.Flags.CPU = 2
	if amp > 1 {
		tx.Flags.CPU = 4
	}
	scope := NewReferenceScope(tx)
	var lk [2]int64
	for i := range lk {
		lk[i] = int64(verifChoice("lk", 3)) // 0 and 1 occur on the right, 2 does not
	}
	lrows := make([][]value.Primary, 2*amp)
	for i := range lrows {
		lrows[i] = []value.Primary{value.NewInteger(int64(i)), value.NewInteger(lk[i%2])}
	}
	rrows := make([][]value.Primary, 81)
	for i := range rrows {
		rrows[i] = []value.Primary{value.NewInteger(int64(i)), value.NewInteger(int64(i % 2))}
	}
	verifTempTable(scope, "l", []string{"id", "k"}, lrows)
	verifTempTable(scope, "r", []string{"id", "k"}, rrows)
	verifPreemptions(verifBound(0, 1))
	verifRaces(true)
	verifSchedules(true)
	view, err := Select(verifCtx(), scope, verifC13JoinQueries[qi])
	verifSchedules(false)
	verifRaces(false)
	verifAssert("the join runs", err == nil)
	if err == nil {
		verifObserve("rows", int64(view.RecordLen()))
	}
	verifReach("end")
}

var verifC13SubFiles []parser.SelectQuery

func VerifC13SubFilesSetup() {
	for _, q := range []string{
		"select id, (select count(*) from `u.csv` as u where u.k = t.k) from t",
		"select id, k from t where k in (select k from `u.csv`)",
		"select t.id, u.k from t inner join `u.csv` as u on t.k = u.k",
	} {
		verifC13SubFiles = append(verifC13SubFiles, verifParse(q)[0].(parser.SelectQuery))
	}
}

// Workers that evaluate a subquery on a table *file* for their rows: the first load (path lookup,
// handler, loader goroutines, view cache) happens inside a worker while the others wait for or
// reuse it - under the race monitor, every order in which the workers run (thorough: plus one
// preemption).
func VerifC13SubqueryFiles() {
	verifFileWrite("u.csv", "k\n0\n1\n")
	qi := verifChoice("query", len(verifC13SubFiles))
	amp := verifAmplify()
	tx := verifNewTx()
	tx.Flags.Quiet = true
	tx.Flags.CPU = 2
	if amp > 1 {
		tx.Flags.CPU = 4
	}
	proc := NewProcessor(tx)
	scope := proc.ReferenceScope
	k0 := int64(verifChoice("k", 2))
	rows := make([][]value.Primary, 2*amp)
	for i := range rows {
		rows[i] = []value.Primary{value.NewInteger(int64(i)), value.NewInteger((k0 + int64(i)) % 2)}
	}
	verifTempTable(scope, "t", []string{"id", "k"}, rows)
	GetGoroutineManager().MinimumRequiredPerCore = 1
	verifPreemptions(verifBound(0, 1))
	verifRaces(true)
	verifSchedules(true)
	view, err := Select(verifCtx(), scope, verifC13SubFiles[qi])
	verifSchedules(false)
	verifRaces(false)
	verifAssert("the query runs", err == nil)
	if err == nil {
		verifObserve("rows", int64(view.RecordLen()))
	}
	_ = proc.ReleaseResourcesWithErrors()
	verifReach("end")
}
