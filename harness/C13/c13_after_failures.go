package query

//verif:property C13
//verif:pkg lib/query
//verif:setup VerifC13AfterFailuresSetup
//verif:harness VerifC13AfterFailedStatements mode=bv tier=quick split=6

import (
	"github.com/mithrandie/csvq/lib/parser"
	"github.com/mithrandie/csvq/lib/value"
)

// statements that fail at one particular clause each (or, the last ones, succeed through a rarely
// taken exit): what a session leaves in the scope / block / key pools must still be owned once
var verifC13FailSrc = []string{
	"select id from t limit 'abc'",
	"select id from t limit 1 offset 'abc'",
	"select id from t order by nosuch",
	"select nosuch from t",
	"select id from t where nosuch = 1",
	"select k, count(*) from t group by nosuch",
	"select k, count(*) from t group by k having nosuch > 1",
	"select id from nosuchtable",
	"with x as (select nosuch from t) select * from x",
	"select id from t union select nosuch from t",
	"select id from t union select id, k from t",
	"select id, (select nosuch from o) from t",
	"select id from t limit 10 percent with ties",
	"select id into @nosuchvar from t",
	"select id, k into @v from t limit 1",
	"select id from t where id in (select id, k from o)",
	"select id from t where false limit 0",
	"select id from o for update",
}
var verifC13FailStmts [][]parser.Statement
var verifC13AfterQueries []parser.SelectQuery
var verifC13AfterDecl []parser.Statement

func VerifC13AfterFailuresSetup() {
	for _, s := range verifC13FailSrc {
		verifC13FailStmts = append(verifC13FailStmts, verifParse(s+";"))
	}
	for _, s := range []string{
		"select id, (select count(*) from t as z where z.k = t.k) from t",
		"select id, (select max(s.id) from (select z.id from t as z where z.k = t.k) s) from t",
	} {
		verifC13AfterQueries = append(verifC13AfterQueries, verifParse(s)[0].(parser.SelectQuery))
	}
	verifC13AfterDecl = verifParse("var @v;")
}

// One (thorough: one or two) earlier statements of the session end at a particular clause - most of them with an error -
// and then a query whose rows run a subquery is split over two workers, under the race monitor (an
// object that is put into a sync.Pool while the pool already holds it is reported: two later owners
// would share it) and every worker order.  The query's result is what it is in a fresh session.
func VerifC13AfterFailedStatements() {
	tx := verifNewTx()
	tx.Flags.Quiet = true
	tx.Flags.CPU = 2
	amp := verifAmplify()
	if amp > 1 {
		tx.Flags.CPU = 4
	}
	proc := NewProcessor(tx)
	scope := proc.ReferenceScope
	const n = 3
	rows := make([][]value.Primary, n*amp)
	for i := range rows {
		rows[i] = []value.Primary{value.NewInteger(int64(i)), value.NewInteger(int64(i % 2))}
	}
	verifTempTable(scope, "t", []string{"id", "k"}, rows)
	verifTempTable(scope, "o", []string{"id", "k"}, rows[:1])
	_, err := proc.Execute(verifCtx(), verifC13AfterDecl)
	verifAssert("declaration", err == nil)
	GetGoroutineManager().MinimumRequiredPerCore = 1
	fi := verifChoice("earlier-statement", len(verifC13FailSrc))
	times := 1 + verifChoice("twice", verifBound(1, 2))
	if amp > 1 {
		// the native confirmation run repeats the rows and the earlier statement (Go's pools are per
		// processor and drop objects under the race detector: one surplus object is rarely handed out twice)
		times *= 4
	}
	for r := 0; r < times; r++ {
		_, _ = proc.Execute(verifCtx(), verifC13FailStmts[fi])
	}
	qi := verifChoice("query", verifBound(1, len(verifC13AfterQueries)))
	verifPreemptions(verifBound(0, 1))
	verifRaces(true)
	verifSchedules(true)
	view, err := Select(verifCtx(), scope, verifC13AfterQueries[qi])
	verifSchedules(false)
	verifRaces(false)
	verifAssert("the query runs", err == nil)
	if err == nil && amp == 1 {
		verifAssert("three rows", view.RecordLen() == 3)
		for i := 0; i < 3 && i < view.RecordLen(); i++ {
			id, ok1 := view.RecordSet[i][0][0].(*value.Integer)
			c, ok2 := view.RecordSet[i][1][0].(*value.Integer)
			want := int64(1) // k = 1: row 1 only
			if i%2 == 0 {
				want = 2 // k = 0: rows 0 and 2
			}
			if qi == 1 {
				want = int64(1)
				if i%2 == 0 {
					want = 2 // the greatest id with k = 0
				}
			}
			verifAssert("rows in order with the subquery's value of their own key", ok1 && ok2 && id.Raw() == int64(i) && c.Raw() == want)
		}
	}
	verifObserve("earlier", int64(fi))
	verifReach("end")
}
