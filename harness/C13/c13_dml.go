package query

//verif:property C13
//verif:pkg lib/query
//verif:setup VerifC13DMLSetup
//verif:harness VerifC13ParallelDML mode=bv tier=quick split=6

import (
	"github.com/mithrandie/csvq/lib/parser"
	"github.com/mithrandie/csvq/lib/value"
)

var verifC13DMLSrc = []string{
	"replace into t (k, id) using (k) values (0, 70), (1, 80), (5, 90)", // the key matches several records (in different workers' ranges) or none
	"replace into t (id, k) using (id) values (0, 9), (1, 9), (7, 9)",
	"update t set k = k + id where k < 1",
	"delete from t where k = 0",
	"insert into t select id + 10, k from t where k = 1",
	"alter table t add (w default id * 10 + k)",
	"alter table t drop k",
	"update t set k = (select count(*) from t as z where z.k = t.k)",
}
var verifC13DML [][]parser.Statement

func VerifC13DMLSetup() {
	for _, s := range verifC13DMLSrc {
		verifC13DML = append(verifC13DML, verifParse(s+";"))
	}
}

// Data-changing statements whose per-record work is split over two workers (REPLACE with keys that match
// several records or none, UPDATE, DELETE, INSERT ... SELECT, ALTER TABLE ADD / DROP), with the race monitor on,
// under every order in which the workers run.
func VerifC13ParallelDML() {
	si := verifChoice("statement", len(verifC13DMLSrc))
	const n = 3
	var keys [n]int64
	for i := range keys {
		keys[i] = int64(verifChoice("k", 2))
	}
	tx := verifNewTx()
	tx.Flags.Quiet = true
	tx.Flags.CPU = 2
	amp := verifAmplify()
	if amp > 1 {
		tx.Flags.CPU = 4
	}
	proc := NewProcessor(tx)
	scope := proc.ReferenceScope
	rows := make([][]value.Primary, n*amp)
	for i := range rows {
		id := int64(i)
		if amp > 1 {
			id = int64(i % n) // the amplified instance repeats the chosen rows
		}
		rows[i] = []value.Primary{value.NewInteger(id), value.NewInteger(keys[i%n])}
	}
	verifTempTable(scope, "t", []string{"id", "k"}, rows)
	GetGoroutineManager().MinimumRequiredPerCore = 1
	verifPreemptions(verifBound(0, 1))
	verifRaces(true)
	verifSchedules(true)
	_, err := proc.Execute(verifCtx(), verifC13DML[si])
	verifSchedules(false)
	verifRaces(false)
	verifAssert("the statement runs", err == nil)
	verifObserve("rows", int64(verifStored(scope, "T").RecordLen()))
	verifReach("end")
}
