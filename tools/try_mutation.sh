#!/bin/sh
# usage: try_mutation.sh <property> <patch.diff> [check args...]  — applies the patch to /repo, runs the check, reverts.
id="$1"; patch="$2"; shift 2
# TRY_REPO: a scratch copy of /repo to mutate instead of /repo itself (default /repo)
R=${TRY_REPO:-/repo}
cd $R || exit 2
git status --short | grep -q . && { echo "repo not clean"; exit 2; }
git apply "$patch" || { echo "patch does not apply"; exit 2; }
# VERIF_ROOT: a private copy of /verif to run from (so that edits to /verif do not disturb a long sweep)
V=${VERIF_ROOT:-/verif}
cd $V && VERIF_EVIDENCE_DIR=/tmp/gosmt-evidence$TRY_TAG GOFLAGS=-mod=mod GOPROXY=off GOSUMDB=off GOTOOLCHAIN=local bin/gosmt check --verif $V --repo $R "$@" "$id" > /tmp/try_$id$TRY_TAG.log 2>&1; rc=$?
git -C $R checkout -- . 
echo "exit=$rc"; grep -E "^VIOLATION|counterexample|^KNOWN|^C[0-9]+ " /tmp/try_$id$TRY_TAG.log | cut -c1-300 | head -8
