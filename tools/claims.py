NOT_APPLICABLE = {}
CLAIMED = {
 "C16": {
  "text": "Bounded symbolic model checking of the cursor kernel: one inductive step of Cursor.Fetch from an arbitrary valid open state (view of 0..3 rows, pointer in [-1,n], any position keyword, number over the full int64 range) against a reference addressing model, plus closed/unfetched state operations and a NEXT walk; all paths decided by z3, counterexamples replayed on the real build.",
  "note": "Trusted: z3, go/ssa lowering, the interpreter (validated per run by native replay of sampled models). Cursor.Open's call into Select and the processor's WHILE IN loop are outside; tables larger than 3 rows are outside (row identity is index-generic).",
 },
}
