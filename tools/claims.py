NOT_APPLICABLE = {}
CLAIMED = {
 "C16": {
  "text": "Bounded symbolic model checking of the cursor kernel: one inductive step of Cursor.Fetch from an arbitrary valid open state (view of 0..3 rows, pointer in [-1,n], any position keyword, number over the full int64 range) against a reference addressing model, plus closed/unfetched state operations and a NEXT walk; all paths decided by z3, counterexamples replayed on the real build.",
  "note": "Trusted: z3, go/ssa lowering, the interpreter (validated per run by native replay of sampled models). Cursor.Open's call into Select and the processor's WHILE IN loop are outside; tables larger than 3 rows are outside (row identity is index-generic).",
 },
 "C07": {
  "text": "Bounded symbolic model checking of the real Select pipeline (LoadView of a temporary table, Select, OrderBy incl. std sort.Sort interpreted from SSA, Offset, Limit, Fix) driven by parsed statements: n<=3 rows (thorough 4) with NULL or arbitrary-int64 keys, every direction / NULLS position, arbitrary int64 LIMIT/OFFSET, WITH TIES, integral PERCENT in [-5,205] plus a 120-row table for PERCENT up to 400; oracle is the definition of sorted sub-permutation / window / ties.",
  "note": "Trusted: z3, go/ssa, the interpreter (validated per run by native replay). PERCENT uses exact-rational floats justified for integral percentages (DESIGN.md 2.5); float/string/datetime keys, multi-key ORDER BY and tables beyond the stated sizes are outside.",
 },
}
