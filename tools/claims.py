NOT_APPLICABLE = {}
CLAIMED = {
 "C16": {
  "text": "Bounded symbolic model checking of the cursor kernel: one inductive step of Cursor.Fetch from an arbitrary valid open state (view of 0..3 rows, pointer in [-1,n], any position keyword, number over the full int64 range) against a reference addressing model, plus closed/unfetched state operations and a NEXT walk; all paths decided by z3, counterexamples replayed on the real build.",
  "note": "Trusted: z3, go/ssa lowering, the interpreter (validated per run by native replay of sampled models). Cursor.Open's call into Select and the processor's WHILE IN loop are outside; tables larger than 3 rows are outside (row identity is index-generic).",
 },
 "C07": {
  "text": "Bounded symbolic model checking of the real Select pipeline (LoadView of a temporary table, Select, OrderBy incl. std sort.Sort interpreted from SSA, Offset, Limit, Fix) driven by parsed statements: n<=3 rows (thorough 4) with NULL or arbitrary-int64 keys, every direction / NULLS position, arbitrary int64 LIMIT/OFFSET, WITH TIES, integral PERCENT in [-5,205] plus a 120-row table for PERCENT up to 400; oracle is the definition of sorted sub-permutation / window / ties.",
  "note": "Trusted: z3, go/ssa, the interpreter (validated per run by native replay). PERCENT uses exact-rational floats justified for integral percentages (DESIGN.md 2.5); float/string/datetime keys, multi-key ORDER BY and tables beyond the stated sizes are outside.",
 },
 "C06": {
  "text": "Bounded symbolic model checking of value.CompareCombinedly and the six relational operators on every ordered pair of operand classes (NULL, Integer and Float with fully symbolic payloads incl. NaN/Inf/-0/int64 bounds, Boolean, Ternary, Datetime with symbolic seconds, 24 representative strings) against a reference ladder written from the manual's conversion table, plus the mutual-consistency laws; Kleene tables of the ternary package; query.Calculate on all class pairs and operators (exact-rational floats on integral operands below 2^26: NULL/Integer/Float typing, division-by-zero error, integer/float agreement, sign and magnitude of %); and BETWEEN/IN/ANY/ALL/CASE/IS/AND/OR/NOT against their documented expansions through the real parser and Evaluate.",
  "note": "Trusted: z3 (incl. its FloatingPoint theory), go/ssa, the interpreter (validated per run). Strings are enumerated representatives, not symbolic (strconv.ParseFloat is not encodable); float arithmetic is claimed only on integral operands below 2^26; LIKE and the datetime parser are outside.",
 },
 "C12": {
  "text": "Bounded symbolic model checking of the arithmetic that makes parallel results order-independent: GoroutineTaskManager.RecordRange yields ordered, contiguous, disjoint ranges covering [0,n) for every n < 2^31, worker count and worker index (mathematical integers with discharged no-overflow obligations), and GoroutineManager.AssignRoutineNumber stays within 1..cpu and max(1, n/threshold) for every load.",
  "note": "Trusted: z3, go/ssa, the interpreter (validated per run). This is the range lemma only (DESIGN.md C12a); schedule- and map-order independence of the operators is covered by the C12 harnesses that enable schedule/map-order forking where registered; --cpu beyond the modelled worker counts and the real Go scheduler are outside.",
 },
 "C04": {
  "text": "Bounded symbolic model checking of the bucket key: SerializeComparisonKeys on two rows of two symbolic text cells over the alphabet of every delimiter/tag character (all length combinations within the stated bounds, both --strict-equal and default mode) is injective and does not split; single cells of every value class against csvq's own equality (no merge / no split per normal form); and GROUP BY, DISTINCT, UNION, INTERSECT, EXCEPT and PARTITION BY through the real Select pipeline on 3 rows (thorough 4) with COUNT/MIN/MAX/LISTAGG computed over exactly the rows of each bucket, in first-occurrence order.",
  "note": "Trusted: z3, go/ssa, the interpreter (validated per run). Text bounds: strict mode 0..4 bytes in one column (other column empty; thorough 0..5 | 0..1), default mode 0..1 bytes (thorough 0..2); integers in keys are concretised over small ranges; strconv.ParseFloat on symbolic text is modelled exactly only for texts without digits and i/n; float aggregates (SUM/AVG/STDEV...) and user aggregates are outside; multi-worker grouping order is C12.",
 },
 "C03": {
  "text": "Bounded symbolic model checking of SELECT through the real parser and Select pipeline on temporary tables: INNER/LEFT/RIGHT/FULL/CROSS/USING/NATURAL/LATERAL joins, comma joins, a joined subquery (tables of <=2 rows, thorough 3x2, join keys NULL or arbitrary int64) against the multiset the operator definitions yield incl. NULL padding and once-merged USING columns; WHERE, projection, SELECT *, subqueries (scalar correlated, IN, EXISTS), a CTE and a recursive CTE over <=3 rows (thorough 4): kept iff the condition is TRUE, source order and select order preserved.",
  "note": "Trusted: z3, go/ssa, the interpreter (validated per run). File-backed tables (LoadView from files), larger tables and deeper nesting than the listed statement shapes, field-name ambiguity rules, and the parallel paths (cpu>1, >=160 rows) are outside this check (C12/C13).",
 },
 "C05": {
  "text": "Bounded symbolic model checking of INSERT (VALUES, field list, SELECT), UPDATE, DELETE, REPLACE and ALTER TABLE ADD/DROP/RENAME executed by the real Processor on a temporary table of 3 rows whose cells are NULL or arbitrary int64, with every Go map iteration order explored: resulting table equals the reference edit cell by cell, column order/names as specified, reported affected-row count exact.",
  "note": "Trusted: z3, go/ssa, the interpreter (validated per run). One statement per run (statement sequences are outside), single-table forms only, files and stdin tables outside (their publication path CachedViews.Set is the same code shape, not executed here).",
 },
 "C08": {
  "text": "Bounded symbolic model checking of failing data-changing statements run by the real Processor: the failure point is chosen by the data (integer division by zero at any row or in any listed value, plus always-failing statements: unknown field, wrong row length, duplicate column, multi-row subquery); on every failing path the published table object, header, records and cells are the very same objects as before, nothing is scheduled for COMMIT and no affected rows are reported.",
  "note": "Trusted: z3, go/ssa, the interpreter (validated per run). Divisor cells range over [-3,3] (symbolic 64-bit division is out of the solver's reach); temporary tables only - file-backed tables publish through CachedViews.Set at the same program point but LoadView from files is not executed; CREATE TABLE failure (file removal) belongs to C11.",
 },
 "C17": {
  "text": "Bounded symbolic model checking of ROW_NUMBER, RANK, DENSE_RANK, CUME_DIST, PERCENT_RANK, NTILE, FIRST/LAST/NTH_VALUE (with IGNORE NULLS and explicit ROWS frames), LAG/LEAD (offset, default, IGNORE NULLS) and COUNT/MIN/MAX OVER (default and explicit frames, COUNT(*)) through the real parser and Select pipeline on <=3 rows (thorough 4) with a symbolic 2-valued partition column, arbitrary int64 ordering key (ties allowed where the function is tie-insensitive) and NULL-or-int64 values, against the per-partition, per-frame definitions.",
  "note": "Trusted: z3, go/ssa, the interpreter (validated per run). SUM/AVG/STDEV/MEDIAN/LISTAGG OVER (float results) and user aggregates are outside; PERCENT_RANK of a one-row partition is not judged; partitions larger than 4 rows and frame offsets other than those listed are outside.",
 },
}
