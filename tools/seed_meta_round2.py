# second round of seeded changes (exec'd by seed_meta.py; extends T)
T["C15-1"] = ("C15", "a function called from several goroutines at once (>= 160 rows, cpu > 1)", "C15 (VerifC15ParallelInvocations: a schedule with 2 preemptions makes an invocation lose its variable; confirmed natively on the amplified instance). Not a Go-level data race (SyncMap is internally synchronised), so C13's race monitor candidate stays unconfirmed", True)
T.update({
 "C01-1": ("C01", "a transaction that creates a table and updates another whose encoding fails at COMMIT", "C01 (VerifC01Procedures program 9)", True),
 "C01-2": ("C01", "an UPDATE matching no record of a table whose bytes are not in csvq's canonical form", "C01 (VerifC01Procedures program 10: b.csv is quoted and has no ending line break)", True),
 "C02-1": ("C02", "a COMMIT refused after another table was already encoded, then retried in the same transaction", "C02 (VerifC02RetriedCommit)", True),
 "C02-2": ("C02", "a CSV/TSV cell containing a bare CR or LF other than the table's own line break", "C02 (VerifC02CsvRoundTrip, VerifC02SingleColumn)", True),
 "C09-1": ("C09", "SELECT, then another process commits, then UPDATE + COMMIT in the first transaction", "C09 (VerifC09Transactions: two real transactions interleaved at file-system operations)", True),
 "C09-2": ("C09", "a second updater arriving while the first holds the table; the first commits by rename", "C09 (VerifC09TwoProcesses now reads through the handle it opened; VerifC09Transactions)", True),
 "C10-1": ("C10", "a crash between the truncate of phase 1 and the rename of an updated table", "C10 (VerifC10CrashInTransaction: the crash points now span Transaction.Commit)", True),
 "C10-2": ("C10", "a crash between the added remove and the rename in Handler.commit", "C10 (VerifC10CrashInCommit, VerifC10CrashInTransaction)", True),
 "C11-1": ("C11", "two paths in one transaction that differ only in letter case, the second created", "C11 (VerifC11NoLeftovers with the alias choice)", True),
 "C11-2": ("C11", "a reader that creates its rlock between the writer's two checks", "C11 (VerifC11Contention), also C09 (no control files are left behind)", True),
 "C13-1": ("C13", "a FULL OUTER JOIN split over >= 2 workers whose left rows match the same right row", "C13 (VerifC13Joins; go test -race confirms on the amplified instance)", True),
 "C13-2": ("C13", "a correlated subquery with more than 8 references to the outer record and a parallel inner scan", "C13 (VerifC13ParallelQueries query 14; go test -race confirms on the amplified instance)", True),
 "C18-1": ("C18", "program text ending in a bare carriage return", "C18 (VerifC18Totality: CR is in the alphabet now)", True),
 "C18-2": ("C18", "a sort key with both a direction and a NULLS position", "C18 (VerifC18PrintParse: the printed query has exactly the tokens of the source)", True),
 "C19-1": ("C19", "a file of more than 300 rows whose first 300 rows decode to more than 1.2 times the file size (Shift_JIS)", "C19 (VerifC19RecordSetSizing: file size and decoded width are independent symbolic numbers). patch.diff is rebased onto the tree after fix 6b1fa84; patch.as-delivered.diff is the sub-agent's file", True),
 "C19-2": ("C19", "another program holding an exclusive flock on the data file without csvq's lock file", "C19 (VerifC19ForeignLockHolder: modelled foreign flock, timer model, hang detection)", True),
 "C20-1": ("C20", "a plain SELECT followed by two data-changing statements on the same table", "C20 (VerifC20Stable with 4 steps and the final read)", True),
 "C20-2": ("C20", "a read-only transaction, COMMIT, a commit by another process, a further read", "C20 (VerifC20Stable with the final read)", True),
})
