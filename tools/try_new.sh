#!/bin/bash
# usage: try_new.sh <seed-dir-name>...   — runs the seed's own property check (whole quick tier)
# against a scratch copy of /repo with the seed applied; appends one line per seed to ${SWEEP_LOG:-/root/sweep_r5.log}
export TRY_REPO=${TRY_REPO:-/tmp/tryrepo}
git -C $TRY_REPO checkout -q --detach $(git -C /repo rev-parse HEAD)
for s in "$@"; do
  id=${s%%-*}
  st=$(date +%s)
  out=$(/verif/tools/try_mutation.sh $id /verif/seeded/$s/patch.diff $TRY_ARGS 2>&1)
  en=$(date +%s)
  if echo "$out" | grep -q "^exit=1"; then r=CAUGHT; else r=MISSED; fi
  echo "$s $r by=$id t=$((en-st))s $(echo "$out" | grep counterexample | head -1 | cut -c1-200)" | tee -a ${SWEEP_LOG:-/root/sweep_r5.log}
done
