#!/bin/bash
# usage: confirm_seed.sh <ID> <n> [worktree-prefix] [stored-number]
#   confirms a sub-agent's mutation <n> in its scratch worktree /tmp/<prefix><ID> (default prefix wt_)
#   and stores it under /verif/seeded/<ID>-<stored-number> (default <n>)
id=$1; n=$2; pre=${3:-wt_}; out=${4:-$n}; wt=/tmp/$pre$id; m=$wt/mutations/$n
export GOFLAGS=-mod=mod GOPROXY=off GOSUMDB=off GOTOOLCHAIN=local TMPDIR=/tmp/seedtmp_${pre}${id}_$n
mkdir -p $TMPDIR
cd $wt || exit 2
git checkout -q -- lib 2>/dev/null
run_demo() {
  if [ -f $m/demo.sh ]; then (cd $wt && bash $m/demo.sh >/dev/null 2>&1); return $?; fi
  if [ -f $m/demo_test.go ]; then
    dir=$(head -3 $m/demo_test.go | grep -o 'package dir: [a-z/]*' | sed 's/package dir: //'); [ -z "$dir" ] && dir=lib/query
    cp $m/demo_test.go $wt/$dir/zz_demo_test.go
    race=""; grep -q -- '-race' $m/demo_test.go && race="-race"
    (cd $wt && go test $race -vet=off -count=1 -run 'Demo|C[0-9]+' ./$dir/ >/dev/null 2>&1); rc=$?
    rm -f $wt/$dir/zz_demo_test.go; return $rc
  fi
  return 99
}
run_demo; clean=$?
git apply $m/patch.diff || { echo "$id/$n: patch does not apply"; exit 1; }
go build ./... >/dev/null 2>&1; build=$?
suite=$( (go test -vet=off -count=1 $(go list ./... | grep -v mutations) 2>&1) | grep -v "^ok\|no test files" | head -3)
run_demo; mutated=$?
git checkout -q -- lib
rm -rf $TMPDIR
echo "$id/$n: demo_clean=$clean build=$build suite_failures=[${suite}] demo_mutated=$mutated"
if [ $clean -eq 0 ] && [ $build -eq 0 ] && [ -z "$suite" ] && [ $mutated -ne 0 ]; then
  d=/verif/seeded/$id-$out; mkdir -p $d; cp $m/patch.diff $d/; cp $m/README.md $d/ 2>/dev/null; cp $m/demo.sh $m/demo_test.go $d/ 2>/dev/null
  echo CONFIRMED
fi
