# tenth round (9 kept of 14 delivered; C03 C04 C05 C06 C07 C08 C14 C17; 5 dropped as repeats of earlier seeds: both C06
# changes, C03's two, C05's ADD-default header, C07's WITH TIES offset, C14's DATETIME zone).  Mutation 1 = two clauses or
# features of one statement meeting, mutation 2 = a boundary of representation.  Against the checks as they stood after
# round 9, 7 of 9 were caught by the property's own check as delivered; after strengthening all 9 are.
T.update({
 "C04-14": ("C04", "--strict-equal together with a DISTINCT aggregate over values that are equal loosely but not strictly", "C04 (VerifC04Buckets strict mode, query 8; as delivered)", True),
 "C04-15": ("C04", "PARTITION BY on integers beyond 2^53 that share a float64 image", "C04 (VerifC04Buckets family 2; as delivered)", True),
 "C05-15": ("C05", "REPLACE with integer keys above 2^53 that differ below float64 precision", "C05 (VerifC05Statements: symbolic int64 keys, the solver picks a = 576460752311812176 and its neighbour; as delivered)", True),
 "C07-14": ("C07", "ORDER BY on integers beyond 2^53 closer together than the float64 spacing", "C07 (VerifC07TwoKeys: symbolic keys; as delivered)", True),
 "C08-13": ("C08", "CREATE TABLE with a column list AND AS SELECT whose field counts differ", "C08 (VerifC08RefusedCreate form 4; as delivered)", True),
 "C08-14": ("C08", "a failing UPDATE on a table of >= 320 records whose count is not a multiple of 4, the failure at the tail", "C08 (VerifC08FailingOnLargeTable: 323 records and a failure at the very last record, added)", True),
 "C14-13": ("C14", "unary minus on a cell holding exactly -9223372036854775808, then another integer allocation", "C14 (VerifC14Expressions: unary operators on cells that are any int64, added; the solver picks a = -9223372036854775808)", True),
 "C17-15": ("C17", "a user-defined aggregate with a column as extra argument, OVER a partition without ORDER BY", "C17 (VerifC17Analytic query 37; as delivered)", True),
 "C17-16": ("C17", "RANK / DENSE_RANK / CUME_DIST over integers beyond 2^53 that share a float64 image", "C17 (VerifC17Analytic: symbolic keys, the solver picks k = 288371113640067072 and 288371113640067041; as delivered)", True),
})
