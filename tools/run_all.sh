#!/bin/bash
# usage: run_all.sh [tier]  — runs every property's check sequentially, prints one summary line each
tier=${1:-quick}
cd /verif
for i in $(seq -w 1 20); do
  id=C$i
  s=$(date +%s)
  out=$(./check $id --tier $tier 2>&1); rc=$?
  e=$(date +%s)
  echo "$id rc=$rc t=$((e-s))s $(echo "$out" | grep "^$id " | tail -1 | cut -c1-220)"
  echo "$out" | grep -E '^VIOLATION|^INCONCLUSIVE' | grep -v SPURIOUS | cut -c1-300 | head -5
done
