#!/bin/bash
# usage: seed_sweep.sh [seed ...]  — applies every seeded change (default: all) to /repo, runs the
# check named in its meta.json (detecting_check / detecting_harness_filter), reverts, and prints one
# line per seed: CAUGHT (exit 1 with a VIOLATION line) or MISSED.
cd /verif
seeds=${@:-$(ls seeded)}
for s in $seeds; do
  m=seeded/$s/meta.json
  chk=$(python3 -c "import json;d=json.load(open('$m'));print(d.get('detecting_check') or d['breaks_property'])")
  only=$(python3 -c "import json;d=json.load(open('$m'));print(d.get('detecting_harness_filter',''))")
  args=""; [ -n "$only" ] && args="--only $only"
  st=$(date +%s)
  out=$(tools/try_mutation.sh $chk /verif/seeded/$s/patch.diff $args 2>&1)
  en=$(date +%s)
  if echo "$out" | grep -q "^exit=1"; then r=CAUGHT; else r=MISSED; fi
  echo "$s $r by=$chk${only:+/$only} t=$((en-st))s $(echo "$out" | grep counterexample | head -1 | cut -c1-160)"
done
