#!/usr/bin/env python3
"""Regenerates /verif/MANIFEST.json from the table below (kept in one place so it stays valid)."""
import json, os, glob

CLAIMED = {
 # id: (level text, level_note, design_ref)
}
exec(open(os.path.join(os.path.dirname(__file__), "claims.py")).read())

NOT_YET = "check not built yet in this session (work in progress; see DESIGN.md §4 for the plan)"

def main():
    props = [json.loads(l)["id"] for l in open("/verif/properties.jsonl")]
    checks, na = [], []
    for p in props:
        if p in CLAIMED and glob.glob(f"/verif/harness/{p}/*.go"):
            c = CLAIMED[p]
            checks.append({
                "property_id": p,
                "quick_cmd": f"./check {p} --tier quick",
                "thorough_cmd": f"./check {p} --tier thorough",
                "evidence_file": f"/verif/evidence/{p}.json",
                "replay_cmd_template": "./bin/gosmt replay {path}",
                "engine": "gosmt",
                "level_claimed": {"category": "model_checking", "text": c["text"], "design_ref": c.get("ref", "DESIGN.md §4 " + p)},
                "level_note": c["note"],
                "technique": c.get("technique", "bounded symbolic execution of the real functions from go/ssa (own interpreter) with z3 deciding every path obligation; counterexamples replayed natively"),
            })
        else:
            na.append({"property_id": p, "reason": NOT_APPLICABLE.get(p, NOT_YET)})
    m = {
        "version": 1,
        "setup_cmd": "cd /verif/engine && GOFLAGS=-mod=mod GOPROXY=off GOSUMDB=off GOTOOLCHAIN=local go build -o /verif/bin/gosmt ./cmd/gosmt",
        "hooks": {
            "guard": "verif",
            "enable": "no source hooks: harnesses, intrinsics and replay tests enter through go/packages and `go test -overlay` build overlays generated at run time from /verif/harness",
            "baseline_off_cmd": json.load(open("/root/.vp/BASELINE.json"))["cmd"],
            "source_commits": [],
            "add_only": True,
        },
        "engines": [{
            "name": "gosmt",
            "path": "/verif/engine",
            "serves_properties": [c["property_id"] for c in checks],
            "kind_free_text": "symbolic interpreter for go/ssa (fork of x/tools ssa/interp with symbolic scalars/strings, decision-replay DFS, panic obligations, cooperative goroutine scheduler) + persistent z3 session; native replay of models via go test -overlay",
        }],
        "checks": checks,
        "not_applicable": na,
        "notes": "Every check is bounded symbolic execution of /repo's current source (regenerated per run). INCONCLUSIVE lines (solver unknown, unsupported construct, harness no longer type-checks) reduce the claimed bound and never raise an alarm. See DESIGN.md.",
    }
    json.dump(m, open("/verif/MANIFEST.json", "w"), indent=1)
    print("checks:", [c["property_id"] for c in checks], "n/a:", len(na))

main()
