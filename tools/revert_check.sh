#!/bin/bash
# usage: revert_check.sh <fix-commit> <check-id> [check args]  — reverse-applies one fix: commit to
# /repo's working tree, runs the check (must exit 1), restores the tree.
c=$1; id=$2; shift 2
# REVERT_REPO: a scratch worktree of /repo to work in instead of /repo itself (default /repo)
R=${REVERT_REPO:-/repo}
cd $R || exit 2
[ "$R" != /repo ] && git checkout -q --detach $(git -C /repo rev-parse HEAD)
git status --short | grep -q . && { echo "repo not clean"; exit 2; }
git show $c -- lib | git apply -R || { echo "cannot reverse-apply $c"; exit 2; }
cd /verif && VERIF_EVIDENCE_DIR=/tmp/gosmt-evidence ./check $id --repo $R "$@" > /tmp/revert_$id.log 2>&1; rc=$?
git -C $R checkout -- .
echo "revert $c: $id exit=$rc $(grep -E 'counterexample' /tmp/revert_$id.log | head -1 | cut -c1-220)"
