#!/usr/bin/env python3
"""Writes /verif/seeded/<id>/meta.json from the table below (results of tools/try_mutation.sh)."""
import json, os, re
T = {
 "C03-1": ("C03", "a CTE referenced at least twice, the first reference filtering/reordering", "C03", True),
 "C03-2": ("C03", ">= 3 worker goroutines in a join and a middle chunk without matches (--cpu >= 3, >= 30 rows)", "C12 (VerifC12ParallelJoin); C03's own harnesses run one worker", True),
 "C04-1": ("C04", "two analytic functions in one SELECT, one ordering by the column the other partitions by", "C04 (VerifC04Buckets query 6)", True),
 "C04-2": ("C04", "a text key ending in a backslash next to one containing ':[S]'", "C04 (VerifC04KeyDecodable)", True),
 "C05-1": ("C05", "REPLACE whose USING key is duplicated among existing rows", "C05", True),
 "C05-2": ("C05", "UPDATE of a temporary table declared outside, executed inside an IF/WHILE/function block", "C05", True),
 "C06-1": ("C06", "BETWEEN with a NULL/incommensurable lower bound and x > high", "C06 (VerifC06Expansions)", True),
 "C06-2": ("C06", "ordering comparison of integers whose difference overflows int64", "C06 (VerifC06Ladder, VerifC06Expansions)", True),
 "C07-1": ("C07", "ORDER BY + LIMIT n WITH TIES + OFFSET m > 0", "C07 (VerifC07LimitOffset, VerifC07Percent)", True),
 "C07-2": ("C07", "ORDER BY on a column after an analytic function's own ORDER BY reordered the rows", "C07 (VerifC07Order queries 6/7)", True),
 "C08-1": ("C08", "multi-row INSERT/REPLACE whose later row fails while an earlier value comes from a variable or another table, then a new allocation", "C08 (pool churn)", True),
 "C08-2": ("C08", "UPDATE that fails on a later row or SET item", "C08", True),
 "C12-1": ("C12", "same change as C03-2", "C12 (VerifC12ParallelJoin)", True),
 "C12-2": ("C12", "user-defined aggregate OVER (PARTITION BY ...) with column arguments on >= 2 workers (a data race)", "C13 (race monitor, confirmed by go test -race); C12 quick tier explores no preemptions and misses it", True),
 "C14-1": ("C14", "DATETIME(d, tz) with a datetime first argument, then another datetime allocation", "C14 (VerifC14Expressions)", True),
 "C14-2": ("C14", "EXECUTE executed a second time / on a variable", "C14 (VerifC14Statements)", True),
 "C15-1": ("C15", "a function called from several goroutines at once (>= 160 rows, cpu > 1)", "not detected: the engine raises a race candidate in C13 but the Go race detector does not reproduce it in 400 native runs, so it is reported as INCONCLUSIVE", False),
 "C15-2": ("C15", "WHILE body that declares something, then CONTINUEs from a nested block, then iterates again", "C15 (programs 10/11)", True),
 "C16-1": ("C16", "a fetch landing two or more positions before the first row, followed by NEXT", "C16 (VerifC16FetchStep)", True),
 "C16-2": ("C16", "REPLACE matching an existing row between OPEN and FETCH on the same cached table", "C16 (VerifC16Snapshot)", True),
 "C17-1": ("C17", "two analytic functions sharing PARTITION BY with different ORDER BY", "C17 (query 22)", True),
 "C17-2": ("C17", "ROWS frame that excludes the current row near a partition edge", "C17 (queries 20, 21, 23)", True),
}
# CHK: seed -> (check to run, harness filter) where the detecting check is not the seed's own property
CHK = {"C03-2": ("C12", "ParallelJoin"), "C12-2": ("C13", "ParallelQueries"), "C11-2": ("C11", "Contention")}
for extra in ("seed_meta_round2.py", "seed_meta_round3.py", "seed_meta_round4.py", "seed_meta_round5.py", "seed_meta_round6.py", "seed_meta_round9.py", "seed_meta_round10.py"):
    f = os.path.join(os.path.dirname(__file__), extra)
    if os.path.exists(f):
        exec(open(f).read())
for sid, (prop, needs, by, detected) in T.items():
    d = f"/verif/seeded/{sid}"
    if not os.path.isdir(d):
        continue
    readme = ""
    if os.path.exists(d + "/README.md"):
        readme = " ".join(open(d + "/README.md").read().split())[:700]
    demo = "demo.sh" if os.path.exists(d + "/demo.sh") else "demo_test.go"
    meta = {
        "breaks_property": prop,
        "origin": "independent sub-agent given only the property text and a scratch worktree",
        "summary": readme,
        "needs_to_manifest": needs,
        "demonstration": demo,
        "confirmed_by": "tools/confirm_seed.sh: patch applies to HEAD; go build and the full go test suite pass with it; the demonstration fails with it and passes without it",
        "checked_with": f"tools/try_mutation.sh {CHK.get(sid, (prop, ''))[0]} /verif/seeded/{sid}/patch.diff (git apply to /repo, ./check, git checkout); tools/seed_sweep.sh re-runs all of them",
        "detected": detected,
        "detected_by": by,
        "detecting_check": CHK.get(sid, (prop, ""))[0],
        "detecting_harness_filter": CHK.get(sid, (prop, ""))[1],
    }
    if sid == "C17-2":
        meta["note"] = "patch.diff no longer applies to the tree: fix 8fdbc2f rewrote the frame-index code it changed; the same change (frame positions clamped into the partition) was made again on the new code as C17-8, which C17 catches"
    if sid in ("C13-1", "C13-2", "C13-3", "C13-4"):
        meta["confirmed_by"] = "as tools/confirm_seed.sh, with the demonstration run under go test -race (it fails with the patch: DATA RACE; passes without)"
    json.dump(meta, open(d + "/meta.json", "w"), indent=1)
print("meta written for", len([s for s in T if os.path.isdir('/verif/seeded/' + s)]))
