# ninth round (20 kept; properties C01 C09 C10 C11 C12 C13 C15 C16 C18 C20): mutation 1 depends on an order or timing of
# events, mutation 2 sits behind an unusual combination of features.  Against the checks as they stood after round 8,
# 10 of 20 were caught by the property's own check (C01-12, C09-11, C09-12, C11-12, C11-13, C12-13, C13-13, C15-14, C16-11,
# C18-12, C20-12 = 11 with C20-12) and 3 more by a sibling check as delivered (C10-12 -> C02, C12-12 -> C13, C20-13 -> C09).
# After strengthening 19 are caught; not detected: C10-13 (a table reached through a symbolic link).
T.update({
 "C11-9": ("C11", "--out with a relative path + CHDIR in the program + no output", "C11 (VerifC11RunOutFile, added in round 9: the real lib/action.Run on the modelled file system; counterexample program=2 out=1)", True),
 "C01-12": ("C01", "a transaction that creates a table and changes an existing one, the COMMIT failing between the created file's write and the updated file's write", "C01 (VerifC01Procedures program 9; as delivered)", True),
 "C01-13": ("C01", "a data-changing statement on the STDIN table, then ROLLBACK (or COMMIT, change, ROLLBACK)", "C01 (VerifC01ChangeKinds: the STDIN table as third table kind, added)", True),
 "C09-11": ("C09", "plain SELECT, commit by another process, data-changing statement and COMMIT in the first transaction", "C09 (VerifC09Transactions; as delivered)", True),
 "C09-12": ("C09", "FOR UPDATE with EXCEPT / INTERSECT and a writer on the right-hand table", "C09 (VerifC09ForUpdateHoldsAll; as delivered)", True),
 "C10-12": ("C10", "a COMMIT interrupted after part of the new contents was flushed, then a shorter version committed", "C02 (VerifC02RetriedCommit; as delivered); C10 (VerifC10CrashInRetriedCommit, added)", True),
 "C10-13": ("C10", "a table reached through a symbolic link + a process death inside COMMIT", "not detected: the file-system model has no symbolic links (os.Lstat / EvalSymlinks / WriteFile through a link are not modelled)", False),
 "C11-12": ("C11", "the rename at the end of COMMIT fails (table path replaced by a directory, read-only directory)", "C11 (VerifC11NoLeftovers: injected fault at the rename; as delivered)", True),
 "C11-13": ("C11", "a held table and CREATE TABLE on the same name in another letter case in one transaction", "C11 (VerifC11NoLeftovers: alias names; as delivered)", True),
 "C12-12": ("C12", "GROUP BY on >= 2 workers with a real interleaving between 'store value' and 'serialise key'", "C13 (VerifC13ParallelQueries: race monitor, confirmed with go test -race; as delivered); a value-level race inside a per-record loop cannot show in results under the engine's cooperative scheduler, so C12's own check does not see it", True),
 "C12-13": ("C12", "NATURAL JOIN / USING over >= 20 common columns", "C12 (VerifC12WideJoin; as delivered)", True),
 "C13-12": ("C13", "SELECTs failing in their LIMIT clause, then a correlated subquery on >= 2 workers", "C13 (VerifC13AfterFailedStatements, added; the double-Put detector now compares pooled struct values; confirmed with go test -race on the amplified instance)", True),
 "C13-13": ("C13", "a user-defined aggregate with extra arguments as analytic function over several partitions on >= 2 workers", "C13 (VerifC13ParallelQueries query 8; as delivered)", True),
 "C15-13": ("C15", "RETURN from inside WHILE in a function, later two scopes alive at once (recursion, nested blocks)", "C15 (VerifC15Programs program 16, added)", True),
 "C15-14": ("C15", "a temporary table declared in a block under the name of an outer one, changed inside the block", "C15 (VerifC15Programs program 13; as delivered)", True),
 "C16-11": ("C16", "a fetch past the end (ABSOLUTE 100), then PRIOR / RELATIVE -2", "C16 (VerifC16StateOps; as delivered)", True),
 "C16-12": ("C16", "a cursor declared for a prepared statement, OPEN ... USING while it is open", "C16 (VerifC16StatementCursor, added)", True),
 "C18-11": ("C18", "two goroutines inside parser.Parse at once, a word not seen before", "C18 (VerifC18ConcurrentParse, added; confirmed with go test -race)", True),
 "C18-12": ("C18", "a sort key with a direction and a NULLS position inside something printed", "C18 (VerifC18PrintParse token preservation; as delivered)", True),
 "C20-12": ("C20", "plain SELECT, lock held by another process, refused data-changing access, foreign COMMIT, plain SELECT", "C20 (VerifC20BlockedUpgrade; as delivered)", True),
 "C20-13": ("C20", "SELECT ... FOR UPDATE over a set operation with the table as right-hand operand, foreign commit, data-changing access", "C09 (VerifC09ForUpdateHoldsAll; as delivered); C20 (VerifC20PinnedByForUpdate, added)", True),
})
CHK.update({"C12-12": ("C13", "ParallelQueries")})
