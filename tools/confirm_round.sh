#!/bin/bash
# usage: confirm_round.sh <prefix> <ID>...  — confirms mutations 1 and 2 of each sub-agent worktree
# /tmp/<prefix><ID> and stores the confirmed ones under the next free /verif/seeded/<ID>-<k>.
pre=$1; shift
for id in "$@"; do
  rm -f /tmp/$pre$id/mutations/go.mod
  for n in 1 2; do
    [ -f /tmp/$pre$id/mutations/$n/patch.diff ] || { echo "$id/$n: no patch"; continue; }
    k=1; while [ -d /verif/seeded/$id-$k ]; do k=$((k+1)); done
    /verif/tools/confirm_seed.sh $id $n $pre $k 2>&1 | tail -2
  done
done
