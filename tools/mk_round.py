#!/usr/bin/env python3
"""usage: mk_round.py <prefix> <hint-file|-> <ID>...  — creates a scratch worktree /tmp/<prefix><ID> of /repo for each
property and writes the sub-agent prompt (tools/seed_prompt.md filled in: property text only) to /tmp/<prefix><ID>.prompt.md"""
import json, subprocess, sys, os
pre, hint, ids = sys.argv[1], sys.argv[2], sys.argv[3:]
props = {json.loads(l)["id"]: json.loads(l) for l in open("/verif/properties.jsonl")}
tmpl = open("/verif/tools/seed_prompt.md").read()
hint_text = open(hint).read().strip() if hint != "-" else "one in a central path that needs a rare input to manifest, one in peripheral code (a format, option, statement kind or function that is used less often)."
for i in ids:
    wt = f"/tmp/{pre}{i}"
    if not os.path.isdir(wt):
        subprocess.check_call(["git", "-C", "/repo", "worktree", "add", "-q", "--detach", wt, "HEAD"])
    p = props[i]
    open(wt + ".prompt.md", "w").write(tmpl.replace("{WT}", wt).replace("{ID}", i).replace("{TITLE}", p["title"]).replace("{STATEMENT}", p["statement"]).replace("{HINT}", hint_text))
    print(wt)
