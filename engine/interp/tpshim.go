package interp

import "go/types"

// Minimal stand-in for golang.org/x/tools/internal/typeparams (not importable from here).
type tpShim struct{}

var typeparams tpShim

func (tpShim) MustDeref(t types.Type) types.Type {
	if p, ok := t.Underlying().(*types.Pointer); ok {
		return p.Elem()
	}
	panic("cannot dereference " + t.String())
}

func (tpShim) CoreType(t types.Type) types.Type { return t.Underlying() }
