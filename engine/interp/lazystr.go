package interp

// lazyStr is the decimal text of a symbolic number (strconv.FormatInt / FormatFloat result) kept
// opaque: csvq computes such texts eagerly (value.ToString inside NewSortValue etc.) but most
// paths never look inside.  Operations that do not need the characters (case mapping, trimming,
// equality with another such text) are answered exactly; anything else forces the text, which
// concretises the number (integers) or ends the path as INCONCLUSIVE (floats).

import (
	"fmt"
	"go/types"
	"strconv"
)

type lazyStr struct {
	sym   *Sym
	base  int
	float bool
	upper bool // ToUpper applied (matters only for float texts: NaN, Inf, e+NN)
}

func (l lazyStr) String() string { return "fmt<" + l.sym.E + ">" }

func (l lazyStr) force() value {
	if l.float {
		panic(inconclusive{"the decimal text of a symbolic float is inspected (not encodable)"})
	}
	n := eng.concretize(l.sym)
	if kindSigned(l.sym.K) || isMathInt(l.sym.K) {
		return strconv.FormatInt(n, l.base)
	}
	return strconv.FormatUint(uint64(n), l.base)
}

// lazyEq: equality of two opaque texts.
func lazyEq(a, b lazyStr) (value, bool) {
	if a.float != b.float || a.base != b.base || a.upper != b.upper {
		return nil, false
	}
	if a.float {
		if RealMode {
			return symBool("(= " + a.sym.E + " " + b.sym.E + ")"), true
		}
		// FormatFloat is injective up to NaN payloads: equal texts iff both NaN or identical bits
		return symBool(fmt.Sprintf("(or (and (fp.isNaN %s) (fp.isNaN %s)) (= %s %s))", a.sym.E, b.sym.E, a.sym.E, b.sym.E)), true
	}
	if a.sym.K != b.sym.K {
		return nil, false
	}
	return symBool("(= " + a.sym.E + " " + b.sym.E + ")"), true
}

// lazyLen is the exact length of the decimal text of a symbolic integer.
func (l lazyStr) lazyLen() value {
	if !l.float && l.base == 10 && isMathInt(l.sym.K) {
		x := l.sym.E
		abs := eng.define("Int", "(abs "+x+")")
		e := "20"
		p := "10000000000000000000"
		for d := 19; d >= 1; d-- {
			e = fmt.Sprintf("(ite (< %s %s) %d %s)", abs, p, d, e)
			p = p[:len(p)-1]
		}
		digits := eng.define("Int", e)
		return mk(types.Int, fmt.Sprintf("(ite (< %s 0) (+ %s 1) %s)", x, digits, digits))
	}
	if l.float || l.base != 10 || isMathInt(l.sym.K) || !kindSigned(l.sym.K) || kindWidth(l.sym.K) != 64 {
		return len(l.force().(string))
	}
	x := l.sym.E
	// |x| as unsigned 64-bit, digits by thresholds
	abs := eng.define("(_ BitVec 64)", fmt.Sprintf("(ite (bvslt %s %s) (bvneg %s) %s)", x, bvLit(64, 0), x, x))
	e := bvLit(64, 20)
	p := uint64(10000000000000000000) // 10^19
	for d := 19; d >= 1; d-- {
		e = fmt.Sprintf("(ite (bvult %s %s) %s %s)", abs, bvLit(64, p), bvLit(64, uint64(d)), e)
		p /= 10
	}
	digits := eng.define("(_ BitVec 64)", e)
	return mk(types.Int, fmt.Sprintf("(ite (bvslt %s %s) (bvadd %s %s) %s)", x, bvLit(64, 0), digits, bvLit(64, 1), digits))
}

// lazyByte over-approximates one character of the text: some byte of the number alphabet.
func (l lazyStr) lazyByte() value {
	c := eng.Fresh("fmtchar", types.Uint8).(*Sym)
	if l.float {
		eng.assert(fmt.Sprintf("(or (and (bvuge %s #x30) (bvule %s #x39)) (= %s #x2d) (= %s #x2b) (= %s #x2e) (and (bvuge %s #x41) (bvule %s #x7a)))", c.E, c.E, c.E, c.E, c.E, c.E, c.E))
	} else {
		eng.assert(fmt.Sprintf("(or (and (bvuge %s #x30) (bvule %s #x39)) (= %s #x2d) (and (bvuge %s #x61) (bvule %s #x7a)))", c.E, c.E, c.E, c.E, c.E))
	}
	eng.assumptions["characters of the decimal text of a symbolic number are over-approximated by an arbitrary byte of the number alphabet"] = true
	return c
}
