package interp

// Entry points: load /repo with an overlay harness, build SSA, initialise chosen packages,
// explore a harness function.

import (
	"encoding/json"
	"fmt"
	"path/filepath"
	"go/token"
	"go/types"
	"os"
	"sort"
	"strings"
	"time"

	"golang.org/x/tools/go/packages"
	"golang.org/x/tools/go/ssa"
	"golang.org/x/tools/go/ssa/ssautil"
)

type Program struct {
	Prog  *ssa.Program
	Pkgs  []*packages.Package
	I     *interpreter
	inits []*ssa.Package
	// Setups are harness functions run once, concretely, after package initialisation.
	Setups []*ssa.Function
	// snapshot of globals after initialisation (restored before every path)
	snap map[*ssa.Global]value
}

// InitPackages lists the packages whose init functions are interpreted (in dependency order
// as given by the SSA init functions themselves); all other packages are marked initialised
// and their globals keep zero values unless set by stdGlobals.
var InitPrefixes = []string{
	"github.com/mithrandie/",
}

var InitStd = map[string]bool{
	"errors": true, "io": true, "unicode/utf8": true, "strconv": true, "strings": true, "bytes": true,
	"sort": true, "math": true, "math/bits": true, "context": true, "time": true, "unicode": true,
	"io/fs": true, "path/filepath": true, "os": false, "syscall": false, "internal/oserror": true,
	"regexp": true, "regexp/syntax": true, "bufio": true, "encoding/hex": true, "encoding/base64": true,
	"unicode/utf16": true, "text/unicode/norm": false, "math/rand": false,
	"internal/bytealg": false, "internal/itoa": true, "internal/godebug": false,
	"golang.org/x/text/encoding": true, "golang.org/x/text/transform": true,
	"golang.org/x/text/encoding/unicode": true, "golang.org/x/text/encoding/internal": true,
	"golang.org/x/text/encoding/internal/identifier": true, "golang.org/x/text/internal/utf8internal": true,
	"golang.org/x/text/runes": true,
}

func wantInit(path string) bool {
	for _, p := range InitPrefixes {
		if strings.HasPrefix(path, p) {
			return true
		}
	}
	return InitStd[path]
}

// Load type-checks the packages matching patterns under dir with the overlay and builds SSA.
func Load(dir string, overlay map[string][]byte, patterns ...string) (*Program, error) {
	cfg := &packages.Config{
		Mode:    packages.LoadAllSyntax,
		Dir:     dir,
		Overlay: overlay,
		Env:     append(os.Environ(), "GOFLAGS=-mod=mod", "GOPROXY=off", "GOSUMDB=off", "GOTOOLCHAIN=local"),
	}
	pkgs, err := packages.Load(cfg, patterns...)
	if err != nil {
		return nil, err
	}
	var errs []string
	packages.Visit(pkgs, nil, func(p *packages.Package) {
		for _, e := range p.Errors {
			errs = append(errs, e.Error())
		}
	})
	if len(errs) > 0 {
		return nil, fmt.Errorf("load errors:\n%s", strings.Join(errs, "\n"))
	}
	prog, _ := ssautil.AllPackages(pkgs, ssa.InstantiateGenerics)
	prog.Build()
	p := &Program{Prog: prog, Pkgs: pkgs}
	return p, nil
}

func (p *Program) Package(path string) *ssa.Package {
	for _, sp := range p.Prog.AllPackages() {
		if sp.Pkg.Path() == path {
			return sp
		}
	}
	return nil
}

// Init creates the interpreter state and runs the selected init functions concretely.
func (p *Program) Init() (err error) {
	i := &interpreter{
		prog:       p.Prog,
		globals:    make(map[*ssa.Global]*value),
		sizes:      &types.StdSizes{WordSize: 8, MaxAlign: 8},
		goroutines: 1,
	}
	p.I = i
	runtimePkg := i.prog.ImportedPackage("runtime")
	if runtimePkg == nil {
		return fmt.Errorf("program does not include runtime")
	}
	i.runtimeErrorString = runtimePkg.Type("errorString").Object().Type()
	initReflect(i)
	var todo []*ssa.Package
	for _, pkg := range i.prog.AllPackages() {
		want := wantInit(pkg.Pkg.Path())
		for _, m := range pkg.Members {
			if v, ok := m.(*ssa.Global); ok {
				cell := zero(typeparams.MustDeref(v.Type()))
				if v.Name() == "init$guard" && !want {
					cell = true
				}
				i.globals[v] = &cell
			}
		}
		if want {
			todo = append(todo, pkg)
		}
	}
	sort.Slice(todo, func(a, b int) bool { return todo[a].Pkg.Path() < todo[b].Pkg.Path() })
	setStdGlobals(i)
	// a throw-away engine for concrete initialisation (no solver needed unless init branches on symbols)
	eng = NewEngine(nil, "<init>")
	eng.Deadline = time.Now().Add(10 * time.Minute)
	eng.MaxSteps = 1 << 40
	resetRuntime()
	defer func() {
		if r := recover(); r != nil {
			err = fmt.Errorf("package initialisation failed in %s: %v", eng.lastPanicFn, describePanic(r))
		}
	}()
	for _, pkg := range todo {
		if f := pkg.Func("init"); f != nil {
			call(i, nil, token.NoPos, f, nil)
		}
	}
	for _, f := range p.Setups {
		call(i, nil, token.NoPos, f, nil)
	}
	// snapshot the globals: harness paths must start from identical initial state
	p.snap = map[*ssa.Global]value{}
	for g, cell := range i.globals {
		p.snap[g] = *cell
	}
	return nil
}

func describePanic(r interface{}) string {
	switch r := r.(type) {
	case targetPanic:
		return "target panic: " + toString(r.v)
	case inconclusive:
		return "inconclusive: " + r.reason
	case pathEnd:
		return "path end: " + r.reason
	case error:
		return r.Error()
	}
	return fmt.Sprint(r)
}

// restoreGlobals resets scalar/pointer globals to their post-init values.  Heap objects reachable
// from globals that a harness mutates (pools, caches) are the harness's responsibility; the
// engine re-creates pool side tables itself (resetRuntime).
func (p *Program) restoreGlobals() {
	for g, v := range p.snap {
		*p.I.globals[g] = v
	}
}

type RunOptions struct {
	SolverBin   string
	TimeoutMs   int
	Deadline    time.Duration
	MaxPaths    int
	MaxSteps    int64
	IntMode     bool
	RealMode    bool
	Known       []KnownFinding
	SMTLog      string
	MaxTraces   int
	FrontierTarget int          // phase 1: stop when this many prefixes are pending
	Initial        [][]Decision // phase 2: explore exactly these subtrees
}

// LastFrontier holds the pending prefixes after a phase-1 run.
var LastFrontier [][]Decision

// ExploreQueue explores fn as one of several cooperating workers sharing a directory queue of
// decision prefixes (dynamic load balancing): claim a chunk, explore at most chunkPaths paths below
// it, hand the unexplored rest back as new chunks.
func (p *Program) ExploreQueue(fn *ssa.Function, opt RunOptions, dir string, worker int, chunkPaths int) (*Result, error) {
	s, err := NewSolver(opt.SolverBin, opt.TimeoutMs, nil)
	if err != nil {
		return nil, err
	}
	defer s.Close()
	IntMode, RealMode = opt.IntMode, opt.RealMode
	e := NewEngine(s, fn.Name())
	e.Known = opt.Known
	e.Deadline = time.Now().Add(opt.Deadline)
	if opt.MaxSteps > 0 {
		e.MaxSteps = opt.MaxSteps
	}
	e.MaxTraces = opt.MaxTraces
	e.ChunkPaths = chunkPaths
	eng = e
	undoOn = true
	defer func() { undoOn = false }()
	run := func() {
		p.restoreGlobals()
		resetRuntime()
		defer func() {
			if sched != nil && len(sched.threads) > 1 {
				sched.killAll()
			}
			rollback()
		}()
		call(p.I, nil, token.NoPos, fn, nil)
	}
	busy := filepath.Join(dir, fmt.Sprintf("busy_%d", worker))
	seq := 0
	idle := 0
	for {
		if time.Now().After(e.Deadline) {
			e.noteInconclusive("time budget exceeded (shared queue)")
			break
		}
		names, _ := filepath.Glob(filepath.Join(dir, "p_*.json"))
		claimed := ""
		for _, n := range names {
			c := filepath.Join(dir, fmt.Sprintf("c_%d_%s", worker, filepath.Base(n)))
			os.WriteFile(busy, nil, 0o644)
			if os.Rename(n, c) == nil {
				claimed = c
				break
			}
		}
		if claimed == "" {
			os.Remove(busy)
			others, _ := filepath.Glob(filepath.Join(dir, "busy_*"))
			if len(others) == 0 {
				idle++
				if idle >= 3 {
					break
				}
			} else {
				idle = 0
			}
			time.Sleep(40 * time.Millisecond)
			continue
		}
		idle = 0
		b, err := os.ReadFile(claimed)
		os.Remove(claimed)
		if err != nil {
			continue
		}
		var pre [][]Decision
		if json.Unmarshal(b, &pre) != nil || len(pre) == 0 {
			continue
		}
		e.Initial = pre
		p0 := e.Res.Paths
		e.Explore(run)
		debugf("worker %d: chunk of %d prefixes -> %d paths, %d prefixes left", worker, len(pre), e.Res.Paths-p0, len(e.Frontier))
		if rest := e.Frontier; len(rest) > 0 {
			// hand back in up to 6 chunks
			k := 6
			if len(rest) < k {
				k = len(rest)
			}
			for i := 0; i < k; i++ {
				var part [][]Decision
				for j := i; j < len(rest); j += k {
					part = append(part, rest[j])
				}
				pb, _ := json.Marshal(part)
				seq++
				tmp := filepath.Join(dir, fmt.Sprintf("t_%d_%d", worker, seq))
				os.WriteFile(tmp, pb, 0o644)
				os.Rename(tmp, filepath.Join(dir, fmt.Sprintf("p_%d_%d.json", worker, seq)))
			}
		}
		os.Remove(busy)
	}
	os.Remove(busy)
	e.Res.Vacuous = false
	return e.Res, nil
}

// Explore runs harness function fn (no parameters) over all feasible paths.
func (p *Program) Explore(fn *ssa.Function, opt RunOptions) (*Result, error) {
	var logw *os.File
	if opt.SMTLog != "" {
		f, err := os.Create(opt.SMTLog)
		if err != nil {
			return nil, err
		}
		defer f.Close()
		logw = f
	}
	var s *Solver
	var err error
	if logw != nil {
		s, err = NewSolver(opt.SolverBin, opt.TimeoutMs, logw)
	} else {
		s, err = NewSolver(opt.SolverBin, opt.TimeoutMs, nil)
	}
	if err != nil {
		return nil, err
	}
	defer s.Close()
	IntMode, RealMode = opt.IntMode, opt.RealMode
	e := NewEngine(s, fn.Name())
	e.Known = opt.Known
	e.Deadline = time.Now().Add(opt.Deadline)
	if opt.MaxPaths > 0 {
		e.MaxPaths = opt.MaxPaths
	}
	if opt.MaxSteps > 0 {
		e.MaxSteps = opt.MaxSteps
	}
	if opt.MaxTraces >= 0 {
		e.MaxTraces = opt.MaxTraces
	}
	e.FrontierTarget = opt.FrontierTarget
	e.Initial = opt.Initial
	defer func() { LastFrontier = e.Frontier }()
	eng = e
	undoOn = true
	defer func() { undoOn = false }()
	e.Explore(func() {
		p.restoreGlobals()
		resetRuntime()
		defer func() {
			if sched != nil && len(sched.threads) > 1 {
				sched.killAll()
			}
			rollback()
		}()
		call(p.I, nil, token.NoPos, fn, nil)
	})
	return e.Res, nil
}

// resetRuntime clears per-path side tables of the runtime models.
func resetRuntime() {
	sched = newScheduler()
	syncObjs = map[interface{}]*syncObj{}
	PermuteMaps = false
	ExploreSchedules = false
	resetStubs()
	selectPassed = map[*ssa.Select]map[int]int{}
	resetVFS()
	resetRace()
}

type ssaFunction = ssa.Function
