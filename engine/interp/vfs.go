package interp

// A symbolic in-memory file system behind the os / path/filepath / go-file entry points.
//
// POSIX semantics as documented: O_CREAT|O_EXCL fails iff the name exists, rename replaces
// atomically, unlink removes the name (open handles keep the data), stat observes.  File contents
// are byte lists that may hold symbolic bytes, so data written by the real encoders can be read
// back by the real loaders.  Every operation is
//   - a scheduling point (several interpreted goroutines stand for several csvq processes),
//   - a possible crash point (verifCrashable),
//   - a possible injected fault (verifFaults),
// and is appended to the path's operation trace.

import (
	"fmt"
	"go/token"
	"go/types"
	"path/filepath"
	"sort"
	"strings"
)

type vnode struct {
	data  []value
	isDir bool
	mode  uint32
	foreignFlock int // advisory lock held by a process outside the model: 0 none, 1 shared, 2 exclusive
}

type vhandle struct {
	path   string
	node   *vnode
	off    int
	flag   int
	closed bool
	owner  int // scheduler thread that opened it
}

type vfsState struct {
	files   map[string]*vnode
	handles map[*value]*vhandle
	cwd     string
	ops     []string
	faults  int  // remaining injected faults
	env     map[string]string // environment variables set by the program
	limited bool // a file size limit (RLIMIT_FSIZE: "disk full") is in force
	limit   int
	crashOn bool // crash points enabled
	crashed bool
	faulted []string
	order   []int // thread ids of the hooked operations, in execution order
	nextFd  int
	// NoExist: directories considered present (parents of every file)
}

var vfs *vfsState

type processCrash struct{}

// hangSignal ends a verifWithin block whose code keeps sleeping and retrying although every timer
// it set has fired.
type hangSignal struct{}

// Timers (verifTimers(true)): time.AfterFunc callbacks - the deadline of context.WithTimeout - fire
// at a retry sleep chosen by the engine, at the latest at the third sleep after they were set.
type vtimer struct {
	f               value
	stopped, fired  bool
	sleeps          int
}

var (
	timersOn     bool
	timers       []*vtimer
	timerOf      map[*value]*vtimer
	withinOn     bool
	withinSleeps int
)

func resetTimers() {
	timersOn, timers, timerOf, withinOn, withinSleeps = false, nil, map[*value]*vtimer{}, false, 0
}

// retrySleep is called by the models of time.Sleep and time.After: pending timers may fire, and a
// verifWithin block that has slept 12 times with no timer left to wait for is a hang.
func retrySleep(fr *frame) {
	if timersOn {
		for _, t := range timers {
			if t.stopped || t.fired {
				continue
			}
			t.sleeps++
			if t.sleeps >= 3 || eng.Choice("timer", 2) == 1 {
				t.fired = true
				call(fr.i, fr, token.NoPos, t.f, nil)
			}
		}
	}
	if withinOn {
		pending := false
		for _, t := range timers {
			if !t.stopped && !t.fired {
				pending = true
			}
		}
		if !pending {
			withinSleeps++
			if withinSleeps > 12 {
				panic(hangSignal{})
			}
		}
	}
}

func resetVFS() {
	resetTimers()
	vfs = &vfsState{files: map[string]*vnode{}, handles: map[*value]*vhandle{}, cwd: "/work", nextFd: 3}
	vfs.files["/work"] = &vnode{isDir: true, mode: 0o755}
}

func (v *vfsState) abs(p string) string {
	if p == "" {
		return p
	}
	if !filepath.IsAbs(p) {
		p = filepath.Join(v.cwd, p)
	}
	return filepath.Clean(p)
}

// hookedCaller: crash / fault / scheduling points are the file-system calls made by csvq's
// lib/file package and by go-file (the calls that the native replay can intercept through a build
// overlay); other calls (data reads/writes through *os.File, path probing in lib/query) are plain
// operations on the model.
func hookedCaller(fr *frame) bool {
	if fr == nil || fr.caller == nil || fr.caller.fn == nil || fr.caller.fn.Pkg == nil {
		return false
	}
	top := fr.caller.fn
	for top.Parent() != nil {
		top = top.Parent()
	}
	if n := top.Name(); strings.HasPrefix(n, "Verif") || strings.HasPrefix(n, "verif") {
		return false // calls made by the harness itself are not interceptable natively
	}
	p := fr.caller.fn.Pkg.Pkg.Path()
	return strings.HasSuffix(p, "csvq/lib/file") || strings.Contains(p, "mithrandie/go-file")
}

// fsPoint marks one file-system operation; returns true if an injected fault makes it fail.
func fsPoint(fr *frame, op, path string) bool {
	used("file system (model: in-memory POSIX semantics; calls from lib/file and go-file are scheduling, crash and fault points)")
	switch op {
	case "read", "write", "seek", "truncate":
		return false // data transfer on an open handle: not intercepted natively, so not a point here
	}
	if !hookedCaller(fr) {
		return false
	}
	th := 0
	if sched != nil && sched.cur != nil {
		th = sched.cur.id
	}
	if sched != nil && len(sched.threads) > 1 {
		sched.atProc = true
		sched.yield(nil)
	}
	// recorded when the operation actually executes (after the scheduling point)
	vfs.ops = append(vfs.ops, fmt.Sprintf("p%d:%s(%s)", th, op, filepath.Base(path)))
	vfs.order = append(vfs.order, th)
	if vfs.crashOn && !vfs.crashed {
		if eng.Choice("crash", 2) == 1 {
			vfs.crashed = true
			vfs.ops = append(vfs.ops, fmt.Sprintf("p%d:CRASH", th))
			panic(processCrash{})
		}
	}
	if vfs.faults > 0 {
		if eng.Choice("fault", 2) == 1 {
			vfs.faults--
			vfs.ops = append(vfs.ops, fmt.Sprintf("p%d:FAULT", th))
			vfs.faulted = append(vfs.faulted, op)
			return true
		}
	}
	return false
}

const (
	oRDONLY = 0x0
	oWRONLY = 0x1
	oRDWR   = 0x2
	oAPPEND = 0x400
	oCREATE = 0x40
	oEXCL   = 0x80
	oTRUNC  = 0x200
)

func namedType(fr *frame, pkg, name string) types.Type {
	p := fr.i.prog.ImportedPackage(pkg)
	if p == nil {
		panic(inconclusive{"package " + pkg + " is not part of the program"})
	}
	return p.Type(name).Type()
}

// pathErrorLike: an *os.SyscallError-shaped failure without a path (only its being non-nil matters)
func pathErrorLike(fr *frame, op string, errno uintptr) value {
	return pathError(fr, op, "", errno)
}

func pathError(fr *frame, op, path string, errno uintptr) value {
	pe := namedType(fr, "io/fs", "PathError")
	st := zero(pe).(structure)
	st[0], st[1] = op, path
	st[2] = iface{t: namedType(fr, "syscall", "Errno"), v: errno}
	var cell value = st
	return iface{t: types.NewPointer(pe), v: &cell}
}

const (
	eNOENT  = 2
	eIO     = 5
	eEXIST  = 17
	eISDIR  = 21
	eINVAL  = 22
	eBADF   = 9
	eACCES  = 13
	eNOTDIR = 20
	eFBIG   = 27
)

func newOSFile(fr *frame, path string, h *vhandle) value {
	ft := namedType(fr, "os", "File")
	inner := zero(fr.i.prog.ImportedPackage("os").Type("file").Type()).(structure)
	inner[1] = path // name
	var innerCell value = inner
	outer := zero(ft).(structure)
	outer[0] = &innerCell
	var cell value = outer
	p := &cell
	vfs.handles[p] = h
	return p
}

func handleOf(v value) *vhandle {
	p, _ := v.(*value)
	if p == nil {
		return nil
	}
	return vfs.handles[p]
}

func fileInfo(fr *frame, path string, n *vnode) value {
	fst := fr.i.prog.ImportedPackage("os").Type("fileStat").Type()
	st := zero(fst).(structure)
	st[0] = filepath.Base(path)
	st[1] = int64(len(n.data))
	mode := uint32(0o644)
	if n.isDir {
		mode = 0o755 | 1<<31
	}
	st[2] = mode
	var cell value = st
	return iface{t: types.NewPointer(fst), v: &cell}
}

func parentExists(p string) bool {
	d := filepath.Dir(p)
	if d == "/" || d == "." {
		return true
	}
	n, ok := vfs.files[d]
	return ok && n.isDir
}

func init() {
	osx := map[string]externalFn{
		"os.Stat": func(fr *frame, a []value) value {
			p := vfs.abs(goStr(a[0]))
			if fsPoint(fr, "stat", p) {
				return tuple{iface{}, pathError(fr, "stat", p, eIO)}
			}
			n, ok := vfs.files[p]
			if !ok {
				return tuple{iface{}, pathError(fr, "stat", p, eNOENT)}
			}
			return tuple{fileInfo(fr, p, n), iface{}}
		},
		"os.Lstat": func(fr *frame, a []value) value {
			return externals["os.Stat"](fr, a)
		},
		"os.OpenFile": func(fr *frame, a []value) value {
			p := vfs.abs(goStr(a[0]))
			flag := int(asInt64(a[1]))
			nilFile := (*value)(nil)
			op := "open"
			if flag&oCREATE != 0 {
				op = "create"
				if flag&oEXCL != 0 {
					op = "create-excl"
				}
			}
			if fsPoint(fr, op, p) {
				return tuple{nilFile, pathError(fr, "open", p, eIO)}
			}
			n, ok := vfs.files[p]
			switch {
			case ok && flag&oCREATE != 0 && flag&oEXCL != 0:
				return tuple{nilFile, pathError(fr, "open", p, eEXIST)}
			case !ok && flag&oCREATE == 0:
				return tuple{nilFile, pathError(fr, "open", p, eNOENT)}
			case !ok:
				if !parentExists(p) {
					return tuple{nilFile, pathError(fr, "open", p, eNOENT)}
				}
				n = &vnode{mode: 0o600}
				vfs.files[p] = n
				if undoOn {
					undoMaps = append(undoMaps, func() {})
				}
			case n.isDir && flag&(oWRONLY|oRDWR) != 0:
				return tuple{nilFile, pathError(fr, "open", p, eISDIR)}
			}
			if flag&oTRUNC != 0 && flag&(oWRONLY|oRDWR) != 0 {
				n.data = nil
			}
			h := &vhandle{path: p, node: n, flag: flag}
			if sched != nil && sched.cur != nil {
				h.owner = sched.cur.id
			}
			return tuple{newOSFile(fr, p, h), iface{}}
		},
		"os.Remove": func(fr *frame, a []value) value {
			p := vfs.abs(goStr(a[0]))
			if fsPoint(fr, "remove", p) {
				return pathError(fr, "remove", p, eIO)
			}
			if _, ok := vfs.files[p]; !ok {
				return pathError(fr, "remove", p, eNOENT)
			}
			delete(vfs.files, p)
			return iface{}
		},
		"os.Rename": func(fr *frame, a []value) value {
			from, to := vfs.abs(goStr(a[0])), vfs.abs(goStr(a[1]))
			if fsPoint(fr, "rename", from) {
				return pathError(fr, "rename", from, eIO)
			}
			n, ok := vfs.files[from]
			if !ok {
				return pathError(fr, "rename", from, eNOENT)
			}
			delete(vfs.files, from)
			vfs.files[to] = n
			return iface{}
		},
		"os.Getwd": func(fr *frame, a []value) value {
			if _, ok := vfs.files[vfs.cwd]; !ok {
				return tuple{"", pathError(fr, "getwd", vfs.cwd, eNOENT)}
			}
			return tuple{vfs.cwd, iface{}}
		},
		"os.Mkdir": func(fr *frame, a []value) value {
			p := vfs.abs(goStr(a[0]))
			if fsPoint(fr, "mkdir", p) {
				return pathError(fr, "mkdir", p, eIO)
			}
			if _, ok := vfs.files[p]; ok {
				return pathError(fr, "mkdir", p, eEXIST)
			}
			vfs.files[p] = &vnode{isDir: true, mode: 0o755}
			return iface{}
		},
		"os.Chmod":     func(fr *frame, a []value) value { return iface{} },
		"os.Getpid":    func(fr *frame, a []value) value { return 4242 },
		"os.Hostname":  func(fr *frame, a []value) value { return tuple{"host", iface{}} },
		"os.LookupEnv": func(fr *frame, a []value) value {
			v, ok := vfs.env[goStr(a[0])]
			return tuple{v, ok}
		},
		"os.Setenv": func(fr *frame, a []value) value {
			k := goStr(a[0])
			if k == "" || strings.ContainsAny(k, "=\x00") || strings.Contains(goStr(a[1]), "\x00") {
				return pathErrorLike(fr, "setenv", eINVAL)
			}
			if vfs.env == nil {
				vfs.env = map[string]string{}
			}
			vfs.env[k] = goStr(a[1])
			return iface{}
		},
		"os.Unsetenv": func(fr *frame, a []value) value {
			delete(vfs.env, goStr(a[0]))
			return iface{}
		},
		"os.Chdir": func(fr *frame, a []value) value {
			p := vfs.abs(goStr(a[0]))
			n, ok := vfs.files[p]
			if !ok {
				return pathError(fr, "chdir", goStr(a[0]), eNOENT)
			}
			if !n.isDir {
				return pathError(fr, "chdir", goStr(a[0]), eNOTDIR)
			}
			vfs.cwd = p
			return iface{}
		},
		"os.UserHomeDir": func(fr *frame, a []value) value {
			return tuple{"/home/user", iface{}}
		},
		"os.TempDir": func(fr *frame, a []value) value { return "/tmp" },
		"(*os.File).Name": func(fr *frame, a []value) value {
			if h := handleOf(a[0]); h != nil {
				return h.path
			}
			return ""
		},
		"(*os.File).Fd": func(fr *frame, a []value) value {
			return uintptr(7)
		},
		"(*os.File).Close": func(fr *frame, a []value) value {
			h := handleOf(a[0])
			if h == nil {
				return errorValue(fr, "invalid argument")
			}
			if fsPoint(fr, "close", h.path) {
				return pathError(fr, "close", h.path, eIO)
			}
			if h.closed {
				return pathError(fr, "close", h.path, eBADF)
			}
			h.closed = true
			return iface{}
		},
		"(*os.File).Sync": func(fr *frame, a []value) value { return iface{} },
		"(*os.File).Stat": func(fr *frame, a []value) value {
			h := handleOf(a[0])
			if h == nil || h.closed {
				return tuple{iface{}, errorValue(fr, "file already closed")}
			}
			return tuple{fileInfo(fr, h.path, h.node), iface{}}
		},
		"(*os.File).Write": func(fr *frame, a []value) value {
			h := handleOf(a[0])
			b := a[1].([]value)
			if h == nil || h.closed {
				return tuple{0, errorValue(fr, "file already closed")}
			}
			if h.flag&(oWRONLY|oRDWR) == 0 {
				return tuple{0, pathError(fr, "write", h.path, eBADF)}
			}
			if fsPoint(fr, "write", h.path) {
				return tuple{0, pathError(fr, "write", h.path, eIO)}
			}
			n := h.node
			if h.flag&oAPPEND != 0 {
				h.off = len(n.data)
			}
			if vfs.limited && h.off+len(b) > vfs.limit {
				// RLIMIT_FSIZE semantics: the part that fits is written, then the write fails (EFBIG)
				used("file size limit (model of RLIMIT_FSIZE: a write that would grow a file beyond the limit is cut there and fails)")
				fit := vfs.limit - h.off
				if fit < 0 {
					fit = 0
				}
				if fit > 0 {
					lim := vfs.limited
					vfs.limited = false
					externals["(*os.File).Write"](fr, []value{a[0], b[:fit]})
					vfs.limited = lim
				}
				return tuple{fit, pathError(fr, "write", h.path, eFBIG)}
			}
			for len(n.data) < h.off {
				n.data = append(n.data, uint8(0))
			}
			nd := append([]value{}, n.data[:h.off]...)
			nd = append(nd, b...)
			if h.off+len(b) < len(n.data) {
				nd = append(nd, n.data[h.off+len(b):]...)
			}
			n.data = nd
			h.off += len(b)
			return tuple{len(b), iface{}}
		},
		"(*os.File).WriteString": func(fr *frame, a []value) value {
			return externals["(*os.File).Write"](fr, []value{a[0], strBytes(a[1])})
		},
		"(*os.File).Read": func(fr *frame, a []value) value {
			h := handleOf(a[0])
			b := a[1].([]value)
			if h == nil || h.closed {
				return tuple{0, errorValue(fr, "file already closed")}
			}
			if fsPoint(fr, "read", h.path) {
				return tuple{0, pathError(fr, "read", h.path, eIO)}
			}
			if len(b) == 0 {
				return tuple{0, iface{}}
			}
			rest := h.node.data[minInt(h.off, len(h.node.data)):]
			if len(rest) == 0 {
				return tuple{0, ioEOF(fr)}
			}
			n := copy(b, rest)
			h.off += n
			return tuple{n, iface{}}
		},
		"(*os.File).Seek": func(fr *frame, a []value) value {
			h := handleOf(a[0])
			if h == nil || h.closed {
				return tuple{int64(0), errorValue(fr, "file already closed")}
			}
			off, whence := int(asInt64(a[1])), int(asInt64(a[2]))
			if fsPoint(fr, "seek", h.path) {
				return tuple{int64(0), pathError(fr, "seek", h.path, eIO)}
			}
			switch whence {
			case 0:
				h.off = off
			case 1:
				h.off += off
			case 2:
				h.off = len(h.node.data) + off
			}
			if h.off < 0 {
				h.off = 0
				return tuple{int64(0), pathError(fr, "seek", h.path, eINVAL)}
			}
			return tuple{int64(h.off), iface{}}
		},
		"(*os.File).Truncate": func(fr *frame, a []value) value {
			h := handleOf(a[0])
			if h == nil || h.closed {
				return errorValue(fr, "file already closed")
			}
			if fsPoint(fr, "truncate", h.path) {
				return pathError(fr, "truncate", h.path, eIO)
			}
			sz := int(asInt64(a[1]))
			if sz < len(h.node.data) {
				h.node.data = h.node.data[:sz]
			}
			for len(h.node.data) < sz {
				h.node.data = append(h.node.data, uint8(0))
			}
			return iface{}
		},
		"path/filepath.Glob": func(fr *frame, a []value) value {
			pat := goStr(a[0])
			if fsPoint(fr, "glob", pat) {
				return tuple{[]value(nil), iface{}}
			}
			var names []string
			rel := !filepath.IsAbs(pat)
			apat := pat
			if rel {
				apat = filepath.Join(vfs.cwd, pat)
			}
			for p := range vfs.files {
				if ok, _ := filepath.Match(apat, p); ok {
					if rel {
						if r, err := filepath.Rel(vfs.cwd, p); err == nil {
							p = r
						}
					}
					names = append(names, p)
				}
			}
			sort.Strings(names)
			var out []value
			for _, n := range names {
				out = append(out, n)
			}
			return tuple{out, iface{}}
		},
		"path/filepath.Abs": func(fr *frame, a []value) value {
			p := goStr(a[0])
			if !filepath.IsAbs(p) {
				if _, ok := vfs.files[vfs.cwd]; !ok {
					return tuple{"", pathError(fr, "getwd", vfs.cwd, eNOENT)}
				}
			}
			return tuple{vfs.abs(p), iface{}}
		},
		"path/filepath.EvalSymlinks": func(fr *frame, a []value) value { return tuple{a[0], iface{}} },
		// go-file advisory locks on the data file: not relied upon by the control-file protocol;
		// modelled as always granted (the weakest behaviour: properties must hold without them)
		"github.com/mithrandie/go-file/v2.LockSH":    flockOK,
		"github.com/mithrandie/go-file/v2.LockEX":    flockOK,
		"github.com/mithrandie/go-file/v2.TryLockSH": func(fr *frame, a []value) value {
			if h := handleOf(a[0]); h != nil && h.node != nil && h.node.foreignFlock == 2 {
				return errorValue(fr, "resource temporarily unavailable")
			}
			return flockOK(fr, a)
		},
		"github.com/mithrandie/go-file/v2.TryLockEX": func(fr *frame, a []value) value {
			if h := handleOf(a[0]); h != nil && h.node != nil && h.node.foreignFlock != 0 {
				return errorValue(fr, "resource temporarily unavailable")
			}
			return flockOK(fr, a)
		},
		"github.com/mithrandie/go-file/v2.Unlock":    flockOK,
		"time.After": func(fr *frame, a []value) value {
			retrySleep(fr)
			sched.sleepYield()
			c := newChan(1)
			c.buf = append(c.buf, zero(namedType(fr, "time", "Time")))
			c.vcs = append(c.vcs, nil)
			return c
		},
	}
	for k, v := range osx {
		externals[k] = v
	}
}

func flockOK(fr *frame, a []value) value {
	used("flock on data files (model: always granted, never relied upon)")
	return iface{}
}

func minInt(a, b int) int {
	if a < b {
		return a
	}
	return b
}

func ioEOF(fr *frame) value {
	g := fr.i.prog.ImportedPackage("io").Var("EOF")
	return *fr.i.globals[g]
}

// vfs intrinsics for harnesses -------------------------------------------------------------

func vfsContent(p string) (value, bool) {
	n, ok := vfs.files[vfs.abs(p)]
	if !ok {
		return nil, false
	}
	return mkStr(n.data), true
}

func init() {
	intrinsics["verifFileWrite"] = func(fr *frame, a []value) value {
		p := vfs.abs(argString(a[0]))
		for d := filepath.Dir(p); d != "/" && d != "."; d = filepath.Dir(d) {
			if _, ok := vfs.files[d]; !ok {
				vfs.files[d] = &vnode{isDir: true, mode: 0o755}
			}
		}
		vfs.files[p] = &vnode{data: append([]value{}, strBytes(a[1])...), mode: 0o644}
		return nil
	}
	intrinsics["verifFileExists"] = func(fr *frame, a []value) value {
		_, ok := vfs.files[vfs.abs(argString(a[0]))]
		return ok
	}
	intrinsics["verifFileRead"] = func(fr *frame, a []value) value {
		c, ok := vfsContent(argString(a[0]))
		if !ok {
			return ""
		}
		return c
	}
	intrinsics["verifFileRemove"] = func(fr *frame, a []value) value {
		p := vfs.abs(argString(a[0]))
		if n, ok := vfs.files[p]; ok && n.isDir {
			// removing a directory removes what it holds
			for q := range vfs.files {
				if strings.HasPrefix(q, p+"/") {
					delete(vfs.files, q)
				}
			}
		}
		delete(vfs.files, p)
		return nil
	}
	intrinsics["verifFileList"] = func(fr *frame, a []value) value {
		var names []string
		for p, n := range vfs.files {
			if !n.isDir {
				names = append(names, filepath.Base(p))
			}
		}
		sort.Strings(names)
		return strings.Join(names, "\n")
	}
	intrinsics["verifFileSizeLimit"] = func(fr *frame, a []value) value {
		n := int(asInt64(a[0]))
		vfs.limited, vfs.limit = n >= 0, n
		return nil
	}
	intrinsics["verifFaults"] = func(fr *frame, a []value) value {
		vfs.faults = int(asInt64(a[0]))
		return nil
	}
	// verifCrashable runs f with crash points enabled; reports whether the "process" died inside.
	intrinsics["verifCrashable"] = func(fr *frame, a []value) (res value) {
		vfs.crashOn = true
		defer func() {
			vfs.crashOn = false
			if r := recover(); r != nil {
				if _, ok := r.(processCrash); ok {
					res = true
					return
				}
				panic(r)
			}
		}()
		call(fr.i, fr, token.NoPos, a[0], nil)
		return false
	}
	// verifForeignFlock(path, exclusive): a process outside the model holds an advisory lock on the file
	intrinsics["verifForeignFlock"] = func(fr *frame, a []value) value {
		n := vfs.files[vfs.abs(goStr(a[0]))]
		if n == nil {
			panic("verifForeignFlock: no such file")
		}
		n.foreignFlock = 1
		if a[1].(bool) {
			n.foreignFlock = 2
		}
		used("flock held by a foreign process (model: TryLockSH fails under an exclusive holder, TryLockEX under any holder)")
		return nil
	}
	intrinsics["verifTimers"] = func(fr *frame, a []value) value {
		timersOn = a[0].(bool)
		used("timers (model: a time.AfterFunc callback - the deadline of context.WithTimeout - fires at a retry sleep chosen by the engine, at the latest at the third)")
		return nil
	}
	// verifWithin(f): runs f; false if f keeps sleeping and retrying (12 sleeps) with no timer left
	intrinsics["verifWithin"] = func(fr *frame, a []value) (res value) {
		withinOn, withinSleeps = true, 0
		defer func() {
			withinOn = false
			if r := recover(); r != nil {
				if _, ok := r.(hangSignal); ok {
					res = false
					return
				}
				panic(r)
			}
		}()
		call(fr.i, fr, token.NoPos, a[0], nil)
		return true
	}
	intrinsics["verifFaultedOps"] = func(fr *frame, a []value) value {
		return strings.Join(vfs.faulted, ",")
	}
	intrinsics["verifYield"] = func(fr *frame, a []value) value {
		th := 0
		if sched != nil && sched.cur != nil {
			th = sched.cur.id
		}
		if sched != nil && len(sched.threads) > 1 {
			sched.atProc = true
			sched.yield(nil)
		}
		vfs.ops = append(vfs.ops, fmt.Sprintf("p%d:yield", th))
		vfs.order = append(vfs.order, th)
		return nil
	}
	intrinsics["verifFSTrace"] = func(fr *frame, a []value) value {
		return strings.Join(vfs.ops, " ")
	}
	intrinsics["verifSpawn"] = func(fr *frame, a []value) value {
		// start a "process": an interpreted goroutine; scheduling points are the FS operations
		nextSpawnIsProcess = true
		spawnGoroutine(fr, nil, a[0], nil)
		return nil
	}
	intrinsics["verifJoin"] = func(fr *frame, a []value) value {
		sched.atProc = true
		sched.yield(func() bool {
			for _, t := range sched.threads {
				if t.id != 0 && !t.done {
					return false
				}
			}
			return true
		})
		return nil
	}
}
