package interp

// Models of runtime/library functions that cannot (or should not) be interpreted from SSA.
// Three kinds (DESIGN.md §2.6): exact models, native bridge for all-concrete calls, and
// nondeterministic stubs.  Every stub that takes part in a run is recorded in the evidence.

import (
	"time"
	"encoding/json"
	"reflect"
	"sort"
	"fmt"
	"go/token"
	"go/types"
	"math"
	"strconv"
	"strings"
	"unicode"
	"unicode/utf8"
)

// useSSA is returned by an external to say: interpret the function's SSA body instead.
type useSSA struct{}

var (
	poolStore map[*value][]value
	mutexHeld map[*value]int // 0 free, 1 write-locked; RWMutex readers counted in rwReaders
	rwReaders map[*value]int
	wgCount   map[*value]int
	onceDone  map[*value]bool
	syncMaps  map[*value]*omap
	StubsUsed = map[string]bool{}
	// PoolReuse: Get returns the most recently Put object (adversarial but legal).
	PoolReuse = true
)

func resetStubs() {
	poolStore = map[*value][]value{}
	mutexHeld = map[*value]int{}
	rwReaders = map[*value]int{}
	wgCount = map[*value]int{}
	onceDone = map[*value]bool{}
	syncMaps = map[*value]*omap{}
}

func used(name string) { StubsUsed[name] = true }

func allConcrete(args []value) bool {
	for _, a := range args {
		switch a := a.(type) {
		case *Sym, sstr, lazyStr:
			return false
		case []value:
			if !allConcrete(a) {
				return false
			}
		}
	}
	return true
}

func goStr(v value) string { return v.(string) }

func errorValue(fr *frame, msg string) value {
	// builds an errors.errorString via the target's errors.New
	pkg := fr.i.prog.ImportedPackage("errors")
	return call(fr.i, fr, token.NoPos, pkg.Func("New"), []value{msg})
}

func structField(recv value, i int) *value {
	p := recv.(*value)
	if p == nil {
		panic("runtime error: invalid memory address or nil pointer dereference")
	}
	return &(*p).(structure)[i]
}

func init() {
	ext := map[string]externalFn{
		// ---- sync -------------------------------------------------------------------
		"(*sync.Pool).Get": func(fr *frame, a []value) value {
			used("sync.Pool (model: LIFO reuse of Put objects, else New)")
			p := a[0].(*value)
			if sched != nil && sched.cur != nil {
				acquire(p)
			}
			if st := poolStore[p]; PoolReuse && len(st) > 0 {
				v := st[len(st)-1]
				poolStore[p] = st[:len(st)-1]
				return v
			}
			s := (*p).(structure)
			newf := s[len(s)-1]
			if f, ok := newf.(*ssa۰Function); ok && f == nil {
				return iface{}
			}
			if newf == nil {
				return iface{}
			}
			return call(fr.i, fr, token.NoPos, newf, nil)
		},
		"(*sync.Pool).Put": func(fr *frame, a []value) value {
			p := a[0].(*value)
			if x, ok := a[1].(iface); ok && x.t == nil {
				return nil
			}
			if sched != nil && sched.cur != nil {
				release(p)
			}
			// the same object in the pool twice will be handed to two owners at once
			func() {
				defer func() { recover() }() // uncomparable dynamic values
				for _, e := range poolStore[p] {
					if refs := 0; sameObject(e, a[1], &refs) && refs > 0 {
						key := curFn() + " <-> sync.Pool (object put twice)"
						if !raceSeen[key] {
							raceSeen[key] = true
							eng.raceFound = append(eng.raceFound, "an object is put into a sync.Pool that already holds it (in "+curFn()+"): two later Gets share it")
							eng.raceKeys = append(eng.raceKeys, key)
						}
					}
				}
			}()
			poolStore[p] = append(poolStore[p], a[1])
			return nil
		},
		"(*sync.Mutex).Lock": func(fr *frame, a []value) value {
			used("sync.Mutex (model: scheduler-aware lock)")
			p := a[0].(*value)
			sched.yield(func() bool { return mutexHeld[p] == 0 })
			mutexHeld[p] = 1
			acquireLock(p)
			return nil
		},
		"(*sync.Mutex).TryLock": func(fr *frame, a []value) value {
			p := a[0].(*value)
			if mutexHeld[p] == 0 {
				mutexHeld[p] = 1
				acquireLock(p)
				return true
			}
			return false
		},
		"(*sync.Mutex).Unlock": func(fr *frame, a []value) value {
			p := a[0].(*value)
			if mutexHeld[p] == 0 {
				panic(targetPanic{iface{t: types.Typ[types.String], v: "sync: unlock of unlocked mutex"}})
			}
			releaseLock(p)
			mutexHeld[p] = 0
			sched.yield(nil)
			return nil
		},
		"(*sync.RWMutex).Lock": func(fr *frame, a []value) value {
			used("sync.RWMutex (model: scheduler-aware lock)")
			p := a[0].(*value)
			sched.yield(func() bool { return mutexHeld[p] == 0 && rwReaders[p] == 0 })
			mutexHeld[p] = 1
			acquireLock(p)
			return nil
		},
		"(*sync.RWMutex).Unlock": func(fr *frame, a []value) value {
			p := a[0].(*value)
			if mutexHeld[p] == 0 {
				panic(targetPanic{iface{t: types.Typ[types.String], v: "sync: Unlock of unlocked RWMutex"}})
			}
			releaseLock(p)
			mutexHeld[p] = 0
			sched.yield(nil)
			return nil
		},
		"(*sync.RWMutex).RLock": func(fr *frame, a []value) value {
			p := a[0].(*value)
			sched.yield(func() bool { return mutexHeld[p] == 0 })
			rwReaders[p]++
			acquireRLock(p)
			return nil
		},
		"(*sync.RWMutex).RUnlock": func(fr *frame, a []value) value {
			p := a[0].(*value)
			if rwReaders[p] == 0 {
				panic(targetPanic{iface{t: types.Typ[types.String], v: "sync: RUnlock of unlocked RWMutex"}})
			}
			releaseLock(rlockKey(p))
			rwReaders[p]--
			sched.yield(nil)
			return nil
		},
		"(*sync.WaitGroup).Add": func(fr *frame, a []value) value {
			used("sync.WaitGroup (model: counter + scheduler)")
			p := a[0].(*value)
			wgCount[p] += int(asInt64(a[1]))
			if wgCount[p] < 0 {
				panic(targetPanic{iface{t: types.Typ[types.String], v: "sync: negative WaitGroup counter"}})
			}
			if asInt64(a[1]) < 0 {
				release(p)
				sched.yield(nil)
			}
			return nil
		},
		"(*sync.WaitGroup).Done": func(fr *frame, a []value) value {
			p := a[0].(*value)
			wgCount[p]--
			if wgCount[p] < 0 {
				panic(targetPanic{iface{t: types.Typ[types.String], v: "sync: negative WaitGroup counter"}})
			}
			release(p)
			sched.yield(nil)
			return nil
		},
		"(*sync.WaitGroup).Wait": func(fr *frame, a []value) value {
			p := a[0].(*value)
			sched.yield(func() bool { return wgCount[p] == 0 })
			acquire(p)
			return nil
		},
		"(*sync.Once).Do": func(fr *frame, a []value) value {
			used("sync.Once (model)")
			p := a[0].(*value)
			if !onceDone[p] {
				onceDone[p] = true
				call(fr.i, fr, token.NoPos, a[1], nil)
				release(p)
			} else {
				acquire(p)
			}
			return nil
		},
		"(*sync.Map).Load": func(fr *frame, a []value) value {
			used("sync.Map (model: ordered map)")
			m := syncMapOf(a[0])
			acquire(a[0].(*value))
			if v, ok := m.lookup(a[1]); ok {
				return tuple{v, true}
			}
			return tuple{iface{}, false}
		},
		"(*sync.Map).Store": func(fr *frame, a []value) value {
			m := syncMapOf(a[0])
			release(a[0].(*value))
			m.insert(a[1], a[2])
			return nil
		},
		"(*sync.Map).LoadOrStore": func(fr *frame, a []value) value {
			m := syncMapOf(a[0])
			acquire(a[0].(*value))
			if v, ok := m.lookup(a[1]); ok {
				return tuple{v, true}
			}
			release(a[0].(*value))
			m.insert(a[1], a[2])
			return tuple{a[2], false}
		},
		"(*sync.Map).LoadAndDelete": func(fr *frame, a []value) value {
			m := syncMapOf(a[0])
			acquire(a[0].(*value))
			if v, ok := m.lookup(a[1]); ok {
				m.delete(a[1])
				return tuple{v, true}
			}
			return tuple{iface{}, false}
		},
		"(*sync.Map).Delete": func(fr *frame, a []value) value {
			m := syncMapOf(a[0])
			release(a[0].(*value))
			m.delete(a[1])
			return nil
		},
		"(*sync.Map).Range": func(fr *frame, a []value) value {
			m := syncMapOf(a[0])
			acquire(a[0].(*value))
			it := newMapIter(m)
			for {
				t := it.next()
				if !t[0].(bool) {
					break
				}
				r := call(fr.i, fr, token.NoPos, a[1], []value{t[1], t[2]})
				if !eng.truth(r) {
					break
				}
			}
			return nil
		},

		// ---- strings.Builder (uses unsafe) ---------------------------------------------
		"(*strings.Builder).String": func(fr *frame, a []value) value {
			buf, _ := (*structField(a[0], 1)).([]value)
			return mkStr(buf)
		},
		"(*strings.Builder).Len": func(fr *frame, a []value) value {
			buf, _ := (*structField(a[0], 1)).([]value)
			return len(buf)
		},
		"(*strings.Builder).Cap": func(fr *frame, a []value) value {
			buf, _ := (*structField(a[0], 1)).([]value)
			return cap(buf)
		},
		"(*strings.Builder).Reset": func(fr *frame, a []value) value {
			c := structField(a[0], 1)
			logCell(c)
			*c = []value(nil)
			return nil
		},
		"(*strings.Builder).Grow": func(fr *frame, a []value) value { return nil },
		"(*strings.Builder).WriteString": func(fr *frame, a []value) value {
			c := structField(a[0], 1)
			buf, _ := (*c).([]value)
			logCell(c)
			*c = append(buf[:len(buf):len(buf)], strBytes(a[1])...)
			return tuple{strLen(a[1]), iface{}}
		},
		"(*strings.Builder).Write": func(fr *frame, a []value) value {
			c := structField(a[0], 1)
			buf, _ := (*c).([]value)
			logCell(c)
			*c = append(buf[:len(buf):len(buf)], a[1].([]value)...)
			return tuple{len(a[1].([]value)), iface{}}
		},
		"(*strings.Builder).WriteByte": func(fr *frame, a []value) value {
			c := structField(a[0], 1)
			buf, _ := (*c).([]value)
			logCell(c)
			*c = append(buf[:len(buf):len(buf)], a[1])
			return iface{}
		},
		"(*strings.Builder).WriteRune": func(fr *frame, a []value) value {
			c := structField(a[0], 1)
			buf, _ := (*c).([]value)
			bs := runeToBytes(a[1])
			logCell(c)
			*c = append(buf[:len(buf):len(buf)], bs...)
			return tuple{len(bs), iface{}}
		},

		// ---- bytes.Buffer: exact model of the methods csvq uses, able to hold number tokens ---------
		"(*bytes.Buffer).WriteString": func(fr *frame, a []value) value {
			c := structField(a[0], 0)
			raceWrite(c)
			buf, _ := (*c).([]value)
			el := strElems(a[1])
			logCell(c)
			*c = append(buf[:len(buf):len(buf)], el...)
			return tuple{len(el), iface{}}
		},
		"(*bytes.Buffer).Write": func(fr *frame, a []value) value {
			c := structField(a[0], 0)
			raceWrite(c)
			buf, _ := (*c).([]value)
			el := a[1].([]value)
			logCell(c)
			*c = append(buf[:len(buf):len(buf)], el...)
			return tuple{len(el), iface{}}
		},
		"(*bytes.Buffer).WriteByte": func(fr *frame, a []value) value {
			c := structField(a[0], 0)
			raceWrite(c)
			buf, _ := (*c).([]value)
			logCell(c)
			*c = append(buf[:len(buf):len(buf)], a[1])
			return iface{}
		},
		"(*bytes.Buffer).WriteRune": func(fr *frame, a []value) value {
			c := structField(a[0], 0)
			raceWrite(c)
			buf, _ := (*c).([]value)
			bs := runeToBytesAny(a[1])
			logCell(c)
			*c = append(buf[:len(buf):len(buf)], bs...)
			return tuple{len(bs), iface{}}
		},
		"(*bytes.Buffer).String": func(fr *frame, a []value) value {
			p := a[0].(*value)
			if p == nil {
				return "<nil>"
			}
			raceRead(structField(a[0], 0))
			st := (*p).(structure)
			buf, _ := st[0].([]value)
			off := int(asInt64(st[1]))
			return mkStr(buf[off:])
		},
		"(*bytes.Buffer).Bytes": func(fr *frame, a []value) value {
			raceRead(structField(a[0], 0))
			st := (*a[0].(*value)).(structure)
			buf, _ := st[0].([]value)
			off := int(asInt64(st[1]))
			return buf[off:]
		},
		"(*bytes.Buffer).Len": func(fr *frame, a []value) value {
			raceRead(structField(a[0], 0))
			st := (*a[0].(*value)).(structure)
			buf, _ := st[0].([]value)
			off := int(asInt64(st[1]))
			if hasTokens(buf[off:]) {
				return len(strBytes(mkStr(buf[off:])))
			}
			return len(buf) - off
		},
		"(*bytes.Buffer).Reset": func(fr *frame, a []value) value {
			c := structField(a[0], 0)
			raceWrite(c)
			buf, _ := (*c).([]value)
			logCell(c)
			*c = buf[:0]
			o := structField(a[0], 1)
			logCell(o)
			*o = 0
			lr := structField(a[0], 2)
			logCell(lr)
			*lr = int8(0)
			return nil
		},
		"(*bytes.Buffer).Grow": func(fr *frame, a []value) value {
			if asInt64(a[1]) < 0 {
				panic(targetPanic{iface{t: types.Typ[types.String], v: "bytes.Buffer.Grow: negative count"}})
			}
			return nil
		},

		// ---- fmt: formatting is never the subject -----------------------------------------
		"fmt.Sprintf": func(fr *frame, a []value) value { return nativeSprintf(a[0], a[1].([]value)) },
		"fmt.Sprint":  func(fr *frame, a []value) value { return nativeSprint(a[0].([]value)) },
		"fmt.Sprintln": func(fr *frame, a []value) value {
			s := nativeSprint(a[0].([]value))
			if g, ok := s.(string); ok {
				return g + "\n"
			}
			return s
		},
		"fmt.Errorf": func(fr *frame, a []value) value {
			s := nativeSprintf(a[0], a[1].([]value))
			if g, ok := s.(string); ok {
				return errorValue(fr, g)
			}
			return errorValue(fr, "<formatted error>")
		},
		"fmt.Fprintf":  func(fr *frame, a []value) value { return tuple{0, iface{}} },
		"fmt.Fprint":   func(fr *frame, a []value) value { return tuple{0, iface{}} },
		"fmt.Fprintln": func(fr *frame, a []value) value { return tuple{0, iface{}} },
		"fmt.Println":  func(fr *frame, a []value) value { return tuple{0, iface{}} },
		"fmt.Printf":   func(fr *frame, a []value) value { return tuple{0, iface{}} },

		// ---- encoding/json: only the one use csvq's option parsing makes of it -------------
		"encoding/json.Unmarshal": func(fr *frame, a []value) value {
			// json.Unmarshal(concrete bytes, *[]int | *[]string): delimiter positions, datetime formats
			tgt, ok := a[1].(iface)
			if !ok || !allConcrete(a[:1]) {
				panic(inconclusive{"encoding/json.Unmarshal on symbolic data"})
			}
			pt, ok := tgt.t.(*types.Pointer)
			if !ok {
				panic(inconclusive{"encoding/json.Unmarshal target " + tgt.t.String()})
			}
			st, ok := pt.Elem().Underlying().(*types.Slice)
			isInt := ok && types.Identical(st.Elem(), types.Typ[types.Int])
			isStr := ok && types.Identical(st.Elem(), types.Typ[types.String])
			if !isInt && !isStr {
				// any other target built from structs, pointers, slices, string-keyed maps and basic
				// types without custom unmarshalers: decode natively into interface{} and assign with
				// encoding/json's rules (tags, case-insensitive names, null, merge into existing maps)
				raw := a[0].([]value)
				b := make([]byte, len(raw))
				for i := range raw {
					b[i] = raw[i].(uint8)
				}
				var j interface{}
				dec := json.NewDecoder(strings.NewReader(string(b)))
				dec.UseNumber()
				if err := dec.Decode(&j); err != nil {
					// report the error json.Unmarshal itself would give
					var dummy interface{}
					return nativeErr(fr, json.Unmarshal(b, &dummy))
				}
				var dummy interface{}
				if err := json.Unmarshal(b, &dummy); err != nil { // trailing data etc.
					return nativeErr(fr, err)
				}
				cell := tgt.v.(*value)
				if cell == nil {
					return errorValue(fr, "json: Unmarshal(nil "+tgt.t.String()+")")
				}
				nv := jsonAssign(pt.Elem(), *cell, j)
				used("encoding/json.Unmarshal into " + pt.Elem().String() + " (native decode of concrete text, assigned by encoding/json's rules)")
				logCell(cell)
				*cell = nv
				return iface{}
			}
			used("encoding/json.Unmarshal into *[]int / *[]string (native, concrete text)")
			raw := a[0].([]value)
			b := make([]byte, len(raw))
			for i := range raw {
				b[i] = raw[i].(uint8)
			}
			var err error
			var vs []value
			if isInt {
				var out []int
				if err = json.Unmarshal(b, &out); err == nil && out != nil {
					vs = make([]value, len(out))
					for i := range out {
						vs[i] = out[i]
					}
				}
			} else {
				var out []string
				if err = json.Unmarshal(b, &out); err == nil && out != nil {
					vs = make([]value, len(out))
					for i := range out {
						vs[i] = out[i]
					}
				}
			}
			if err == nil {
				cell := tgt.v.(*value)
				logCell(cell)
				*cell = vs
			}
			return nativeErr(fr, err)
		},

		// ---- strconv / strings: native bridge when concrete, SSA otherwise ----------------
		"strconv.ParseInt": func(fr *frame, a []value) value {
			if !allConcrete(a) {
				return useSSA{}
			}
			v, err := strconv.ParseInt(goStr(a[0]), int(asInt64(a[1])), int(asInt64(a[2])))
			return tuple{v, nativeErr(fr, err)}
		},
		"strconv.ParseUint": func(fr *frame, a []value) value {
			if !allConcrete(a) {
				return useSSA{}
			}
			v, err := strconv.ParseUint(goStr(a[0]), int(asInt64(a[1])), int(asInt64(a[2])))
			return tuple{v, nativeErr(fr, err)}
		},
		"strconv.Atoi": func(fr *frame, a []value) value {
			if !allConcrete(a) {
				return useSSA{}
			}
			v, err := strconv.Atoi(goStr(a[0]))
			return tuple{v, nativeErr(fr, err)}
		},
		"strconv.ParseFloat": func(fr *frame, a []value) value {
			if !allConcrete(a) {
				// exact on the domain "no digit and none of i, I, n, N": such a text is never a float
				// (decimal and hex floats need a digit; inf, infinity, nan need i or n)
				for _, c := range strBytes(a[0]) {
					switch c := c.(type) {
					case uint8:
						if (c >= '0' && c <= '9') || c == 'i' || c == 'I' || c == 'n' || c == 'N' {
							panic(inconclusive{"strconv.ParseFloat on a partly symbolic string that may spell a number (not encodable)"})
						}
					case *Sym:
						may := symBool(fmt.Sprintf("(or (and (bvuge %s #x30) (bvule %s #x39)) (= %s #x69) (= %s #x49) (= %s #x6e) (= %s #x4e))", c.E, c.E, c.E, c.E, c.E, c.E))
						if eng.Branch(may) {
							// the text may spell a number: enumerate the feasible spellings (the
							// solver proposes each value of each symbolic byte) and parse natively
							bs := strBytes(a[0])
							if len(bs) > 4 {
								panic(inconclusive{"strconv.ParseFloat on a symbolic string of more than 4 bytes that may spell a number (not encodable)"})
							}
							buf := make([]byte, len(bs))
							for i, c := range bs {
								switch c := c.(type) {
								case uint8:
									buf[i] = c
								case *Sym:
									buf[i] = byte(eng.concretize(c))
								}
							}
							used("strconv.ParseFloat (model: symbolic texts of up to 4 bytes that may spell a number are enumerated)")
							v, err := strconv.ParseFloat(string(buf), int(asInt64(a[1])))
							return tuple{v, nativeErr(fr, err)}
						}
					}
				}
				used("strconv.ParseFloat (model: texts without digits and without i/n are not numbers)")
				return tuple{float64(0), errorValue(fr, "strconv.ParseFloat: parsing: invalid syntax")}
			}
			v, err := strconv.ParseFloat(goStr(a[0]), int(asInt64(a[1])))
			return tuple{v, nativeErr(fr, err)}
		},
		"strconv.ParseBool": func(fr *frame, a []value) value {
			if !allConcrete(a) {
				return useSSA{}
			}
			v, err := strconv.ParseBool(goStr(a[0]))
			return tuple{v, nativeErr(fr, err)}
		},
		"strconv.FormatInt": func(fr *frame, a []value) value {
			if !allConcrete(a) {
				return symFormatInt(a[0], int(asInt64(a[1])))
			}
			return strconv.FormatInt(asInt64(a[0]), int(asInt64(a[1])))
		},
		"strconv.Itoa": func(fr *frame, a []value) value {
			if !allConcrete(a) {
				return symFormatInt(a[0], 10)
			}
			return strconv.Itoa(int(asInt64(a[0])))
		},
		"strconv.FormatUint": func(fr *frame, a []value) value {
			if !allConcrete(a) {
				panic(inconclusive{"strconv.FormatUint on a symbolic value"})
			}
			return strconv.FormatUint(uint64(asInt64(a[0])), int(asInt64(a[1])))
		},
		"strconv.FormatFloat": func(fr *frame, a []value) value {
			if f, ok := a[0].(float64); ok && !allConcrete(a) {
				// concrete number, symbolic verb or precision: enumerate them
				verb, prec := a[1], a[2]
				if sv, ok := verb.(*Sym); ok {
					verb = byte(eng.concretize(sv))
				}
				if sp, ok := prec.(*Sym); ok {
					prec = int(eng.concretize(sp))
				}
				return strconv.FormatFloat(f, verb.(byte), int(asInt64(prec)), int(asInt64(a[3])))
			}
			if !allConcrete(a) {
				return symFormatFloat(a[0])
			}
			return strconv.FormatFloat(a[0].(float64), a[1].(byte), int(asInt64(a[2])), int(asInt64(a[3])))
		},
		"strconv.FormatBool": func(fr *frame, a []value) value {
			if !allConcrete(a) {
				return useSSA{}
			}
			return strconv.FormatBool(a[0].(bool))
		},
		"strconv.Quote": func(fr *frame, a []value) value {
			if !allConcrete(a) {
				return a[0]
			}
			return strconv.Quote(goStr(a[0]))
		},
		"strings.ToUpper": func(fr *frame, a []value) value {
			if s, ok := a[0].(string); ok {
				return strings.ToUpper(s)
			}
			if l, ok := a[0].(lazyStr); ok {
				l.upper = true
				if !l.float && l.base <= 10 {
					l.upper = false
				}
				return l
			}
			return symCaseMap(a[0].(sstr), true)
		},
		"strings.ToLower": func(fr *frame, a []value) value {
			if s, ok := a[0].(string); ok {
				return strings.ToLower(s)
			}
			if l, ok := a[0].(lazyStr); ok && !l.float && !l.upper {
				return l
			}
			return symCaseMap(a[0].(sstr), false)
		},
		"strings.EqualFold": func(fr *frame, a []value) value {
			if allConcrete(a) {
				return strings.EqualFold(goStr(a[0]), goStr(a[1]))
			}
			return strEq(foldStr(a[0]), foldStr(a[1]))
		},
		"strings.Index": func(fr *frame, a []value) value {
			if allConcrete(a) {
				return strings.Index(goStr(a[0]), goStr(a[1]))
			}
			return symIndex(a[0], a[1])
		},
		"strings.Contains": func(fr *frame, a []value) value {
			if allConcrete(a) {
				return strings.Contains(goStr(a[0]), goStr(a[1]))
			}
			return symIndex(a[0], a[1]).(int) >= 0
		},
		"strings.IndexByte": func(fr *frame, a []value) value {
			if allConcrete(a) {
				return strings.IndexByte(goStr(a[0]), a[1].(byte))
			}
			return symIndexByte(strBytes(a[0]), a[1])
		},
		"strings.IndexRune": func(fr *frame, a []value) value {
			if allConcrete(a) {
				return strings.IndexRune(goStr(a[0]), a[1].(rune))
			}
			if r, ok := a[1].(rune); ok && r < utf8.RuneSelf {
				return symIndexByte(strBytes(a[0]), byte(r))
			}
			return useSSA{}
		},
		"strings.ContainsRune": func(fr *frame, a []value) value {
			if allConcrete(a) {
				return strings.ContainsRune(goStr(a[0]), a[1].(rune))
			}
			if r, ok := a[1].(rune); ok && r < utf8.RuneSelf {
				return symIndexByte(strBytes(a[0]), byte(r)).(int) >= 0
			}
			return useSSA{}
		},
		"strings.ContainsAny": func(fr *frame, a []value) value {
			if allConcrete(a) {
				return strings.ContainsAny(goStr(a[0]), goStr(a[1]))
			}
			return useSSA{}
		},
		"strings.HasPrefix": func(fr *frame, a []value) value {
			if allConcrete(a) {
				return strings.HasPrefix(goStr(a[0]), goStr(a[1]))
			}
			n := strLen(a[1])
			if strLen(a[0]) < n {
				return false
			}
			return eng.truth(strEq(mkStr(strBytes(a[0])[:n]), a[1]))
		},
		"strings.HasSuffix": func(fr *frame, a []value) value {
			if allConcrete(a) {
				return strings.HasSuffix(goStr(a[0]), goStr(a[1]))
			}
			n, m := strLen(a[1]), strLen(a[0])
			if m < n {
				return false
			}
			return eng.truth(strEq(mkStr(strBytes(a[0])[m-n:]), a[1]))
		},
		"strings.Count": func(fr *frame, a []value) value {
			if allConcrete(a) {
				return strings.Count(goStr(a[0]), goStr(a[1]))
			}
			return useSSA{}
		},
		"strings.Replace": func(fr *frame, a []value) value {
			if allConcrete(a) {
				return strings.Replace(goStr(a[0]), goStr(a[1]), goStr(a[2]), int(asInt64(a[3])))
			}
			return useSSA{}
		},
		"strings.ReplaceAll": func(fr *frame, a []value) value {
			if allConcrete(a) {
				return strings.ReplaceAll(goStr(a[0]), goStr(a[1]), goStr(a[2]))
			}
			return useSSA{}
		},
		"strings.TrimSpace": func(fr *frame, a []value) value {
			if allConcrete(a) {
				return strings.TrimSpace(goStr(a[0]))
			}
			if l, ok := a[0].(lazyStr); ok {
				return l // number texts have no blanks
			}
			return symTrimSpace(a[0].(sstr))
		},
		"strings.Repeat": func(fr *frame, a []value) value {
			if allConcrete(a) {
				return strings.Repeat(goStr(a[0]), int(asInt64(a[1])))
			}
			return useSSA{}
		},
		"strings.Join": func(fr *frame, a []value) value {
			elems := a[0].([]value)
			var bs []value
			for i, e := range elems {
				if i > 0 {
					bs = append(bs, strBytes(a[1])...)
				}
				bs = append(bs, strBytes(e)...)
			}
			return mkStr(bs)
		},
		"bytes.Equal": func(fr *frame, a []value) value {
			x, y := a[0].([]value), a[1].([]value)
			return eng.truth(strEq(mkStr(x), mkStr(y)))
		},
		"bytes.IndexByte": func(fr *frame, a []value) value {
			return symIndexByte(a[0].([]value), a[1])
		},
		"unicode/utf8.DecodeRuneInString": func(fr *frame, a []value) value {
			if s, ok := a[0].(string); ok {
				r, n := utf8.DecodeRuneInString(s)
				return tuple{r, n}
			}
			return useSSA{}
		},
		"unicode.IsSpace": func(fr *frame, a []value) value {
			if r, ok := a[0].(rune); ok {
				return unicode.IsSpace(r)
			}
			return useSSA{}
		},
		"unicode.IsLetter": func(fr *frame, a []value) value {
			if r, ok := a[0].(rune); ok {
				return unicode.IsLetter(r)
			}
			return symRuneClass(a[0].(*Sym), "letter")
		},
		"unicode.IsDigit": func(fr *frame, a []value) value {
			if r, ok := a[0].(rune); ok {
				return unicode.IsDigit(r)
			}
			return symRuneClass(a[0].(*Sym), "digit")
		},
		"unicode.IsUpper": func(fr *frame, a []value) value {
			if r, ok := a[0].(rune); ok {
				return unicode.IsUpper(r)
			}
			return symRuneClass(a[0].(*Sym), "upper")
		},
		"unicode.IsLower": func(fr *frame, a []value) value {
			if r, ok := a[0].(rune); ok {
				return unicode.IsLower(r)
			}
			return symRuneClass(a[0].(*Sym), "lower")
		},
		"unicode.ToUpper": func(fr *frame, a []value) value {
			if r, ok := a[0].(rune); ok {
				return unicode.ToUpper(r)
			}
			return useSSA{}
		},
		"unicode.ToLower": func(fr *frame, a []value) value {
			if r, ok := a[0].(rune); ok {
				return unicode.ToLower(r)
			}
			return useSSA{}
		},

		// ---- math ---------------------------------------------------------------------------
		"math.IsNaN": func(fr *frame, a []value) value {
			if f, ok := a[0].(float64); ok {
				return math.IsNaN(f)
			}
			if RealMode || a[0].(*Sym).Finite {
				return false
			}
			return symBool("(fp.isNaN " + lit(a[0]) + ")")
		},
		"math.IsInf": func(fr *frame, a []value) value {
			if allConcrete(a) {
				return math.IsInf(a[0].(float64), int(asInt64(a[1])))
			}
			if RealMode {
				return false
			}
			if sf, ok := a[0].(*Sym); ok && sf.Finite {
				return false
			}
			f := lit(a[0])
			sign := asInt64(a[1])
			switch {
			case sign > 0:
				return symBool("(and (fp.isInfinite " + f + ") (fp.isPositive " + f + "))")
			case sign < 0:
				return symBool("(and (fp.isInfinite " + f + ") (fp.isNegative " + f + "))")
			}
			return symBool("(fp.isInfinite " + f + ")")
		},
		"math.Abs": func(fr *frame, a []value) value {
			if f, ok := a[0].(float64); ok {
				return math.Abs(f)
			}
			if RealMode {
				return mk(types.Float64, "(abs "+lit(a[0])+")")
			}
			return mk(types.Float64, "(fp.abs "+lit(a[0])+")")
		},
		"math.Min": func(fr *frame, a []value) value {
			if allConcrete(a) {
				return math.Min(a[0].(float64), a[1].(float64))
			}
			if RealMode {
				return mk(types.Float64, "(ite (< "+lit(a[0])+" "+lit(a[1])+") "+lit(a[0])+" "+lit(a[1])+")")
			}
			panic(inconclusive{"math.Min on symbolic FloatingPoint values"})
		},
		"math.Max": func(fr *frame, a []value) value {
			if allConcrete(a) {
				return math.Max(a[0].(float64), a[1].(float64))
			}
			if RealMode {
				return mk(types.Float64, "(ite (< "+lit(a[0])+" "+lit(a[1])+") "+lit(a[1])+" "+lit(a[0])+")")
			}
			panic(inconclusive{"math.Max on symbolic FloatingPoint values"})
		},
		"math.Floor": func(fr *frame, a []value) value {
			if f, ok := a[0].(float64); ok {
				return math.Floor(f)
			}
			if sf, ok := a[0].(*Sym); ok && sf.IntE != "" {
				return sf
			}
			if RealMode {
				return mk(types.Float64, "(to_real (to_int "+lit(a[0])+"))")
			}
			return mk(types.Float64, "(fp.roundToIntegral RTN "+lit(a[0])+")")
		},
		"math.Ceil": func(fr *frame, a []value) value {
			if f, ok := a[0].(float64); ok {
				return math.Ceil(f)
			}
			if sf, ok := a[0].(*Sym); ok && sf.IntE != "" {
				return sf
			}
			if RealMode {
				return mk(types.Float64, "(to_real (- (to_int (- "+lit(a[0])+"))))")
			}
			return mk(types.Float64, "(fp.roundToIntegral RTP "+lit(a[0])+")")
		},
		"math.Trunc": func(fr *frame, a []value) value {
			if f, ok := a[0].(float64); ok {
				return math.Trunc(f)
			}
			if sf, ok := a[0].(*Sym); ok && sf.IntE != "" {
				return sf
			}
			if RealMode {
				x := lit(a[0])
				return mk(types.Float64, fmt.Sprintf("(to_real (ite (>= %s 0.0) (to_int %s) (- (to_int (- %s)))))", x, x, x))
			}
			return mk(types.Float64, "(fp.roundToIntegral RTZ "+lit(a[0])+")")
		},
		"math.Remainder": func(fr *frame, a []value) value {
			if allConcrete(a) {
				return math.Remainder(a[0].(float64), a[1].(float64))
			}
			if ia, ok := integralOf(a[0]); RealMode && ok {
				if ib, ok := integralOf(a[1]); ok {
					// integral operands: r = x - y*n with n = x/y rounded to nearest, ties to even
					eng.assumeSilently(symBool("(distinct "+ib+" 0)"), "real mode: float remainder by zero excluded")
					tq := mk(types.Int, truncDivInt(ia, ib))
					r := mk(types.Int, fmt.Sprintf("(- %s (* %s %s))", ia, ib, tq.E)) // truncated remainder, sign of x
					// candidate adjustments: compare 2|r| with |y|
					adj := fmt.Sprintf("(let ((r2 (* 2 (abs %s))) (ay (abs %s))) (ite (or (> r2 ay) (and (= r2 ay) (distinct (mod %s 2) 0))) (ite (>= %s 0) (- %s ay) (+ %s ay)) %s))",
						r.E, ib, tq.E, r.E, r.E, r.E, r.E)
					return realOfInt(types.Float64, adj)
				}
			}
			if RealMode {
				// IEEE remainder: x - y*rne(x/y); exact on the integral domain used in real mode
				x, y := lit(a[0]), lit(a[1])
				eng.assumeSilently(symBool("(distinct "+y+" 0.0)"), "real mode: float remainder by zero excluded")
				q := mk(types.Float64, "(/ "+x+" "+y+")")
				fl := "(to_int " + q.E + ")"
				// round half to even
				rne := fmt.Sprintf("(let ((f %s)) (let ((d (- %s (to_real f)))) (ite (< d 0.5) f (ite (> d 0.5) (+ f 1) (ite (= (mod f 2) 0) f (+ f 1))))))", fl, q.E)
				return mk(types.Float64, fmt.Sprintf("(- %s (* %s (to_real %s)))", x, y, rne))
			}
			return mk(types.Float64, "(fp.rem "+lit(a[0])+" "+lit(a[1])+")")
		},
		"math.Mod": func(fr *frame, a []value) value {
			if allConcrete(a) {
				return math.Mod(a[0].(float64), a[1].(float64))
			}
			if ia, ok := integralOf(a[0]); RealMode && ok {
				if ib, ok := integralOf(a[1]); ok {
					eng.assumeSilently(symBool("(distinct "+ib+" 0)"), "real mode: float modulo by zero excluded")
					tq := mk(types.Int, truncDivInt(ia, ib))
					return realOfInt(types.Float64, fmt.Sprintf("(- %s (* %s %s))", ia, ib, tq.E))
				}
			}
			if RealMode {
				x, y := lit(a[0]), lit(a[1])
				eng.assumeSilently(symBool("(distinct "+y+" 0.0)"), "real mode: float modulo by zero excluded")
				q := mk(types.Float64, "(/ "+x+" "+y+")")
				tr := fmt.Sprintf("(ite (>= %s 0.0) (to_int %s) (- (to_int (- %s))))", q.E, q.E, q.E)
				return mk(types.Float64, fmt.Sprintf("(- %s (* %s (to_real %s)))", x, y, tr))
			}
			panic(inconclusive{"math.Mod on symbolic FloatingPoint values (use real mode)"})
		},
		"math.Float64bits": func(fr *frame, a []value) value {
			if f, ok := a[0].(float64); ok {
				return math.Float64bits(f)
			}
			panic(inconclusive{"math.Float64bits of a symbolic float"})
		},
		"math.Float64frombits": func(fr *frame, a []value) value {
			if u, ok := a[0].(uint64); ok {
				return math.Float64frombits(u)
			}
			return mk(types.Float64, "((_ to_fp 11 53) "+lit(a[0])+")")
		},
		"math.Pow": func(fr *frame, a []value) value {
			if allConcrete(a) {
				return math.Pow(a[0].(float64), a[1].(float64))
			}
			panic(inconclusive{"math.Pow on symbolic values"})
		},
		"math.Log10": native1(math.Log10), "math.Log2": native1(math.Log2), "math.Log": native1(math.Log),
		"math.Sqrt": native1(math.Sqrt), "math.Exp": native1(math.Exp), "math.Round": native1(math.Round),
		"math.Log1p": native1(math.Log1p), "math.Cbrt": native1(math.Cbrt),
		"math.Signbit": func(fr *frame, a []value) value {
			if f, ok := a[0].(float64); ok {
				return math.Signbit(f)
			}
			if RealMode {
				return symBool("(< " + lit(a[0]) + " 0.0)")
			}
			return symBool("(fp.isNegative " + lit(a[0]) + ")")
		},
		"math.Modf": func(fr *frame, a []value) value {
			if f, ok := a[0].(float64); ok {
				i, fr := math.Modf(f)
				return tuple{i, fr}
			}
			panic(inconclusive{"math.Modf on symbolic values"})
		},
		"math.NaN": func(fr *frame, a []value) value { return math.NaN() },
		"math.Inf": func(fr *frame, a []value) value { return math.Inf(int(asInt64(a[0]))) },

		// ---- runtime / misc -----------------------------------------------------------------
		"runtime.NumCPU":     func(fr *frame, a []value) value { return 4 },
		"runtime.GOMAXPROCS": func(fr *frame, a []value) value { return 4 },
		"runtime.Gosched":    func(fr *frame, a []value) value { sched.yield(nil); return nil },
		"runtime.GC":         func(fr *frame, a []value) value { return nil },
		"runtime.KeepAlive":  func(fr *frame, a []value) value { return nil },
		"runtime.SetFinalizer": func(fr *frame, a []value) value {
			return nil
		},
		"time.Sleep": func(fr *frame, a []value) value { retrySleep(fr); sched.sleepYield(); return nil },
		"os.Exit":    func(fr *frame, a []value) value { panic(exitPanic(asInt64(a[0]))) },
		"os.Getenv": func(fr *frame, a []value) value {
			if vfs != nil {
				return vfs.env[goStr(a[0])]
			}
			return ""
		},
		// no terminal is attached (as under go test): the width falls back to the default
		"golang.org/x/crypto/ssh/terminal.GetSize": func(fr *frame, a []value) value {
			return tuple{0, 0, errorValue(fr, "inappropriate ioctl for device")}
		},
		"golang.org/x/term.GetSize": func(fr *frame, a []value) value {
			return tuple{0, 0, errorValue(fr, "inappropriate ioctl for device")}
		},
		"internal/bytealg.MakeNoZero": func(fr *frame, a []value) value {
			n := int(asInt64(a[0]))
			b := make([]value, n)
			for i := range b {
				b[i] = uint8(0)
			}
			return b
		},
		"internal/bytealg.IndexByteString": func(fr *frame, a []value) value {
			return symIndexByte(strBytes(a[0]), a[1])
		},
		"internal/bytealg.IndexByte": func(fr *frame, a []value) value {
			return symIndexByte(a[0].([]value), a[1])
		},
		"internal/bytealg.CountString": func(fr *frame, a []value) value {
			if allConcrete(a) {
				return strings.Count(goStr(a[0]), string([]byte{a[1].(byte)}))
			}
			n := 0
			for _, c := range strBytes(a[0]) {
				if eng.truth(byteEq(c, a[1])) {
					n++
				}
			}
			return n
		},
		"internal/bytealg.Equal": func(fr *frame, a []value) value {
			return eng.truth(strEq(mkStr(a[0].([]value)), mkStr(a[1].([]value))))
		},
		"internal/bytealg.IndexString": func(fr *frame, a []value) value {
			if allConcrete(a) {
				return strings.Index(goStr(a[0]), goStr(a[1]))
			}
			return symIndex(a[0], a[1])
		},
		"internal/stringslite.Index": func(fr *frame, a []value) value {
			if allConcrete(a) {
				return strings.Index(goStr(a[0]), goStr(a[1]))
			}
			return symIndex(a[0], a[1])
		},
	}
	// drop upstream externals that assume concrete Go values, then install ours
	for k := range externals {
		if !strings.HasPrefix(k, "(reflect.") && !strings.HasPrefix(k, "reflect.") {
			delete(externals, k)
		}
	}
	for k, v := range ext {
		externals[k] = v
	}
	installAtomics()
	// timers never fire by themselves: deadlines are modelled explicitly by harness contexts
	externals["time.AfterFunc"] = func(fr *frame, a []value) value {
		var cell value = zero(namedType(fr, "time", "Timer"))
		if timersOn {
			t := &vtimer{f: a[1]}
			timers = append(timers, t)
			timerOf[&cell] = t
			return &cell
		}
		used("time.AfterFunc / context deadlines (model: timers never fire; timeouts are injected by harness contexts)")
		return &cell
	}
	externals["time.NewTimer"] = func(fr *frame, a []value) value {
		st := zero(namedType(fr, "time", "Timer")).(structure)
		st[0] = newChan(1)
		var cell value = st
		return &cell
	}
	externals["(*time.Timer).Stop"] = func(fr *frame, a []value) value {
		if p, ok := a[0].(*value); ok {
			if t := timerOf[p]; t != nil {
				was := !t.fired && !t.stopped
				t.stopped = true
				return was
			}
		}
		return true
	}
	externals["(*time.Timer).Reset"] = func(fr *frame, a []value) value { return true }
	externals["(*sync/atomic.Value).Load"] = func(fr *frame, a []value) value {
		c := structField(a[0], 0)
		acquire(c)
		if *c == nil {
			return iface{}
		}
		return *c
	}
	externals["(*sync/atomic.Value).Store"] = func(fr *frame, a []value) value {
		c := structField(a[0], 0)
		release(c)
		logCell(c)
		*c = a[1]
		return nil
	}
	externals["(*sync/atomic.Value).CompareAndSwap"] = func(fr *frame, a []value) value {
		c := structField(a[0], 0)
		acquire(c)
		cur := *c
		if cur == nil {
			cur = iface{}
		}
		if eng.truth(equalsV(types.NewInterfaceType(nil, nil), cur, a[1])) {
			release(c)
			logCell(c)
			*c = a[2]
			return true
		}
		return false
	}
	externals["runtime.Callers"] = func(fr *frame, a []value) value { return 0 }
	externals["runtime.Caller"] = func(fr *frame, a []value) value { return tuple{uintptr(0), "", 0, false} }
	externals["runtime/debug.Stack"] = func(fr *frame, a []value) value { return []value(nil) }
	externals["runtime.Stack"] = func(fr *frame, a []value) value { return 0 }
	// csvq turns a recovered panic into a FatalError value: that is an internal failure (C19)
	// whichever harness it happens in.  Record it, then let the real constructor run.
	externals["github.com/mithrandie/csvq/lib/query.NewFatalError"] = func(fr *frame, a []value) value {
		msg := "recovered panic"
		if x, ok := a[0].(iface); ok && x.t != nil {
			msg = truncate(toString(x.v), 160)
		}
		eng.fatalSeen = append(eng.fatalSeen, msg)
		return useSSA{}
	}
	externals["internal/reflectlite.TypeOf"] = ext۰reflect۰TypeOf
	externals["(reflect.rtype).Comparable"] = func(fr *frame, a []value) value {
		return types.Comparable(a[0].(rtype).t)
	}
	externals["internal/stringslite.Clone"] = func(fr *frame, a []value) value { return a[0] }
	externals["strings.Clone"] = func(fr *frame, a []value) value { return a[0] }
	// time.LoadLocation reads the zone database through raw system calls: UTC and Local (modelled as
	// UTC) are answered from the package's own variables, a name the real database does not know is an
	// error here as well, any other zone is outside the model.
	externals["time.LoadLocation"] = func(fr *frame, a []value) value {
		name, ok := a[0].(string)
		if !ok {
			panic(inconclusive{"time.LoadLocation of a symbolic name"})
		}
		pkg := fr.i.prog.ImportedPackage("time")
		switch name {
		case "", "UTC":
			return tuple{*fr.i.globals[pkg.Var("UTC")], iface{}}
		case "Local":
			return tuple{*fr.i.globals[pkg.Var("Local")], iface{}}
		}
		if _, err := time.LoadLocation(name); err != nil {
			used("time.LoadLocation (UTC / Local from the package, unknown names fail as natively)")
			return tuple{(*value)(nil), nativeErr(fr, err)}
		}
		panic(inconclusive{"time.LoadLocation(" + name + "): zone database not modelled"})
	}
	externals["time.runtimeNano"] = func(fr *frame, a []value) value { return int64(0) }
	externals["time.now"] = func(fr *frame, a []value) value {
		used("time.now (model: fixed instant 2023-11-14T22:13:20Z)")
		return tuple{int64(1700000000), int32(0), int64(0)}
	}
	externals["runtime.nanotime"] = func(fr *frame, a []value) value { return int64(0) }
}

func native1(f func(float64) float64) externalFn {
	return func(fr *frame, a []value) value {
		if x, ok := a[0].(float64); ok {
			return f(x)
		}
		panic(inconclusive{"transcendental/rounding math function on a symbolic float"})
	}
}

func syncMapOf(recv value) *omap {
	p := recv.(*value)
	m := syncMaps[p]
	if m == nil {
		m = &omap{kt: types.NewInterfaceType(nil, nil), fast: map[value]int{}, atomic: true}
		syncMaps[p] = m
	}
	return m
}

func nativeErr(fr *frame, err error) value {
	if err == nil {
		return iface{}
	}
	return errorValue(fr, err.Error())
}

// unbox turns an interpreter value into a Go value fmt can print, or reports failure.
func unbox(v value) (interface{}, bool) {
	switch x := v.(type) {
	case iface:
		if x.t == nil {
			return nil, true
		}
		return unbox(x.v)
	case bool, int, int8, int16, int32, int64, uint, uint8, uint16, uint32, uint64, uintptr, float32, float64, string:
		return x, true
	}
	return nil, false
}

func nativeSprintf(format value, args []value) value {
	f, ok := format.(string)
	if !ok {
		return "<fmt>"
	}
	var ga []interface{}
	for _, a := range args {
		g, ok := unbox(a)
		if !ok {
			return f
		}
		ga = append(ga, g)
	}
	return fmt.Sprintf(f, ga...)
}

func nativeSprint(args []value) value {
	var ga []interface{}
	for _, a := range args {
		g, ok := unbox(a)
		if !ok {
			return "<fmt>"
		}
		ga = append(ga, g)
	}
	return fmt.Sprint(ga...)
}

// ---- symbolic string helpers (ASCII exact models) ---------------------------------------

func symCaseMap(s sstr, upper bool) value {
	out := make([]value, len(s.b))
	for i, c := range s.b {
		switch c := c.(type) {
		case uint8:
			if c >= 0x80 {
				panic(inconclusive{"case mapping of a non-ASCII byte inside a symbolic string"})
			}
			if upper {
				out[i] = strings.ToUpper(string([]byte{c}))[0]
			} else {
				out[i] = strings.ToLower(string([]byte{c}))[0]
			}
		case *Sym:
			eng.assumeSilently(symBool("(bvult "+c.E+" #x80)"), "symbolic string bytes are ASCII (< 0x80) where case-mapped")
			if upper {
				out[i] = mk(types.Uint8, fmt.Sprintf("(ite (and (bvuge %s #x61) (bvule %s #x7a)) (bvsub %s #x20) %s)", c.E, c.E, c.E, c.E))
			} else {
				out[i] = mk(types.Uint8, fmt.Sprintf("(ite (and (bvuge %s #x41) (bvule %s #x5a)) (bvadd %s #x20) %s)", c.E, c.E, c.E, c.E))
			}
		}
	}
	return mkStr(out)
}

func foldStr(v value) value {
	if s, ok := v.(string); ok {
		for i := 0; i < len(s); i++ {
			if s[i] >= 0x80 {
				panic(inconclusive{"EqualFold of non-ASCII text against a symbolic string"})
			}
		}
		return strings.ToUpper(s)
	}
	return symCaseMap(v.(sstr), true)
}

func isSpaceByte(c value) value {
	switch c := c.(type) {
	case uint8:
		return c == ' ' || c == '\t' || c == '\n' || c == '\v' || c == '\f' || c == '\r' || c == 0x85 || c == 0xA0
	case *Sym:
		eng.assumeSilently(symBool("(bvult "+c.E+" #x80)"), "symbolic string bytes are ASCII (< 0x80) where trimmed")
		return symBool(fmt.Sprintf("(or (= %s #x20) (and (bvuge %s #x09) (bvule %s #x0d)))", c.E, c.E, c.E))
	}
	panic("isSpaceByte")
}

func symTrimSpace(s sstr) value {
	b := s.b
	lo, hi := 0, len(b)
	for lo < hi && eng.truth(isSpaceByte(b[lo])) {
		lo++
	}
	for hi > lo && eng.truth(isSpaceByte(b[hi-1])) {
		hi--
	}
	return mkStr(b[lo:hi])
}

func symIndexByte(b []value, c value) value {
	for i, x := range b {
		if eng.truth(byteEq(x, c)) {
			return i
		}
	}
	return -1
}

func symIndex(s, sub value) value {
	a, b := strBytes(s), strBytes(sub)
	for i := 0; i+len(b) <= len(a); i++ {
		if eng.truth(strEq(mkStr(a[i:i+len(b)]), mkStr(b))) {
			return i
		}
	}
	return -1
}

func symRuneClass(r *Sym, class string) value {
	eng.assumeSilently(symBool("(and (bvsge "+r.E+" #x00000000) (bvslt "+r.E+" #x00000080))"), "symbolic runes are ASCII where classified by unicode.Is*")
	up := fmt.Sprintf("(and (bvsge %s #x00000041) (bvsle %s #x0000005a))", r.E, r.E)
	lo := fmt.Sprintf("(and (bvsge %s #x00000061) (bvsle %s #x0000007a))", r.E, r.E)
	switch class {
	case "letter":
		return symBool("(or " + up + " " + lo + ")")
	case "upper":
		return symBool(up)
	case "lower":
		return symBool(lo)
	case "digit":
		return symBool(fmt.Sprintf("(and (bvsge %s #x00000030) (bvsle %s #x00000039))", r.E, r.E))
	}
	panic("symRuneClass")
}

// symFormatInt: decimal formatting of a symbolic integer is modelled as an opaque, injective
// token: a string of one symbolic "digit-class" byte sequence is not needed by any harness, so
// the value is concretised (forking over its feasible values, bounded at 64).
func symFormatInt(v value, base int) value {
	return lazyStr{sym: v.(*Sym), base: base}
}

func symFormatFloat(v value) value {
	return lazyStr{sym: v.(*Sym), base: 10, float: true}
}

func setStdGlobals(i *interpreter) {}

// ssa۰Function is an alias to avoid importing ssa in this file's closures.
type ssa۰Function = ssaFunction


// sync/atomic: one interpreted goroutine runs at a time, so plain reads/writes are atomic; every
// operation is a synchronisation point for the scheduler and the happens-before monitor.
func installAtomics() {
	used := func() { StubsUsed["sync/atomic (model: sequentially consistent cell operations)"] = true }
	cell := func(v value) *value {
		p := v.(*value)
		if p == nil {
			panic("runtime error: invalid memory address or nil pointer dereference")
		}
		return p
	}
	for _, ty := range []string{"Int32", "Int64", "Uint32", "Uint64", "Uintptr"} {
		ty := ty
		externals["sync/atomic.Load"+ty] = func(fr *frame, a []value) value {
			used()
			c := cell(a[0])
			acquire(c)
			raceAtomic(c, false)
			return *c
		}
		externals["sync/atomic.Store"+ty] = func(fr *frame, a []value) value {
			used()
			c := cell(a[0])
			raceAtomic(c, true)
			release(c)
			logCell(c)
			*c = a[1]
			sched.yield(nil)
			return nil
		}
		externals["sync/atomic.Add"+ty] = func(fr *frame, a []value) value {
			used()
			c := cell(a[0])
			acquire(c)
			raceAtomic(c, true)
			release(c)
			logCell(c)
			*c = binop(token.ADD, nil, *c, a[1])
			r := *c
			sched.yield(nil)
			return r
		}
		externals["sync/atomic.Swap"+ty] = func(fr *frame, a []value) value {
			used()
			c := cell(a[0])
			acquire(c)
			raceAtomic(c, true)
			release(c)
			old := *c
			logCell(c)
			*c = a[1]
			sched.yield(nil)
			return old
		}
		externals["sync/atomic.CompareAndSwap"+ty] = func(fr *frame, a []value) value {
			used()
			c := cell(a[0])
			acquire(c)
			if eng.truth(binop(token.EQL, types.Typ[types.Int64], *c, a[1])) {
				raceAtomic(c, true)
				release(c)
				logCell(c)
				*c = a[2]
				sched.yield(nil)
				return true
			}
			return false
		}
		// methods of atomic.Int32 etc.: the value is the last field of the struct
		field := func(v value) *value {
			p := cell(v)
			st := (*p).(structure)
			return &st[len(st)-1]
		}
		externals["(*sync/atomic."+ty+").Load"] = func(fr *frame, a []value) value {
			used()
			c := field(a[0])
			acquire(c)
			return *c
		}
		externals["(*sync/atomic."+ty+").Store"] = func(fr *frame, a []value) value {
			used()
			c := field(a[0])
			release(c)
			logCell(c)
			*c = a[1]
			sched.yield(nil)
			return nil
		}
		externals["(*sync/atomic."+ty+").Add"] = func(fr *frame, a []value) value {
			used()
			c := field(a[0])
			acquire(c)
			release(c)
			logCell(c)
			*c = binop(token.ADD, nil, *c, a[1])
			r := *c
			sched.yield(nil)
			return r
		}
		externals["(*sync/atomic."+ty+").CompareAndSwap"] = func(fr *frame, a []value) value {
			used()
			c := field(a[0])
			acquire(c)
			if eng.truth(binop(token.EQL, types.Typ[types.Int64], *c, a[1])) {
				release(c)
				logCell(c)
				*c = a[2]
				sched.yield(nil)
				return true
			}
			return false
		}
	}
	externals["(*sync/atomic.Bool).Load"] = func(fr *frame, a []value) value {
		used()
		p := cell(a[0])
		st := (*p).(structure)
		acquire(&st[len(st)-1])
		return eng.truth(binop(token.NEQ, types.Typ[types.Uint32], st[len(st)-1], uint32(0)))
	}
	externals["(*sync/atomic.Bool).Store"] = func(fr *frame, a []value) value {
		used()
		p := cell(a[0])
		st := (*p).(structure)
		c := &st[len(st)-1]
		release(c)
		logCell(c)
		if eng.truth(a[1]) {
			*c = uint32(1)
		} else {
			*c = uint32(0)
		}
		sched.yield(nil)
		return nil
	}
}


// runeToBytesAny encodes a rune as UTF-8: concrete runes exactly, symbolic ones as ASCII.
func runeToBytesAny(r value) []value {
	if c, ok := r.(int32); ok {
		return strBytes(string(c))
	}
	return runeToBytes(r)
}


// jsonAssign returns cur (a value of type t) after encoding/json has unmarshalled j into it.
// Unsupported shapes (custom unmarshalers, interface targets, type mismatches, embedded fields) end
// the path as INCONCLUSIVE.
func jsonAssign(t types.Type, cur value, j interface{}) value {
	if n, ok := t.(*types.Named); ok {
		for i := 0; i < n.NumMethods(); i++ {
			if m := n.Method(i).Name(); m == "UnmarshalJSON" || m == "UnmarshalText" {
				panic(inconclusive{"encoding/json.Unmarshal: custom unmarshaler of " + t.String()})
			}
		}
	}
	bad := func() value {
		panic(inconclusive{fmt.Sprintf("encoding/json.Unmarshal: %T into %s", j, t.String())})
	}
	switch u := t.Underlying().(type) {
	case *types.Interface:
		if u.NumMethods() != 0 {
			return bad()
		}
		return jsonBox(j)
	case *types.Pointer:
		if j == nil {
			return (*value)(nil)
		}
		p, _ := cur.(*value)
		if p == nil {
			z := zero(u.Elem())
			p = &z
		}
		nv := jsonAssign(u.Elem(), *p, j)
		logCell(p)
		*p = nv
		return p
	case *types.Struct:
		if j == nil {
			return cur
		}
		obj, ok := j.(map[string]interface{})
		if !ok {
			return bad()
		}
		s := append(structure(nil), cur.(structure)...)
		keys := make([]string, 0, len(obj))
		for k := range obj {
			keys = append(keys, k)
		}
		sort.Strings(keys)
		for _, k := range keys {
			idx := -1
			for pass := 0; pass < 2 && idx < 0; pass++ {
				for i := 0; i < u.NumFields(); i++ {
					f := u.Field(i)
					if f.Embedded() {
						panic(inconclusive{"encoding/json.Unmarshal: embedded field in " + t.String()})
					}
					if !f.Exported() {
						continue
					}
					name := f.Name()
					tag := reflect.StructTag(u.Tag(i)).Get("json")
					if tag == "-" {
						continue
					}
					if c := strings.Split(tag, ",")[0]; c != "" {
						name = c
					}
					if (pass == 0 && name == k) || (pass == 1 && strings.EqualFold(name, k)) {
						idx = i
						break
					}
				}
			}
			if idx >= 0 {
				s[idx] = jsonAssign(u.Field(idx).Type(), s[idx], obj[k])
			}
		}
		return s
	case *types.Slice:
		if j == nil {
			return []value(nil)
		}
		arr, ok := j.([]interface{})
		if !ok {
			return bad()
		}
		out := make([]value, len(arr))
		for i := range arr {
			out[i] = jsonAssign(u.Elem(), zero(u.Elem()), arr[i])
		}
		return out
	case *types.Map:
		if j == nil {
			return (*omap)(nil)
		}
		obj, ok := j.(map[string]interface{})
		kb, isBasic := u.Key().Underlying().(*types.Basic)
		if !ok || !isBasic || kb.Kind() != types.String {
			return bad()
		}
		m, _ := cur.(*omap)
		if m == nil {
			m = makeMap(u.Key(), 0).(*omap)
		}
		keys := make([]string, 0, len(obj))
		for k := range obj {
			keys = append(keys, k)
		}
		sort.Strings(keys)
		for _, k := range keys {
			m.insert(k, jsonAssign(u.Elem(), zero(u.Elem()), obj[k]))
		}
		return m
	case *types.Basic:
		if j == nil {
			return cur
		}
		switch {
		case u.Kind() == types.String:
			if s, ok := j.(string); ok {
				return s
			}
		case u.Kind() == types.Bool:
			if b, ok := j.(bool); ok {
				return b
			}
		case u.Info()&types.IsInteger != 0:
			if n, ok := j.(json.Number); ok {
				if i, err := strconv.ParseInt(string(n), 10, 64); err == nil {
					switch u.Kind() {
					case types.Int:
						return int(i)
					case types.Int64:
						return i
					case types.Int32:
						if int64(int32(i)) == i {
							return int32(i)
						}
					}
				}
			}
		case u.Kind() == types.Float64:
			if n, ok := j.(json.Number); ok {
				if f, err := n.Float64(); err == nil {
					return f
				}
			}
		}
		return bad()
	}
	return bad()
}


var jsonAnyType = types.NewInterfaceType(nil, nil).Complete()

// jsonBox is what encoding/json stores into an interface{} target (numbers as float64).
func jsonBox(j interface{}) value {
	switch x := j.(type) {
	case nil:
		return iface{}
	case string:
		return iface{t: types.Typ[types.String], v: x}
	case bool:
		return iface{t: types.Typ[types.Bool], v: x}
	case json.Number:
		f, err := x.Float64()
		if err != nil {
			panic(inconclusive{"encoding/json.Unmarshal: number " + string(x)})
		}
		return iface{t: types.Typ[types.Float64], v: f}
	case []interface{}:
		out := make([]value, len(x))
		for i := range x {
			out[i] = jsonBox(x[i])
		}
		return iface{t: types.NewSlice(jsonAnyType), v: out}
	case map[string]interface{}:
		m := makeMap(types.Typ[types.String], 0).(*omap)
		keys := make([]string, 0, len(x))
		for k := range x {
			keys = append(keys, k)
		}
		sort.Strings(keys)
		for _, k := range keys {
			m.insert(k, jsonBox(x[k]))
		}
		return iface{t: types.NewMap(types.Typ[types.String], jsonAnyType), v: m}
	}
	panic(inconclusive{fmt.Sprintf("encoding/json.Unmarshal: %T into interface{}", j)})
}


// sameObject: do two pooled values stand for the same resources?  Pointers, maps and slices must be
// identical, structs (a pool of struct values that carry maps, as csvq's scope pools) field by field;
// refs counts the reference components compared (a value without any is no shared object).
func sameObject(x, y value, refs *int) bool {
	switch a := x.(type) {
	case iface:
		b, ok := y.(iface)
		if !ok || a.t == nil || b.t == nil || !types.Identical(a.t, b.t) {
			return false
		}
		return sameObject(a.v, b.v, refs)
	case structure:
		b, ok := y.(structure)
		if !ok || len(a) != len(b) {
			return false
		}
		for i := range a {
			if !sameObject(a[i], b[i], refs) {
				return false
			}
		}
		return true
	case *value:
		b, ok := y.(*value)
		if ok && a == b && a != nil {
			*refs++
		}
		return ok && a == b
	case *omap:
		b, ok := y.(*omap)
		if ok && a == b && a != nil {
			*refs++
		}
		return ok && a == b
	case []value:
		b, ok := y.([]value)
		if !ok || len(a) != len(b) || cap(a) != cap(b) {
			return false
		}
		if cap(a) == 0 {
			return true
		}
		if &a[:1][0] == &b[:1][0] {
			*refs++
			return true
		}
		return false
	case bool, int, int8, int16, int32, int64, uint, uint8, uint16, uint32, uint64, uintptr, float32, float64, string:
		return x == y
	}
	return false
}
