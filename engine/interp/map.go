package interp

// Ordered map used for every Go map of the interpreted program.  Iteration order is insertion
// order (deterministic, required by decision-replay), optionally permuted by a fork variable.
// Keys may contain symbolic leaves; a lookup then compares against the stored keys and forks.

import (
	"fmt"
	"go/types"
)

type mapEntry struct {
	key, val value
	deleted  bool
}

type omap struct {
	cell    value // stands for the map's memory in the race detector
	kt      types.Type
	entries []*mapEntry
	fast    map[value]int // concrete basic keys -> entry index
	slow    []int         // indices of entries whose key is not a concrete basic value
	n       int
	atomic  bool // sync.Map: operations are linearizable, not subject to the race monitor
}

func makeMap(kt types.Type, reserve int64) value {
	return &omap{kt: kt, fast: map[value]int{}}
}

func fastKey(k value) bool {
	switch k.(type) {
	case bool, int, int8, int16, int32, int64, uint, uint8, uint16, uint32, uint64, uintptr, float32, float64, string, *value:
		return true
	}
	return false
}

func (m *omap) find(k value) int {
	if m == nil {
		return -1
	}
	if fastKey(k) {
		if i, ok := m.fast[k]; ok {
			return i
		}
		for _, i := range m.slow {
			e := m.entries[i]
			if !e.deleted && equals(m.kt, e.key, k) {
				return i
			}
		}
		return -1
	}
	for i, e := range m.entries {
		if !e.deleted && equals(m.kt, e.key, k) {
			return i
		}
	}
	return -1
}

func (m *omap) lookup(k value) (value, bool) {
	if m != nil && !m.atomic {
		raceRead(&m.cell)
	}
	if i := m.find(k); i >= 0 {
		return m.entries[i].val, true
	}
	return nil, false
}

func (m *omap) insert(k, v value) {
	if m == nil {
		panic("runtime error: assignment to entry in nil map")
	}
	if !m.atomic {
		raceWrite(&m.cell)
	}
	if i := m.find(k); i >= 0 {
		e := m.entries[i]
		if undoOn {
			old := e.val
			undoMaps = append(undoMaps, func() { e.val = old })
		}
		e.val = v
		return
	}
	m.entries = append(m.entries, &mapEntry{key: k, val: v})
	i := len(m.entries) - 1
	fk := fastKey(k)
	if fk {
		m.fast[k] = i
	} else {
		m.slow = append(m.slow, i)
	}
	m.n++
	if undoOn {
		undoMaps = append(undoMaps, func() {
			m.entries = m.entries[:i]
			if fk {
				delete(m.fast, k)
			} else {
				m.slow = m.slow[:len(m.slow)-1]
			}
			m.n--
		})
	}
}

func (m *omap) delete(k value) {
	if m == nil {
		return
	}
	if !m.atomic {
		raceWrite(&m.cell)
	}
	if i := m.find(k); i >= 0 {
		e := m.entries[i]
		e.deleted = true
		if fastKey(e.key) {
			delete(m.fast, e.key)
		}
		m.n--
		if undoOn {
			undoMaps = append(undoMaps, func() {
				e.deleted = false
				if fastKey(e.key) {
					m.fast[e.key] = i
				}
				m.n++
			})
		}
	}
}

func (m *omap) len() int {
	if m == nil {
		return 0
	}
	return m.n
}

func (m *omap) clear() {
	if m == nil {
		return
	}
	if undoOn {
		oe, of, os, on := m.entries, m.fast, m.slow, m.n
		undoMaps = append(undoMaps, func() { m.entries, m.fast, m.slow, m.n = oe, of, os, on })
	}
	m.entries = nil
	m.fast = map[value]int{}
	m.slow = nil
	m.n = 0
}

// live returns the live entries in iteration order.
func (m *omap) live() []*mapEntry {
	if m == nil {
		return nil
	}
	var r []*mapEntry
	for _, e := range m.entries {
		if !e.deleted {
			r = append(r, e)
		}
	}
	return r
}

type omapIter struct {
	es []*mapEntry
	i  int
}

func (it *omapIter) next() tuple {
	for it.i < len(it.es) {
		e := it.es[it.i]
		it.i++
		if e.deleted {
			continue
		}
		return tuple{true, e.key, e.val}
	}
	return tuple{false, nil, nil}
}

// PermuteMaps makes `range` over a map with 2..4 entries fork over every iteration order
// (larger maps: every rotation).  Set by the verifMapOrder intrinsic.
var PermuteMaps bool

func newMapIter(m *omap) iter {
	if m != nil && !m.atomic {
		raceRead(&m.cell)
	}
	es := m.live()
	if PermuteMaps && len(es) >= 2 && eng != nil {
		if len(es) <= 4 {
			perms := permutations(len(es))
			c := eng.Choice("maporder", len(perms))
			p := perms[c]
			out := make([]*mapEntry, len(es))
			for i, j := range p {
				out[i] = es[j]
			}
			es = out
			eng.assumptions["map iteration: all permutations explored for maps with <= 4 entries"] = true
		} else {
			c := eng.Choice("maporder", len(es))
			es = append(append([]*mapEntry{}, es[c:]...), es[:c]...)
			eng.assumptions["map iteration: only rotations explored for maps with > 4 entries"] = true
		}
	}
	return &omapIter{es: es}
}

func permutations(n int) [][]int {
	var res [][]int
	var rec func(cur []int, used []bool)
	rec = func(cur []int, used []bool) {
		if len(cur) == n {
			res = append(res, append([]int{}, cur...))
			return
		}
		for i := 0; i < n; i++ {
			if !used[i] {
				used[i] = true
				rec(append(cur, i), used)
				used[i] = false
			}
		}
	}
	rec(nil, make([]bool, n))
	return res
}

func mapOf(v value) *omap {
	m, ok := v.(*omap)
	if !ok {
		panic(fmt.Sprintf("illegal map type: %T", v))
	}
	return m
}
