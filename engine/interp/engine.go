package interp

// Path exploration engine: decision-replay DFS over symbolic branches, obligations, models.

import (
	"fmt"
	"go/types"
	"os"
	"regexp"
	"sort"
	"strconv"
	"strings"
	"time"
)

// inconclusive is a panic payload that ends the current path as INCONCLUSIVE (never a violation).
type inconclusive struct{ reason string }

// pathEnd is a panic payload that ends the current path silently (infeasible assumption).
type pathEnd struct{ reason string }

type Decision struct {
	Taken  bool
	Forced bool  // only one side was feasible when first explored (no alternative)
	Val    int64 // candidate value of a concretisation decision (x == Val)
}

type NondetVar struct {
	Name string // harness-level name with occurrence suffix: n, n#1, ...
	SMT  string // SMT constant
	Kind types.BasicKind
}

type Violation struct {
	Harness string            `json:"harness"`
	Label   string            `json:"label"`
	Kind    string            `json:"kind"` // assert | panic | fatal
	Detail  string            `json:"detail,omitempty"`
	Model   map[string]string `json:"model"` // nondet name -> decimal (ints: signed value; float: bits; bool: 0/1)
	Order   []string          `json:"order"`
	Known   string            `json:"known,omitempty"` // id of the known finding whose region contains it
	Count   int               `json:"count"`
}

type Inconclusive struct {
	Harness string `json:"harness"`
	Reason  string `json:"reason"`
	Count   int    `json:"count"`
}

type ValidationTrace struct {
	Harness string            `json:"harness"`
	Model   map[string]string `json:"model"`
	Order   []string          `json:"order"`
	Observe []string          `json:"observe"` // "label=value" in order
	FSTrace string            `json:"fs_trace,omitempty"`
}

type KnownFinding struct {
	ID      string
	Harness string
	Label   string // obligation label (or panic label)
	Region  string // SMT-LIB Bool over v_<name> constants; "" = whole label
	What    string
}

type Result struct {
	Harness         string            `json:"harness"`
	Paths           int               `json:"paths"`
	PathsCompleted  int               `json:"paths_completed"`
	PathsPruned     int               `json:"paths_pruned"`
	Decisions       int               `json:"decisions"`
	Queries         int               `json:"queries"`
	SolverErrors    int               `json:"solver_errors"`
	SolverSeconds   float64           `json:"solver_s"`
	WallSeconds     float64           `json:"wall_s"`
	Obligations     int               `json:"obligations"`
	Discharged      int               `json:"discharged"`
	TrivialTrue     int               `json:"trivially_true"`
	NontrivialPaths int               `json:"nontrivial_paths"`
	Reach           map[string]int    `json:"reach"`
	Violations      []*Violation      `json:"violations"`
	Known           []*Violation      `json:"known"`
	Inconclusive    []*Inconclusive   `json:"inconclusive"`
	Assumptions     []string          `json:"assumptions"`
	Functions       map[string]int    `json:"functions"` // SSA function -> instruction count
	Samples         []string          `json:"samples"`
	Traces          []ValidationTrace `json:"traces"`
	Steps           int64             `json:"steps"`
	UnknownBranches int               `json:"unknown_branches"`
	Vacuous         bool              `json:"vacuous"`
	BudgetExceeded  bool              `json:"budget_exceeded"`
}

type Engine struct {
	S       *Solver
	Harness string
	Known   []KnownFinding

	prefix []Decision
	trace  []Decision
	work   [][]Decision

	nondet   []NondetVar
	asserted map[string]bool
	defCache map[string]string
	declared map[string]bool
	counts   map[string]int
	defs     int
	steps    int64
	pathObl  int
	observe  []obsItem
	pcNotes  []string

	fatalSeen     []string
	raceFound     []string
	choiceSig     []string       // harness-level choices taken on this path (menu entries, sizes): diversifies race candidates
	raceSigs      map[string]int // race label -> number of distinct choice signatures recorded
	raceKeys      []string
	curFrame      *frame
	lastPanicFn   string
	depth         int
	pendingVal    int64
	hasPendingVal bool

	FrontierTarget int
	ChunkPaths     int // stop after this many paths and leave the rest in Frontier (work sharing)
	Frontier       [][]Decision
	Initial        [][]Decision

	MaxSteps    int64
	MaxPaths    int
	MaxTraces   int
	Deadline    time.Time
	assumptions map[string]bool
	vioIndex    map[string]*Violation
	incIndex    map[string]*Inconclusive
	knownSeen   map[string]*Violation

	Res *Result
}

type obsItem struct {
	label string
	v     value
}

var eng *Engine

func NewEngine(s *Solver, harness string) *Engine {
	return &Engine{
		S: s, Harness: harness,
		MaxSteps: 4_000_000, MaxPaths: 200000, MaxTraces: 3,
		assumptions: map[string]bool{}, vioIndex: map[string]*Violation{}, incIndex: map[string]*Inconclusive{},
		knownSeen: map[string]*Violation{},
		Res:       &Result{Harness: harness, Reach: map[string]int{}, Functions: map[string]int{}},
	}
}

func (e *Engine) define(sort, expr string) string {
	if n, ok := e.defCache[expr]; ok {
		return n
	}
	defer func() { e.defCache[expr] = fmt.Sprintf("t!%d", e.defs) }()
	e.defs++
	n := fmt.Sprintf("t!%d", e.defs)
	e.S.Send(fmt.Sprintf("(define-fun %s () %s %s)", n, sort, expr))
	return n
}

func (e *Engine) assert(expr string) { e.S.Send("(assert " + expr + ")") }

func (e *Engine) checkWith(expr string) string {
	e.S.Send("(push)")
	e.S.Send("(assert " + expr + ")")
	r := e.S.CheckSat()
	e.S.Send("(pop)")
	return r
}

func splitNot(expr string) (string, bool) {
	neg := false
	for strings.HasPrefix(expr, "(not ") && strings.HasSuffix(expr, ")") {
		expr = expr[5 : len(expr)-1]
		neg = !neg
	}
	return expr, neg
}

// known reports whether the truth of expr is already fixed syntactically on this path.
func (e *Engine) known(expr string) (bool, bool) {
	base, neg := splitNot(expr)
	if v, ok := e.asserted[base]; ok {
		return v != neg, true
	}
	return false, false
}

func (e *Engine) remember(expr string, val bool) {
	base, neg := splitNot(expr)
	v := val != neg
	e.asserted[base] = v
	// cheap order/equality implications between syntactically related literals
	op, a, b, ok := splitBinary(base)
	if !ok {
		return
	}
	set := func(o, x, y string, t bool) {
		k := "(" + o + " " + x + " " + y + ")"
		if _, seen := e.asserted[k]; !seen {
			e.asserted[k] = t
		}
	}
	switch op {
	case "bvslt", "bvult", "fp.lt", "<":
		eq := map[string]string{"bvslt": "=", "bvult": "=", "fp.lt": "fp.eq", "<": "="}[op]
		if v {
			set(op, b, a, false)
			set(eq, a, b, false)
			set(eq, b, a, false)
		}
	case "=", "fp.eq":
		set(op, b, a, v)
		if v {
			for _, lt := range []string{"bvslt", "bvult", "fp.lt", "<"} {
				set(lt, a, b, false)
				set(lt, b, a, false)
			}
		}
	}
}

// splitBinary splits "(op A B)" into its parts (A, B balanced s-expressions).
func splitBinary(expr string) (op, a, b string, ok bool) {
	if len(expr) < 5 || expr[0] != '(' || expr[len(expr)-1] != ')' {
		return
	}
	in := expr[1 : len(expr)-1]
	sp := strings.IndexByte(in, ' ')
	if sp < 0 {
		return
	}
	op = in[:sp]
	rest := in[sp+1:]
	var parts []string
	depth, start := 0, 0
	for i := 0; i < len(rest); i++ {
		switch rest[i] {
		case '(':
			depth++
		case ')':
			depth--
		case ' ':
			if depth == 0 {
				parts = append(parts, rest[start:i])
				start = i + 1
			}
		}
	}
	parts = append(parts, rest[start:])
	if len(parts) != 2 || depth != 0 {
		return
	}
	return op, parts[0], parts[1], true
}

// Branch decides a symbolic condition; both feasible sides are explored (the other one later).
func (e *Engine) Branch(c *Sym) bool {
	if v, ok := e.known(c.E); ok {
		return v
	}
	r := e.branch(c)
	e.remember(c.E, r)
	return r
}

func (e *Engine) branch(c *Sym) bool {
	i := len(e.trace)
	if i < len(e.prefix) {
		d := e.prefix[i]
		e.trace = append(e.trace, d)
		if !d.Forced {
			if d.Taken {
				e.assert(c.E)
			} else {
				e.assert("(not " + c.E + ")")
			}
		}
		return d.Taken
	}
	if time.Now().After(e.Deadline) {
		panic(inconclusive{"time budget exceeded"})
	}
	rt := e.checkWith(c.E)
	var rf string
	if rt == "unsat" {
		rf = "sat" // the path condition is feasible, so the other side is
	} else {
		rf = e.checkWith("(not " + c.E + ")")
	}
	if rt == "unknown" || rf == "unknown" {
		e.Res.UnknownBranches++
	}
	tOK, fOK := rt != "unsat", rf != "unsat"
	switch {
	case tOK && fOK:
		if debugOn {
			debugf("two-sided branch: %s", truncate(c.E, 200))
		}
		alt := append(append([]Decision{}, e.trace...), Decision{Taken: false, Val: e.pendingVal})
		e.work = append(e.work, alt)
		e.trace = append(e.trace, Decision{Taken: true, Val: e.pendingVal})
		e.assert(c.E)
		e.Res.Decisions++
		return true
	case tOK:
		e.trace = append(e.trace, Decision{Taken: true, Forced: true, Val: e.pendingVal})
		return true
	case fOK:
		e.trace = append(e.trace, Decision{Taken: false, Forced: true, Val: e.pendingVal})
		return false
	}
	panic(pathEnd{"infeasible path condition"})
}

// truth forces a value that is bool or symbolic Bool into a concrete bool by branching.
func (e *Engine) truth(v value) bool {
	switch v := v.(type) {
	case bool:
		return v
	case *Sym:
		return e.Branch(v)
	}
	panic(fmt.Sprintf("truth: %T", v))
}

func (e *Engine) Assume(c value) {
	switch c := c.(type) {
	case bool:
		if !c {
			panic(pathEnd{"assumption false"})
		}
	case *Sym:
		if v, ok := e.known(c.E); ok {
			if !v {
				panic(pathEnd{"assumption contradicts the path condition"})
			}
			return
		}
		e.remember(c.E, true)
		if len(e.trace) < len(e.prefix) {
			// inside the replayed prefix the assumption was feasible before
			e.assert(c.E)
			return
		}
		e.assert(c.E)
		if r := e.S.CheckSat(); r == "unsat" {
			panic(pathEnd{"assumption infeasible"})
		}
	}
}

func (e *Engine) assumeSilently(c *Sym, note string) {
	e.assumptions[note] = true
	e.Assume(c)
}

func (e *Engine) noOverflow(r *Sym) {
	if !IntMode {
		return
	}
	inr := fmt.Sprintf("(and (<= %s %s) (<= %s %s))", minI64, r.E, r.E, maxI64)
	if len(e.trace) < len(e.prefix) {
		e.assert(inr)
		return
	}
	switch e.checkWith("(not " + inr + ")") {
	case "sat":
		e.noteInconclusive("int mode: int64 overflow is feasible inside the assumed ranges; excluded from the claim")
	case "unknown":
		e.noteInconclusive("int mode: overflow obligation undecided")
	}
	e.assert(inr)
}

func (e *Engine) divCheck(isZero *Sym) {
	if e.Branch(isZero) {
		panic("runtime error: integer divide by zero")
	}
}

func (e *Engine) panicCheck(c *Sym, msg string) {
	if e.Branch(c) {
		panic("runtime error: " + msg)
	}
}

func (e *Engine) noteInconclusive(reason string) {
	if ic, ok := e.incIndex[reason]; ok {
		ic.Count++
		return
	}
	ic := &Inconclusive{Harness: e.Harness, Reason: reason, Count: 1}
	e.incIndex[reason] = ic
	e.Res.Inconclusive = append(e.Res.Inconclusive, ic)
}

// Fresh declares a new nondeterministic input.
func (e *Engine) Fresh(name string, k types.BasicKind) value {
	n := e.counts[name]
	e.counts[name] = n + 1
	full := name
	if n > 0 {
		full = fmt.Sprintf("%s#%d", name, n)
	}
	smt := "v_" + sanitize(full)
	v := NondetVar{Name: full, SMT: smt, Kind: k}
	e.nondet = append(e.nondet, v)
	switch {
	case k == types.Float64 && !RealMode:
		e.S.Send(fmt.Sprintf("(declare-const %s (_ BitVec 64))", smt))
		return &Sym{K: k, E: "((_ to_fp 11 53) " + smt + ")"}
	case k == types.Float64:
		panic(inconclusive{"real mode: nondeterministic float (use an integer and convert)"})
	}
	e.S.Send(fmt.Sprintf("(declare-const %s %s)", smt, sortOf(k)))
	if isMathInt(k) {
		e.assert(fmt.Sprintf("(and (<= %s %s) (<= %s %s))", minI64, smt, smt, maxI64))
	}
	return &Sym{K: k, E: smt}
}

func sanitize(s string) string {
	var b strings.Builder
	for _, c := range s {
		switch {
		case c >= 'a' && c <= 'z', c >= 'A' && c <= 'Z', c >= '0' && c <= '9', c == '_':
			b.WriteRune(c)
		case c == '#':
			b.WriteString("__")
		default:
			b.WriteRune('_')
		}
	}
	return b.String()
}

// model returns the values of all nondet variables of this path (after a sat answer).
func (e *Engine) model() (map[string]string, []string) {
	names := make([]string, len(e.nondet))
	for i, v := range e.nondet {
		names[i] = v.SMT
	}
	vals, err := e.S.GetValues(names)
	m := map[string]string{}
	var order []string
	if err != nil {
		return m, order
	}
	for _, v := range e.nondet {
		m[v.Name] = decodeModelValue(vals[v.SMT], v.Kind)
		order = append(order, v.Name)
	}
	if vfs != nil && len(vfs.order) > 0 {
		// order in which the "processes" performed their hooked file-system operations
		parts := make([]string, len(vfs.order))
		for i, t := range vfs.order {
			parts[i] = strconv.Itoa(t)
		}
		m["__ops"] = strings.Join(parts, ",")
	}
	return m, order
}

func decodeModelValue(s string, k types.BasicKind) string {
	s = strings.TrimSpace(s)
	switch {
	case s == "true":
		return "1"
	case s == "false":
		return "0"
	case strings.HasPrefix(s, "#x"):
		u, _ := strconv.ParseUint(s[2:], 16, 64)
		return signedString(u, k)
	case strings.HasPrefix(s, "#b"):
		u, _ := strconv.ParseUint(s[2:], 2, 64)
		return signedString(u, k)
	case strings.HasPrefix(s, "(_ bv"):
		f := strings.Fields(s[5:])
		u, _ := strconv.ParseUint(f[0], 10, 64)
		return signedString(u, k)
	case strings.HasPrefix(s, "(-"):
		t := strings.TrimSpace(strings.TrimSuffix(strings.TrimPrefix(s, "(-"), ")"))
		return "-" + t
	}
	return s
}

func signedString(u uint64, k types.BasicKind) string {
	if k == types.Float64 {
		return strconv.FormatUint(u, 10)
	}
	w := kindWidth(k)
	if kindSigned(k) {
		if w < 64 {
			if u&(1<<uint(w-1)) != 0 {
				return strconv.FormatInt(int64(u)-(1<<uint(w)), 10)
			}
			return strconv.FormatUint(u, 10)
		}
		return strconv.FormatInt(int64(u), 10)
	}
	return strconv.FormatUint(u, 10)
}

var smtIdent = regexp.MustCompile(`v_[A-Za-z0-9_]+`)

// regionUsable reports whether every v_ constant of the region is declared on this path.
func (e *Engine) regionUsable(region string) bool {
	decl := map[string]bool{}
	for _, v := range e.nondet {
		decl[v.SMT] = true
	}
	for _, id := range smtIdent.FindAllString(region, -1) {
		if !decl[id] {
			return false
		}
	}
	return true
}

func (e *Engine) knownFor(label string) []KnownFinding {
	var r []KnownFinding
	for _, k := range e.Known {
		if k.Harness == e.Harness && k.Label == label {
			r = append(r, k)
		}
	}
	return r
}

// Assert is an obligation: pc ∧ ¬c must be unsatisfiable.
func (e *Engine) Assert(label string, c value) {
	e.Res.Obligations++
	e.pathObl++
	if b, ok := c.(bool); ok && b {
		e.Res.TrivialTrue++
		e.Res.Discharged++
		return
	}
	neg := "true"
	if s, ok := c.(*Sym); ok {
		if v, ok := e.known(s.E); ok && v {
			e.Res.Discharged++
			return
		}
		neg = "(not " + s.E + ")"
	}
	e.obligation(label, "assert", "", neg)
	if s, ok := c.(*Sym); ok {
		e.remember(s.E, true)
		e.assert(s.E)
		if e.S.CheckSat() == "unsat" {
			panic(pathEnd{"assertion fails on the whole path"})
		}
	} else {
		panic(pathEnd{"assertion concretely false"})
	}
}

// vioKey: violations are recorded once per label; race candidates once per label and harness-level
// choice signature (at most 6 signatures per label), because whether the Go race detector can
// confirm a candidate natively depends on the query shape and not only on the racing functions.
func (e *Engine) vioKey(label, kind string) string {
	if kind != "race" {
		return label + "|"
	}
	sig := strings.Join(e.choiceSig, ",")
	key := label + "#" + sig + "|"
	if _, ok := e.vioIndex[key]; ok {
		return key
	}
	if e.raceSigs == nil {
		e.raceSigs = map[string]int{}
	}
	if e.raceSigs[label] >= 6 {
		return label + "|"
	}
	return key
}

// obligation checks pc ∧ neg (neg is the negated property as SMT Bool) w.r.t. known findings.
func (e *Engine) obligation(label, kind, detail, neg string) {
	known := e.knownFor(label)
	var usable []KnownFinding
	for _, k := range known {
		if k.Region == "" || e.regionUsable(k.Region) {
			usable = append(usable, k)
		}
	}
	outside := neg
	if len(usable) > 0 {
		parts := []string{neg}
		for _, k := range usable {
			r := k.Region
			if r == "" {
				r = "true"
			}
			parts = append(parts, "(not "+r+")")
		}
		outside = "(and " + strings.Join(parts, " ") + ")"
	}
	e.S.Send("(push)")
	e.S.Send("(assert " + outside + ")")
	r := e.S.CheckSat()
	switch r {
	case "sat":
		var m map[string]string
		var order []string
		if _, dup := e.vioIndex[e.vioKey(label, kind)]; !dup {
			m, order = e.model()
		}
		e.S.Send("(pop)")
		e.recordViolation(label, kind, detail, m, order, "")
	case "unsat":
		e.S.Send("(pop)")
		if len(usable) == 0 {
			e.Res.Discharged++
		}
	default:
		e.S.Send("(pop)")
		e.noteInconclusive(fmt.Sprintf("obligation %q undecided by the solver (unknown/timeout)", label))
	}
	for _, k := range usable {
		reg := k.Region
		if reg == "" {
			reg = "true"
		}
		e.S.Send("(push)")
		e.S.Send("(assert (and " + neg + " " + reg + "))")
		r := e.S.CheckSat()
		if r == "sat" {
			var m map[string]string
			var order []string
			if _, dup := e.knownSeen[label+"|"+k.ID]; !dup {
				m, order = e.model()
			}
			e.S.Send("(pop)")
			e.recordViolation(label, kind, detail, m, order, k.ID)
		} else {
			e.S.Send("(pop)")
		}
	}
}

func (e *Engine) recordViolation(label, kind, detail string, m map[string]string, order []string, known string) {
	key := label + "|" + known
	if known != "" {
		if v, ok := e.knownSeen[key]; ok {
			v.Count++
			return
		}
		v := &Violation{Harness: e.Harness, Label: label, Kind: kind, Detail: detail, Model: m, Order: order, Known: known, Count: 1}
		e.knownSeen[key] = v
		e.Res.Known = append(e.Res.Known, v)
		return
	}
	if known == "" {
		key = e.vioKey(label, kind)
	}
	if v, ok := e.vioIndex[key]; ok {
		v.Count++
		return
	}
	if kind == "race" && key != label+"|" {
		e.raceSigs[label]++
		if _, ok := e.vioIndex[label+"|"]; !ok {
			defer func() { e.vioIndex[label+"|"] = e.vioIndex[key] }()
		}
	}
	if vfs != nil && len(vfs.ops) > 0 {
		detail += " fs-trace: " + strings.Join(vfs.ops, " ")
	}
	v := &Violation{Harness: e.Harness, Label: label, Kind: kind, Detail: detail, Model: m, Order: order, Count: 1}
	e.vioIndex[key] = v
	e.Res.Violations = append(e.Res.Violations, v)
}

// pathPanicked is called when the harness ended with an uncaught panic of the code under test.
func (e *Engine) pathPanicked(label, detail string) {
	e.Res.Obligations++
	e.obligation(label, "panic", detail, "true")
}

func (e *Engine) Reach(label string) { e.Res.Reach[label]++ }

func (e *Engine) Observe(label string, v value) {
	e.observe = append(e.observe, obsItem{label, v})
}

// finishPath records a validation trace for completed paths (first MaxTraces).
func (e *Engine) finishPath() {
	if len(e.Res.Traces) >= e.MaxTraces || len(e.observe) == 0 {
		return
	}
	if e.S.CheckSat() != "sat" {
		return
	}
	m, order := e.model()
	// evaluate observed symbolic values under the same model
	var names []string
	for i, o := range e.observe {
		if s, ok := o.v.(*Sym); ok {
			n := fmt.Sprintf("obs!%d", i)
			e.S.Send(fmt.Sprintf("(define-fun %s () %s %s)", n, sortOf(s.K), s.E))
			names = append(names, n)
		}
	}
	// a second check-sat is needed after new definitions; pin the model first
	e.S.Send("(push)")
	for _, v := range e.nondet {
		if val, ok := m[v.Name]; ok {
			e.assert(fmt.Sprintf("(= %s %s)", v.SMT, modelLit(val, v.Kind)))
		}
	}
	var vals map[string]string
	if e.S.CheckSat() == "sat" {
		vals, _ = e.S.GetValues(names)
	}
	e.S.Send("(pop)")
	if vals == nil && len(names) > 0 {
		return
	}
	tr := ValidationTrace{Harness: e.Harness, Model: m, Order: order}
	if vfs != nil {
		tr.FSTrace = strings.Join(vfs.ops, " ")
	}
	for i, o := range e.observe {
		var sv string
		switch x := o.v.(type) {
		case *Sym:
			raw := vals[fmt.Sprintf("obs!%d", i)]
			if kindIsFloat(x.K) && !RealMode {
				sv = "float:" + raw
			} else {
				sv = decodeModelValue(raw, x.K)
			}
		case bool:
			if x {
				sv = "1"
			} else {
				sv = "0"
			}
		case string:
			sv = "s:" + x
		default:
			if kindIsInt(kindOf(x)) {
				if kindSigned(kindOf(x)) {
					sv = strconv.FormatInt(asInt64(x), 10)
				} else {
					sv = strconv.FormatUint(uint64(asInt64(x)), 10)
				}
			} else {
				sv = fmt.Sprint(x)
			}
		}
		tr.Observe = append(tr.Observe, o.label+"="+sv)
	}
	e.Res.Traces = append(e.Res.Traces, tr)
}

func modelLit(val string, k types.BasicKind) string {
	switch {
	case k == types.Bool:
		if val == "1" {
			return "true"
		}
		return "false"
	case k == types.Float64:
		u, _ := strconv.ParseUint(val, 10, 64)
		return bvLit(64, u)
	case isMathInt(k):
		i, _ := strconv.ParseInt(val, 10, 64)
		return intLit(i)
	case kindSigned(k):
		i, _ := strconv.ParseInt(val, 10, 64)
		return bvLit(kindWidth(k), uint64(i))
	default:
		u, _ := strconv.ParseUint(val, 10, 64)
		return bvLit(kindWidth(k), u)
	}
}

// Explore runs fn repeatedly until the decision tree is exhausted.
//
// With FrontierTarget > 0 the tree is expanded breadth-first until that many prefixes are
// pending; they are left in Frontier for other workers (phase 1 of a parallel run).
func (e *Engine) Explore(run func()) {
	t0 := time.Now()
	startPaths := e.Res.Paths
	e.Frontier = nil
	if e.Initial != nil {
		e.work = e.Initial
	} else {
		e.work = [][]Decision{nil}
	}
	for len(e.work) > 0 {
		if e.FrontierTarget > 0 && len(e.work) >= e.FrontierTarget {
			e.Frontier = e.work
			e.work = nil
			break
		}
		if e.ChunkPaths > 0 && e.Res.Paths-startPaths >= e.ChunkPaths {
			e.Frontier = e.work
			e.work = nil
			break
		}
		if e.Res.Paths >= e.MaxPaths || time.Now().After(e.Deadline) {
			e.Res.BudgetExceeded = true
			e.noteInconclusive(fmt.Sprintf("exploration budget exceeded with %d pending prefixes", len(e.work)))
			break
		}
		var p []Decision
		if e.FrontierTarget > 0 {
			p = e.work[0]
			e.work = e.work[1:]
		} else {
			p = e.work[len(e.work)-1]
			e.work = e.work[:len(e.work)-1]
		}
		e.runPath(p, run)
	}
	e.Res.WallSeconds += time.Since(t0).Seconds()
	e.Res.Queries = e.S.Queries
	e.Res.SolverErrors = e.S.Errors
	e.Res.SolverSeconds = e.S.Time.Seconds()
	e.Res.Assumptions = e.Res.Assumptions[:0]
	for a := range e.assumptions {
		e.Res.Assumptions = append(e.Res.Assumptions, a)
	}
	sort.Strings(e.Res.Assumptions)
	if e.Res.PathsCompleted == 0 && len(e.Res.Violations) == 0 && len(e.Res.Known) == 0 {
		e.Res.Vacuous = true
	}
}

func (e *Engine) runPath(prefix []Decision, run func()) {
	e.prefix = prefix
	e.trace = e.trace[:0]
	e.nondet = e.nondet[:0]
	e.counts = map[string]int{}
	e.asserted = map[string]bool{}
	e.defCache = map[string]string{}
	e.defs = 0
	e.steps = 0
	e.pathObl = 0
	e.depth = 0
	e.fatalSeen = e.fatalSeen[:0]
	e.raceFound, e.raceKeys = nil, nil
	e.choiceSig = e.choiceSig[:0]
	e.lastPanicFn = ""
	e.observe = e.observe[:0]
	e.Res.Paths++
	e.S.Send("(push)")
	defer func() {
		e.Res.Steps += e.steps
		r := recover()
		func() {
			// solver interaction below may itself fail; never let it escape
			defer func() { recover() }()
			for i, rmsg := range e.raceFound {
				if _, isInc := r.(inconclusive); !isInc {
					e.Res.Obligations++
					e.obligation("race@"+e.raceKeys[i], "race", rmsg, "true")
				}
			}
			if len(e.fatalSeen) > 0 {
				if _, isInc := r.(inconclusive); !isInc {
					e.pathPanicked("fatal-error", "csvq recovered a panic and built a Fatal Error: "+e.fatalSeen[0])
				}
			}
			switch p := r.(type) {
			case nil:
				e.Res.PathsCompleted++
				if e.pathObl > 0 {
					e.Res.NontrivialPaths++
				}
				e.finishPath()
				e.sample("completed")
			case processCrash:
				e.Res.PathsCompleted++
			case deadlock:
				e.noteInconclusive("all interpreted goroutines blocked (deadlock in the model)")
			case pathEnd:
				e.Res.PathsPruned++
			case inconclusive:
				e.noteInconclusive(p.reason)
			case targetPanic:
				e.pathPanicked(panicLabel(e.lastPanicFn), "panic: "+truncate(toString(p.v), 200))
				e.sample("panic")
			case exitPanic:
				e.Res.PathsCompleted++
			default:
				msg := fmt.Sprint(p)
				if isRuntimePanic(p) {
					e.pathPanicked(panicLabel(e.lastPanicFn), truncate(msg, 200))
					e.sample("panic")
				} else {
					e.noteInconclusive("interpreter: " + truncate(msg, 300) + " in " + e.lastPanicFn)
				}
			}
		}()
		e.S.Send("(pop)")
	}()
	run()
}

func (e *Engine) sample(kind string) {
	if len(e.Res.Samples) >= 6 {
		return
	}
	var b strings.Builder
	fmt.Fprintf(&b, "%s path: %d symbolic decisions [", kind, len(e.trace))
	for i, d := range e.trace {
		if i > 24 {
			b.WriteString("…")
			break
		}
		switch {
		case d.Forced && d.Taken:
			b.WriteString("t")
		case d.Forced:
			b.WriteString("f")
		case d.Taken:
			b.WriteString("T")
		default:
			b.WriteString("F")
		}
	}
	fmt.Fprintf(&b, "], %d nondet inputs, %d obligations, %d SSA steps", len(e.nondet), e.pathObl, e.steps)
	e.Res.Samples = append(e.Res.Samples, b.String())
}

func truncate(s string, n int) string {
	if len(s) > n {
		return s[:n] + "…"
	}
	return s
}

func panicLabel(fn string) string { return "panic@" + fn }

func isRuntimePanic(p interface{}) bool {
	switch p := p.(type) {
	case error:
		// Go runtime errors raised by the interpreter's own indexing mirror target panics;
		// faults that mention interpreter types are interpreter bugs (inconclusive).
		return !strings.Contains(p.Error(), "interp.")
	case string:
		return strings.HasPrefix(p, "runtime error") || strings.Contains(p, "interface conversion") ||
			strings.Contains(p, "nil pointer") || strings.Contains(p, "method invoked on nil interface") ||
			strings.Contains(p, "called using nil") || strings.Contains(p, "call of nil function") ||
			strings.Contains(p, "array length is greater")
	}
	return false
}

var debugOn = os.Getenv("GOSMT_DEBUG") != ""

func debugf(format string, args ...interface{}) {
	if debugOn {
		fmt.Fprintf(os.Stderr, format+"\n", args...)
	}
}
