package interp

// Cooperative scheduler for interpreted goroutines.  Exactly one interpreted goroutine runs at a
// time (baton passing on real goroutines); control can change hands only at synchronisation
// operations.  With ExploreSchedules the choice of the next runnable goroutine is a fork
// variable, otherwise the policy is "keep running, then lowest id".

import (
	"fmt"
	"go/token"
	"go/types"

	"golang.org/x/tools/go/ssa"
)

type gthread struct {
	id    int
	wake  chan struct{}
	done  bool
	ready func() bool // nil = runnable
	vc    []int       // vector clock (race detector): fork/join, channels, once, atomics, pool hand-off
	locks map[*value]bool // mutexes currently held (lockset)
	group int             // the "process" (verifSpawn) this goroutine belongs to; 0 = the harness itself
}

type killSignal struct{}

type scheduler struct {
	threads   []*gthread
	cur       *gthread
	abort     interface{} // panic payload raised in a child goroutine, re-raised in the main one
	killed      bool
	progress    int // number of synchronisation points passed by any thread
	decisions   int
	preemptions int
	groups      bool // processes were started with verifSpawn: see dispatch
	atProc      bool // the current scheduling point is a process-level one (file-system operation, sleep, explicit yield)
}

// nextSpawnIsProcess: the goroutine about to be spawned is a "process" (verifSpawn)
var nextSpawnIsProcess bool

var (
	sched            *scheduler
	ExploreSchedules bool
	MaxSchedChoices  = 64
	MaxPreemptions   = 2
)

func newScheduler() *scheduler {
	main := &gthread{id: 0, wake: make(chan struct{}, 1), vc: []int{1}}
	return &scheduler{threads: []*gthread{main}, cur: main}
}

func (s *scheduler) runnable() []*gthread {
	var r []*gthread
	for _, t := range s.threads {
		if !t.done && (t.ready == nil || t.ready()) {
			r = append(r, t)
		}
	}
	return r
}

// yield is called by the running thread at a synchronisation point.  ready==nil means the
// thread can continue; otherwise it blocks until ready() holds.
func (s *scheduler) yield(ready func() bool) {
	s.progress++
	me := s.cur
	me.ready = ready
	s.dispatch(me)
	me.ready = nil
}

// dispatch picks the next thread and transfers the baton; returns when `me` is scheduled again.
func (s *scheduler) dispatch(me *gthread) {
	rs := s.runnable()
	if len(rs) == 0 {
		if me.done {
			// the last thread finished while others are blocked forever: wake main if it is blocked
			for _, t := range s.threads {
				if !t.done {
					s.abort = inconclusiveOrDeadlock()
					s.cur = t
					t.wake <- struct{}{}
					return
				}
			}
			return
		}
		panic(deadlock{})
	}
	next := rs[0]
	// default policy: continue with the current thread if it is runnable
	meRunnable := false
	for _, t := range rs {
		if t == me {
			next = me
			meRunnable = true
		}
	}
	atProc := s.atProc
	s.atProc = false
	grouped := false
	if s.groups && !atProc {
		// Processes share nothing but the file system, so the order of one process's internal
		// synchronisation (channels, mutexes, goroutine starts) relative to the steps of another
		// process is unobservable: only file-system operations, sleeps and explicit yields are
		// scheduling points between processes.  Inside a process one fixed order is followed:
		// keep running, else the first runnable goroutine of the same process.
		if meRunnable {
			grouped = true
		} else {
			for _, t := range rs {
				if t.group == me.group {
					next, grouped = t, true
					break
				}
			}
		}
		if grouped {
			eng.assumptions["schedules: goroutines inside one process follow one fixed order (their interleaving is not observable by another process); processes interleave at file-system operations, sleeps and explicit yields"] = true
		}
	}
	if !grouped && ExploreSchedules && len(rs) > 1 && !s.killed && s.abort == nil {
		// preemption-bounded exploration: staying on the current thread is free, switching away
		// from a runnable thread costs one preemption; when the current thread blocks or ends,
		// the choice among the others is free (but counted against MaxSchedChoices)
		var cands []*gthread
		if meRunnable {
			cands = append(cands, me)
			if s.preemptions < MaxPreemptions {
				for _, t := range rs {
					if t != me {
						cands = append(cands, t)
					}
				}
			}
		} else if s.decisions < MaxSchedChoices {
			cands = rs
		} else {
			cands = rs[:1]
		}
		if len(cands) > 1 {
			s.decisions++
			c := eng.Choice("sched", len(cands))
			next = cands[c]
			if meRunnable && next != me {
				s.preemptions++
			}
			eng.assumptions[fmt.Sprintf("schedules: context switches only at synchronisation / file-system operations; at most %d preemptions per path", MaxPreemptions)] = true
		} else {
			next = cands[0]
		}
	}
	if next == me {
		return
	}
	s.cur = next
	next.wake <- struct{}{}
	if me.done {
		return
	}
	<-me.wake
	s.cur = me
	if s.killed {
		panic(killSignal{})
	}
	if s.abort != nil && me.id == 0 {
		p := s.abort
		s.abort = nil
		panic(p)
	}
}

type deadlock struct{}

func inconclusiveOrDeadlock() interface{} { return deadlock{} }

func spawnGoroutine(fr *frame, instr *ssa.Go, fn value, args []value) {
	pos := token.NoPos
	if instr != nil {
		pos = instr.Pos()
	}
	s := sched
	parent := s.cur
	t := &gthread{id: len(s.threads), wake: make(chan struct{}, 1), group: parent.group}
	procSpawn := nextSpawnIsProcess
	if procSpawn {
		nextSpawnIsProcess = false
		t.group = t.id
		s.groups = true
	}
	// happens-before: child starts with the parent's clock
	t.vc = make([]int, len(s.threads)+1)
	copy(t.vc, parent.vc)
	t.vc[t.id] = 1
	parent.tick()
	s.threads = append(s.threads, t)
	go func() {
		<-t.wake
		s.cur = t
		defer func() {
			p := recover()
			t.done = true
			switch p.(type) {
			case nil, killSignal, processCrash:
			default:
				if s.abort == nil && !s.killed {
					if _, isT := p.(targetPanic); isT {
						s.abort = p
					} else {
						s.abort = p
					}
				}
			}
			if s.killed {
				s.killNext()
				return
			}
			toMain := func() bool {
				// hand the baton to main so that it can re-raise
				m := s.threads[0]
				if !m.done {
					m.ready = nil
					s.cur = m
					m.wake <- struct{}{}
					return true
				}
				return false
			}
			if s.abort != nil && toMain() {
				return
			}
			// choosing the next thread may itself end the path (budget, infeasible choice)
			func() {
				defer func() {
					if r := recover(); r != nil {
						if _, isKill := r.(killSignal); isKill {
							return
						}
						if s.abort == nil {
							s.abort = r
						}
						toMain()
					}
				}()
				s.dispatch(t)
			}()
		}()
		if s.killed {
			panic(killSignal{})
		}
		call(fr.i, nil, pos, fn, args)
	}()
	// the spawn itself is a scheduling point
	s.atProc = procSpawn
	s.yield(nil)
}

// killAll unwinds every unfinished child goroutine at the end of a path.
func (s *scheduler) killAll() {
	s.killed = true
	s.killNext()
}

func (s *scheduler) killNext() {
	for _, t := range s.threads {
		if t.id != 0 && !t.done {
			t.done = true // will not be chosen again
			t.wake <- struct{}{}
			// it panics with killSignal, its deferred handler calls killNext for the rest
			return
		}
	}
}

func (t *gthread) tick() {
	for len(t.vc) <= t.id {
		t.vc = append(t.vc, 0)
	}
	t.vc[t.id]++
}

func vcJoin(dst *[]int, src []int) {
	for len(*dst) < len(src) {
		*dst = append(*dst, 0)
	}
	for i, v := range src {
		if v > (*dst)[i] {
			(*dst)[i] = v
		}
	}
}

// syncObj carries the vector clock released by the last releasing operation on a
// synchronisation object (mutex, waitgroup, channel, once, atomic cell).
type syncObj struct{ vc []int }

var syncObjs map[interface{}]*syncObj

func syncFor(key interface{}) *syncObj {
	o := syncObjs[key]
	if o == nil {
		o = &syncObj{}
		syncObjs[key] = o
	}
	return o
}

func acquire(key interface{}) {
	t := sched.cur
	vcJoin(&t.vc, syncFor(key).vc)
}

// Mutexes do not contribute happens-before edges in the detector: which thread gets a lock first
// depends on the schedule, and an ordering that exists only in the explored schedule would hide
// races that another schedule exposes.  Instead each access remembers the locks held (lockset);
// two accesses race if they are unordered by the hard edges and hold no common lock.
func acquireLock(p *value) {
	t := sched.cur
	if t.locks == nil {
		t.locks = map[*value]bool{}
	}
	t.locks[p] = true
}

func releaseLock(p *value) {
	t := sched.cur
	delete(t.locks, p)
}

func heldLocks() []*value {
	t := sched.cur
	if len(t.locks) == 0 {
		return nil
	}
	out := make([]*value, 0, len(t.locks))
	for p := range t.locks {
		out = append(out, p)
	}
	return out
}

func commonLock(a []*value, held map[*value]bool) bool {
	for _, p := range a {
		if held[p] {
			return true
		}
	}
	return false
}

func release(key interface{}) {
	t := sched.cur
	o := syncFor(key)
	vcJoin(&o.vc, t.vc)
	t.tick()
}

// ---------------------------------------------------------------------------------------
// Channels

type gchan struct {
	buf    []value
	vcs    [][]int // clock of the sender of each buffered message (happens-before is per message)
	cvc    []int   // clock of the closer
	cap    int
	closed bool
}

func (c *gchan) push(v value) {
	c.buf = append(c.buf, v)
	var vc []int
	if sched != nil && sched.cur != nil {
		t := sched.cur
		vc = append([]int{}, t.vc...)
		t.tick()
	}
	c.vcs = append(c.vcs, vc)
}

func (c *gchan) pop() value {
	v := c.buf[0]
	c.buf = c.buf[1:]
	if len(c.vcs) > 0 {
		if sched != nil && sched.cur != nil && c.vcs[0] != nil {
			vcJoin(&sched.cur.vc, c.vcs[0])
		}
		c.vcs = c.vcs[1:]
	}
	return v
}

func (c *gchan) acquireClose() {
	if sched != nil && sched.cur != nil && c.cvc != nil {
		vcJoin(&sched.cur.vc, c.cvc)
	}
}

func newChan(size int64) *gchan {
	c := &gchan{cap: int(size)}
	if c.cap == 0 {
		c.cap = 1
		eng.assumptions["unbuffered channels are modelled with capacity 1"] = true
	}
	return c
}

func chanSend(ch value, v value) {
	c, _ := ch.(*gchan)
	if c == nil {
		sched.yield(func() bool { return false })
	}
	sched.yield(func() bool { return c.closed || len(c.buf) < c.cap })
	if c.closed {
		panic(targetPanic{iface{t: types.Typ[types.String], v: "send on closed channel"}})
	}
	c.push(v)
}

func chanRecv(ch value, elem types.Type) (value, bool) {
	c, _ := ch.(*gchan)
	if c == nil {
		sched.yield(func() bool { return false })
	}
	sched.yield(func() bool { return c.closed || len(c.buf) > 0 })
	if len(c.buf) > 0 {
		return c.pop(), true
	}
	c.acquireClose()
	return zero(elem), false
}

func chanClose(ch value) {
	c, _ := ch.(*gchan)
	if c == nil {
		panic("runtime error: close of nil channel")
	}
	if c.closed {
		panic("runtime error: close of closed channel")
	}
	if sched != nil && sched.cur != nil {
		c.cvc = append([]int{}, sched.cur.vc...)
		sched.cur.tick()
	}
	c.closed = true
	sched.yield(nil)
}

var selectPassed = map[*ssa.Select]map[int]int{}

func doSelect(fr *frame, instr *ssa.Select) value {
	type st struct {
		c    *gchan
		send bool
		v    value
	}
	var states []st
	for _, s := range instr.States {
		c, _ := fr.get(s.Chan).(*gchan)
		x := st{c: c, send: s.Dir == types.SendOnly}
		if s.Send != nil {
			x.v = fr.get(s.Send)
		}
		states = append(states, x)
	}
	readyIdx := func() []int {
		var r []int
		for i, s := range states {
			if s.c == nil {
				continue
			}
			if s.send {
				if s.c.closed || len(s.c.buf) < s.c.cap {
					r = append(r, i)
				}
			} else if s.c.closed || len(s.c.buf) > 0 {
				r = append(r, i)
			}
		}
		return r
	}
	if instr.Blocking {
		sched.yield(func() bool { return len(readyIdx()) > 0 })
	} else {
		sched.yield(nil)
	}
	rs := readyIdx()
	chosen := -1
	recvOk := false
	var recv value
	if len(rs) > 0 {
		k := 0
		if len(rs) > 1 {
			// select is fair: a case that was ready and passed over twice at this statement is
			// taken now (Go chooses uniformly at random among the ready cases, so it is starved
			// for ever with probability 0)
			forced := -1
			pass := selectPassed[instr]
			if pass == nil {
				pass = map[int]int{}
				selectPassed[instr] = pass
			}
			for j, ci := range rs {
				if pass[ci] >= 2 {
					forced = j
					break
				}
			}
			if forced >= 0 {
				k = forced
				eng.assumptions["select fairness: a case that stays ready is chosen at the latest the third time the select statement runs"] = true
			} else {
				k = eng.Choice("select", len(rs))
			}
			for _, ci := range rs {
				if ci == rs[k] {
					pass[ci] = 0
				} else {
					pass[ci]++
				}
			}
		}
		chosen = rs[k]
		s := states[chosen]
		if s.send {
			if s.c.closed {
				panic(targetPanic{iface{t: types.Typ[types.String], v: "send on closed channel"}})
			}
			s.c.push(s.v)
		} else {
			if len(s.c.buf) > 0 {
				recv, recvOk = s.c.pop(), true
			} else {
				s.c.acquireClose()
			}
		}
	}
	r := tuple{chosen, recvOk}
	for i, s := range instr.States {
		if s.Dir == types.RecvOnly {
			var v value
			if i == chosen && recvOk {
				v = recv
			} else {
				v = zero(s.Chan.Type().Underlying().(*types.Chan).Elem())
			}
			r = append(r, v)
		}
	}
	return r
}


// sleepYield models a thread that sleeps for a while (time.Sleep, a timer in a retry loop): it lets
// the other threads run and resumes once one of them has made progress (or none can run).
func (s *scheduler) sleepYield() {
	if len(s.threads) <= 1 {
		return
	}
	me := s.cur
	start := s.progress
	s.atProc = true
	s.yield(func() bool {
		if s.progress > start+1 {
			return true
		}
		for _, t := range s.threads {
			if t != me && !t.done && (t.ready == nil || t.ready()) {
				return false
			}
		}
		return true
	})
}
