package interp

// Symbolic scalars and strings.
//
// A *Sym is an SMT term standing for a Go scalar of basic kind K.  Shapes (pointers, slice
// headers, dynamic types, string lengths) stay concrete; only leaves are symbolic.

import (
	"fmt"
	"go/token"
	"go/types"
	"math"
	"math/big"
	"strconv"
	"strings"
)

type Sym struct {
	K types.BasicKind
	E string // SMT-LIB expression (short, or the name of a define-fun)
	// Finite: a float known to be neither NaN nor infinite (result of an int->float conversion);
	// lets math.IsNaN/IsInf answer without an expensive to_fp query.
	Finite bool
	// IntE: in real mode, the Int-sorted term this float equals (set for integral values), so that
	// arithmetic on integral floats stays in the integer theory and matches integer arithmetic
	// syntactically instead of through to_int/to_real reasoning.
	IntE string
}

// integralOf returns the Int term of an integral real-mode float operand.
func integralOf(v value) (string, bool) {
	switch x := v.(type) {
	case *Sym:
		if x.IntE != "" {
			return x.IntE, true
		}
	case float64:
		if x == math.Trunc(x) && math.Abs(x) < 1<<53 {
			return intLit(int64(x)), true
		}
	}
	return "", false
}

func realOfInt(k types.BasicKind, ie string) *Sym {
	if len(ie) > 160 && eng != nil {
		ie = eng.define("Int", ie)
	}
	return &Sym{K: k, E: "(to_real " + ie + ")", IntE: ie, Finite: true}
}

// truncDivInt is Go's truncated integer division on Int terms.
func truncDivInt(a, b string) string {
	return fmt.Sprintf("(ite (= (>= %s 0) (>= %s 0)) (div (abs %s) (abs %s)) (- (div (abs %s) (abs %s))))", a, b, a, b, a, b)
}

func (s *Sym) String() string { return "sym<" + s.E + ">" }

// Modes (set per harness run).
var (
	IntMode  bool // int/int64 are mathematical Ints with overflow obligations
	RealMode bool // float64 are exact Reals (only valid under the harness's exactness argument)
)

func isSym(v value) bool { _, ok := v.(*Sym); return ok }

func kindOf(v value) types.BasicKind {
	switch v := v.(type) {
	case bool:
		return types.Bool
	case int:
		return types.Int
	case int8:
		return types.Int8
	case int16:
		return types.Int16
	case int32:
		return types.Int32
	case int64:
		return types.Int64
	case uint:
		return types.Uint
	case uint8:
		return types.Uint8
	case uint16:
		return types.Uint16
	case uint32:
		return types.Uint32
	case uint64:
		return types.Uint64
	case uintptr:
		return types.Uintptr
	case float32:
		return types.Float32
	case float64:
		return types.Float64
	case *Sym:
		return v.K
	}
	return types.Invalid
}

func kindWidth(k types.BasicKind) int {
	switch k {
	case types.Int8, types.Uint8:
		return 8
	case types.Int16, types.Uint16:
		return 16
	case types.Int32, types.Uint32:
		return 32
	case types.Int, types.Int64, types.Uint, types.Uint64, types.Uintptr:
		return 64
	}
	return 0
}

func kindSigned(k types.BasicKind) bool {
	switch k {
	case types.Int, types.Int8, types.Int16, types.Int32, types.Int64:
		return true
	}
	return false
}

func kindIsInt(k types.BasicKind) bool { return kindWidth(k) > 0 }

func kindIsFloat(k types.BasicKind) bool { return k == types.Float64 || k == types.Float32 }

// isMathInt reports whether kind k is represented by the SMT Int sort in the current mode.
func isMathInt(k types.BasicKind) bool {
	return IntMode && (k == types.Int || k == types.Int64)
}

func sortOf(k types.BasicKind) string {
	switch {
	case k == types.Bool:
		return "Bool"
	case isMathInt(k):
		return "Int"
	case kindIsInt(k):
		return fmt.Sprintf("(_ BitVec %d)", kindWidth(k))
	case k == types.Float64:
		if RealMode {
			return "Real"
		}
		return "(_ FloatingPoint 11 53)"
	case k == types.Float32:
		return "(_ FloatingPoint 8 24)"
	}
	panic(fmt.Sprintf("sortOf: unsupported kind %v", k))
}

// mk builds a symbolic value of kind k; long expressions are named in the solver.
func mk(k types.BasicKind, e string) *Sym {
	if len(e) > 160 && eng != nil {
		e = eng.define(sortOf(k), e)
	}
	return &Sym{K: k, E: e}
}

func bvLit(w int, u uint64) string {
	if w < 64 {
		u &= (uint64(1) << uint(w)) - 1
	}
	return fmt.Sprintf("(_ bv%d %d)", u, w)
}

func intLit(v int64) string {
	if v < 0 {
		if v == math.MinInt64 {
			return "(- 9223372036854775808)"
		}
		return fmt.Sprintf("(- %d)", -v)
	}
	return strconv.FormatInt(v, 10)
}

// lit renders a concrete scalar as an SMT literal of the sort used for its kind.
func lit(v value) string {
	k := kindOf(v)
	switch x := v.(type) {
	case *Sym:
		return x.E
	case bool:
		if x {
			return "true"
		}
		return "false"
	case float64:
		if RealMode {
			if math.IsNaN(x) || math.IsInf(x, 0) {
				panic(inconclusive{fmt.Sprintf("real mode: non-finite float constant %v", x)})
			}
			r := new(big.Rat).SetFloat64(x)
			num, den := r.Num(), r.Denom()
			ns := num.String()
			if num.Sign() < 0 {
				ns = "(- " + new(big.Int).Neg(num).String() + ".0)"
			} else {
				ns += ".0"
			}
			if den.IsInt64() && den.Int64() == 1 {
				return ns
			}
			return "(/ " + ns + " " + den.String() + ".0)"
		}
		return fmt.Sprintf("((_ to_fp 11 53) %s)", bvLit(64, math.Float64bits(x)))
	case float32:
		return fmt.Sprintf("((_ to_fp 8 24) %s)", bvLit(32, uint64(math.Float32bits(x))))
	}
	if kindIsInt(k) {
		if isMathInt(k) {
			return intLit(asInt64(v))
		}
		return bvLit(kindWidth(k), uint64(asInt64(v)))
	}
	panic(fmt.Sprintf("lit: unsupported %T", v))
}

func realLit(v int64) string {
	if v < 0 {
		return fmt.Sprintf("(- %d.0)", -v)
	}
	return fmt.Sprintf("%d.0", v)
}

func symBool(e string) *Sym { return mk(types.Bool, e) }

// boolV turns a value that is bool or *Sym(Bool) into an SMT expression.
func boolE(v value) string {
	switch v := v.(type) {
	case bool:
		if v {
			return "true"
		}
		return "false"
	case *Sym:
		return v.E
	}
	panic(fmt.Sprintf("boolE: %T", v))
}

func notV(v value) value {
	switch v := v.(type) {
	case bool:
		return !v
	case *Sym:
		return symBool("(not " + v.E + ")")
	}
	panic(fmt.Sprintf("notV: %T", v))
}

func andV(a, b value) value {
	if x, ok := a.(bool); ok {
		if !x {
			return false
		}
		return b
	}
	if y, ok := b.(bool); ok {
		if !y {
			return false
		}
		return a
	}
	return symBool("(and " + boolE(a) + " " + boolE(b) + ")")
}

func orV(a, b value) value {
	if x, ok := a.(bool); ok {
		if x {
			return true
		}
		return b
	}
	if y, ok := b.(bool); ok {
		if y {
			return true
		}
		return a
	}
	return symBool("(or " + boolE(a) + " " + boolE(b) + ")")
}

const (
	minI64 = "(- 9223372036854775808)"
	maxI64 = "9223372036854775807"
)

// symBinop implements binop when at least one operand is symbolic.
func symBinop(op token.Token, t types.Type, x, y value) value {
	kx, ky := kindOf(x), kindOf(y)
	k := kx
	if k == types.Invalid {
		panic(fmt.Sprintf("symBinop: bad operands %T %s %T", x, op, y))
	}
	// shifts: y may have a different (unsigned or signed) integer kind
	if op == token.SHL || op == token.SHR {
		return symShift(op, x, y)
	}
	if kx != ky {
		panic(fmt.Sprintf("symBinop: kind mismatch %v %s %v", kx, op, ky))
	}
	a, b := lit(x), lit(y)
	switch {
	case k == types.Bool:
		switch op {
		case token.EQL:
			return symBool("(= " + a + " " + b + ")")
		case token.NEQ:
			return symBool("(distinct " + a + " " + b + ")")
		case token.AND, token.LAND:
			return andV(x, y)
		case token.OR, token.LOR:
			return orV(x, y)
		}
	case isMathInt(k):
		arith := func(e string) value {
			r := mk(k, e)
			eng.noOverflow(r)
			return r
		}
		switch op {
		case token.ADD:
			return arith("(+ " + a + " " + b + ")")
		case token.SUB:
			return arith("(- " + a + " " + b + ")")
		case token.MUL:
			return arith("(* " + a + " " + b + ")")
		case token.QUO, token.REM:
			eng.divCheck(symBool("(= " + b + " 0)"))
			q := truncDivInt(a, b)
			if op == token.QUO {
				return arith(q)
			}
			qs := mk(k, q)
			return mk(k, fmt.Sprintf("(- %s (* %s %s))", a, b, qs.E))
		case token.EQL:
			return symBool("(= " + a + " " + b + ")")
		case token.NEQ:
			return symBool("(distinct " + a + " " + b + ")")
		case token.LSS:
			return symBool("(< " + a + " " + b + ")")
		case token.LEQ:
			return symBool("(not (< " + b + " " + a + "))")
		case token.GTR:
			return symBool("(< " + b + " " + a + ")")
		case token.GEQ:
			return symBool("(not (< " + a + " " + b + "))")
		}
		panic(inconclusive{fmt.Sprintf("int mode: unsupported operator %s", op)})
	case kindIsInt(k):
		sg := kindSigned(k)
		bin := func(f string) value { return mk(k, "("+f+" "+a+" "+b+")") }
		cmp := func(fs, fu string) value {
			if sg {
				return symBool("(" + fs + " " + a + " " + b + ")")
			}
			return symBool("(" + fu + " " + a + " " + b + ")")
		}
		rcmp := func(fs, fu string) value { // operands swapped: a > b is b < a
			if sg {
				return symBool("(" + fs + " " + b + " " + a + ")")
			}
			return symBool("(" + fu + " " + b + " " + a + ")")
		}
		switch op {
		case token.ADD:
			return bin("bvadd")
		case token.SUB:
			return bin("bvsub")
		case token.MUL:
			return bin("bvmul")
		case token.QUO:
			eng.divCheck(symBool("(= " + b + " " + bvLit(kindWidth(k), 0) + ")"))
			if sg {
				return bin("bvsdiv")
			}
			return bin("bvudiv")
		case token.REM:
			eng.divCheck(symBool("(= " + b + " " + bvLit(kindWidth(k), 0) + ")"))
			if sg {
				return bin("bvsrem")
			}
			return bin("bvurem")
		case token.AND:
			return bin("bvand")
		case token.OR:
			return bin("bvor")
		case token.XOR:
			return bin("bvxor")
		case token.AND_NOT:
			return mk(k, "(bvand "+a+" (bvnot "+b+"))")
		case token.EQL:
			return symBool("(= " + a + " " + b + ")")
		case token.NEQ:
			return symBool("(distinct " + a + " " + b + ")")
		case token.LSS:
			return cmp("bvslt", "bvult")
		case token.LEQ:
			return notV(rcmp("bvslt", "bvult"))
		case token.GTR:
			return rcmp("bvslt", "bvult")
		case token.GEQ:
			return notV(cmp("bvslt", "bvult"))
		}
	case kindIsFloat(k):
		if RealMode && k == types.Float64 {
			if ia, ok := integralOf(x); ok {
				if ib, ok := integralOf(y); ok {
					switch op {
					case token.ADD:
						return realOfInt(k, "(+ "+ia+" "+ib+")")
					case token.SUB:
						return realOfInt(k, "(- "+ia+" "+ib+")")
					case token.MUL:
						return realOfInt(k, "(* "+ia+" "+ib+")")
					case token.EQL:
						return symBool("(= " + ia + " " + ib + ")")
					case token.NEQ:
						return symBool("(distinct " + ia + " " + ib + ")")
					case token.LSS:
						return symBool("(< " + ia + " " + ib + ")")
					case token.GTR:
						return symBool("(< " + ib + " " + ia + ")")
					case token.LEQ:
						return symBool("(not (< " + ib + " " + ia + "))")
					case token.GEQ:
						return symBool("(not (< " + ia + " " + ib + "))")
					}
				}
			}
			switch op {
			case token.ADD:
				return mk(k, "(+ "+a+" "+b+")")
			case token.SUB:
				return mk(k, "(- "+a+" "+b+")")
			case token.MUL:
				return mk(k, "(* "+a+" "+b+")")
			case token.QUO:
				eng.assumeSilently(symBool("(distinct "+b+" 0.0)"), "real mode: float division by zero excluded")
				return mk(k, "(/ "+a+" "+b+")")
			case token.EQL:
				return symBool("(= " + a + " " + b + ")")
			case token.NEQ:
				return symBool("(distinct " + a + " " + b + ")")
			case token.LSS:
				return symBool("(< " + a + " " + b + ")")
			case token.LEQ:
				return symBool("(<= " + a + " " + b + ")")
			case token.GTR:
				return symBool("(> " + a + " " + b + ")")
			case token.GEQ:
				return symBool("(>= " + a + " " + b + ")")
			}
		}
		switch op {
		case token.ADD:
			return mk(k, "(fp.add RNE "+a+" "+b+")")
		case token.SUB:
			return mk(k, "(fp.sub RNE "+a+" "+b+")")
		case token.MUL:
			return mk(k, "(fp.mul RNE "+a+" "+b+")")
		case token.QUO:
			return mk(k, "(fp.div RNE "+a+" "+b+")")
		case token.EQL:
			return symBool("(fp.eq " + a + " " + b + ")")
		case token.NEQ:
			return symBool("(not (fp.eq " + a + " " + b + "))")
		case token.LSS:
			return symBool("(fp.lt " + a + " " + b + ")")
		case token.LEQ:
			return symBool("(fp.leq " + a + " " + b + ")")
		case token.GTR:
			return symBool("(fp.lt " + b + " " + a + ")")
		case token.GEQ:
			return symBool("(fp.leq " + b + " " + a + ")")
		}
	}
	panic(fmt.Sprintf("symBinop: unsupported %v %s %v", kx, op, ky))
}

func symShift(op token.Token, x, y value) value {
	kx, ky := kindOf(x), kindOf(y)
	if isMathInt(kx) || isMathInt(ky) {
		// shift by a concrete count in int mode: multiply / divide by a power of two
		if c, ok := y.(*Sym); !ok && !isSym(y) {
			_ = c
			n := asInt64(y)
			if n >= 0 && n < 62 {
				p := intLit(int64(1) << uint(n))
				if op == token.SHL {
					r := mk(kx, "(* "+lit(x)+" "+p+")")
					eng.noOverflow(r)
					return r
				}
				return mk(kx, "(div "+lit(x)+" "+p+")") // floor = arithmetic shift
			}
		}
		panic(inconclusive{"int mode: symbolic shift"})
	}
	w := kindWidth(kx)
	wy := kindWidth(ky)
	if kindSigned(ky) {
		// negative shift count panics
		if ys, ok := y.(*Sym); ok {
			eng.panicCheck(symBool("(bvslt "+ys.E+" "+bvLit(wy, 0)+")"), "negative shift amount")
		} else if asInt64(y) < 0 {
			panic("negative shift amount")
		}
	}
	a := lit(x)
	var b string
	switch {
	case wy == w:
		b = lit(y)
	case wy < w:
		b = fmt.Sprintf("((_ zero_extend %d) %s)", w-wy, lit(y))
	default:
		// saturate the count at w
		ly := lit(y)
		b = fmt.Sprintf("(ite (bvuge %s %s) %s ((_ extract %d 0) %s))", ly, bvLit(wy, uint64(w)), bvLit(w, uint64(w)), w-1, ly)
	}
	switch op {
	case token.SHL:
		return mk(kx, "(bvshl "+a+" "+b+")")
	default:
		if kindSigned(kx) {
			return mk(kx, "(bvashr "+a+" "+b+")")
		}
		return mk(kx, "(bvlshr "+a+" "+b+")")
	}
}

func symUnop(op token.Token, x *Sym) value {
	k := x.K
	switch op {
	case token.NOT:
		return symBool("(not " + x.E + ")")
	case token.SUB:
		switch {
		case isMathInt(k):
			r := mk(k, "(- "+x.E+")")
			eng.noOverflow(r)
			return r
		case kindIsInt(k):
			return mk(k, "(bvneg "+x.E+")")
		case kindIsFloat(k):
			if RealMode && k == types.Float64 {
				if x.IntE != "" {
					return realOfInt(k, "(- "+x.IntE+")")
				}
				return mk(k, "(- "+x.E+")")
			}
			return mk(k, "(fp.neg "+x.E+")")
		}
	case token.XOR:
		if kindIsInt(k) && !isMathInt(k) {
			return mk(k, "(bvnot "+x.E+")")
		}
	}
	panic(inconclusive{fmt.Sprintf("symUnop: unsupported %s on kind %v", op, k)})
}

// symConv converts symbolic scalar x to basic kind dst.
func symConv(dst types.BasicKind, x *Sym) value {
	src := x.K
	if src == dst {
		return x
	}
	switch {
	case kindIsInt(src) && kindIsInt(dst):
		ms, md := isMathInt(src), isMathInt(dst)
		switch {
		case ms && md:
			return &Sym{K: dst, E: x.E}
		case ms && !md:
			return mk(dst, fmt.Sprintf("((_ int2bv %d) %s)", kindWidth(dst), x.E))
		case !ms && md:
			w := kindWidth(src)
			if kindSigned(src) {
				return mk(dst, fmt.Sprintf("(ite (bvslt %s %s) (- (bv2int %s) %s) (bv2int %s))", x.E, bvLit(w, 0), x.E, pow2(w), x.E))
			}
			return mk(dst, "(bv2int "+x.E+")")
		}
		ws, wd := kindWidth(src), kindWidth(dst)
		switch {
		case ws == wd:
			return &Sym{K: dst, E: x.E}
		case ws > wd:
			return mk(dst, fmt.Sprintf("((_ extract %d 0) %s)", wd-1, x.E))
		default:
			if kindSigned(src) {
				return mk(dst, fmt.Sprintf("((_ sign_extend %d) %s)", wd-ws, x.E))
			}
			return mk(dst, fmt.Sprintf("((_ zero_extend %d) %s)", wd-ws, x.E))
		}
	case kindIsInt(src) && dst == types.Float64:
		if RealMode {
			if isMathInt(src) {
				return realOfInt(dst, x.E)
			}
			panic(inconclusive{"real mode: bit-vector to float conversion"})
		}
		if isMathInt(src) {
			panic(inconclusive{"int mode: Int to FloatingPoint conversion (use real mode)"})
		}
		var r *Sym
		if kindSigned(src) {
			r = mk(dst, "((_ to_fp 11 53) RNE "+x.E+")")
		} else {
			r = mk(dst, "((_ to_fp_unsigned 11 53) RNE "+x.E+")")
		}
		r.Finite = true
		return r
	case src == types.Float64 && kindIsInt(dst):
		if RealMode {
			if isMathInt(dst) {
				if x.IntE != "" {
					return mk(dst, x.IntE)
				}
				// truncation toward zero
				return mk(dst, fmt.Sprintf("(ite (>= %s 0.0) (to_int %s) (- (to_int (- %s))))", x.E, x.E, x.E))
			}
			panic(inconclusive{"real mode: float to bit-vector conversion"})
		}
		if isMathInt(dst) {
			panic(inconclusive{"int mode: FloatingPoint to Int conversion (use real mode)"})
		}
		// Go: out-of-range conversion is implementation-defined; on amd64 it yields 0x8000...
		w := kindWidth(dst)
		if kindSigned(dst) && w == 64 {
			inr := fmt.Sprintf("(and (fp.leq ((_ to_fp 11 53) RTZ (- 9223372036854775808.0)) %s) (fp.lt %s ((_ to_fp 11 53) RTZ 9223372036854775808.0)))", x.E, x.E)
			return mk(dst, fmt.Sprintf("(ite %s ((_ fp.to_sbv 64) RTZ %s) %s)", inr, x.E, bvLit(64, 1<<63)))
		}
		if kindSigned(dst) {
			v64 := symConv(types.Int64, x).(*Sym)
			return symConv(dst, v64)
		}
		panic(inconclusive{"float to unsigned conversion of a symbolic value"})
	case src == types.Float64 && dst == types.Float32:
		return mk(dst, "((_ to_fp 8 24) RNE "+x.E+")")
	case src == types.Float32 && dst == types.Float64:
		return mk(dst, "((_ to_fp 11 53) RNE "+x.E+")")
	}
	panic(inconclusive{fmt.Sprintf("symConv: unsupported %v -> %v", src, dst)})
}

func pow2(w int) string {
	switch w {
	case 8:
		return "256"
	case 16:
		return "65536"
	case 32:
		return "4294967296"
	}
	return "18446744073709551616"
}

// ---------------------------------------------------------------------------------------
// Symbolic strings: concrete length, bytes are uint8 or *Sym{Uint8}.

type sstr struct{ b []value }

func (s sstr) String() string {
	var sb strings.Builder
	for _, c := range s.b {
		if u, ok := c.(uint8); ok {
			sb.WriteByte(u)
		} else {
			sb.WriteString("¿")
		}
	}
	return sb.String()
}

func isStr(v value) bool {
	switch v.(type) {
	case string, sstr, lazyStr:
		return true
	}
	return false
}

func strBytes(v value) []value {
	switch s := v.(type) {
	case string:
		b := make([]value, len(s))
		for i := 0; i < len(s); i++ {
			b[i] = s[i]
		}
		return b
	case sstr:
		if !hasTokens(s.b) {
			return s.b
		}
		out := make([]value, 0, len(s.b))
		for _, e := range s.b {
			if l, ok := e.(lazyStr); ok {
				out = append(out, strBytes(l.force())...)
			} else {
				out = append(out, e)
			}
		}
		return out
	case lazyStr:
		return strBytes(s.force())
	}
	panic(fmt.Sprintf("strBytes: %T", v))
}

func strLen(v value) int {
	switch s := v.(type) {
	case string:
		return len(s)
	case sstr:
		return len(strBytes(s))
	case lazyStr:
		return len(strBytes(s.force()))
	}
	panic(fmt.Sprintf("strLen: %T", v))
}

func hasTokens(b []value) bool {
	for _, e := range b {
		if _, ok := e.(lazyStr); ok {
			return true
		}
	}
	return false
}

// strElems returns the elements of a string value: bytes and, unforced, number tokens.
func strElems(v value) []value {
	switch s := v.(type) {
	case sstr:
		return s.b
	case lazyStr:
		return []value{s}
	}
	return strBytes(v)
}

// mkStr normalises a byte list: all-concrete lists become Go strings.
func mkStr(b []value) value {
	if len(b) == 1 {
		if l, ok := b[0].(lazyStr); ok {
			return l
		}
	}
	conc := true
	for _, c := range b {
		if _, ok := c.(uint8); !ok {
			conc = false
			break
		}
	}
	if conc {
		bs := make([]byte, len(b))
		for i, c := range b {
			bs[i] = c.(uint8)
		}
		return string(bs)
	}
	cp := make([]value, len(b))
	copy(cp, b)
	return sstr{cp}
}

func byteEq(a, b value) value {
	if x, ok := a.(uint8); ok {
		if y, ok := b.(uint8); ok {
			return x == y
		}
	}
	if sa, ok := a.(*Sym); ok {
		if sb, ok := b.(*Sym); ok && sa.E == sb.E {
			return true
		}
	}
	return symBool("(= " + lit(a) + " " + lit(b) + ")")
}

func strEq(x, y value) value {
	if lx, ok := x.(lazyStr); ok {
		if ly, ok := y.(lazyStr); ok {
			if r, ok := lazyEq(lx, ly); ok {
				return r
			}
		}
	}
	if ea, eb := strElems(x), strElems(y); hasTokens(ea) || hasTokens(eb) {
		if r, ok := tokenEq(ea, eb); ok {
			return r
		}
	}
	a, b := strBytes(x), strBytes(y)
	if len(a) != len(b) {
		return false
	}
	var r value = true
	for i := range a {
		r = andV(r, byteEq(a[i], b[i]))
		if r == false {
			return false
		}
	}
	if s, ok := r.(*Sym); ok {
		return mk(types.Bool, s.E)
	}
	return r
}

// strLess is lexicographic x < y.
func strLess(x, y value) value {
	a, b := strBytes(x), strBytes(y)
	n := len(a)
	if len(b) < n {
		n = len(b)
	}
	// from the end: res = (len(a) < len(b)) for equal prefixes
	var res value = len(a) < len(b)
	for i := n - 1; i >= 0; i-- {
		lt := byteLt(a[i], b[i])
		eq := byteEq(a[i], b[i])
		// res = lt || (eq && res)
		res = orV(lt, andV(eq, res))
		if s, ok := res.(*Sym); ok {
			res = mk(types.Bool, s.E)
		}
	}
	return res
}

func byteLt(a, b value) value {
	if x, ok := a.(uint8); ok {
		if y, ok := b.(uint8); ok {
			return x < y
		}
	}
	return symBool("(bvult " + lit(a) + " " + lit(b) + ")")
}

func symStrBinop(op token.Token, x, y value) value {
	switch op {
	case token.ADD:
		return mkStr(append(append([]value{}, strElems(x)...), strElems(y)...))
	case token.EQL:
		return strEq(x, y)
	case token.NEQ:
		return notV(strEq(x, y))
	case token.LSS:
		return strLess(x, y)
	case token.GTR:
		return strLess(y, x)
	case token.LEQ:
		return notV(strLess(y, x))
	case token.GEQ:
		return notV(strLess(x, y))
	}
	panic(fmt.Sprintf("symStrBinop: %s", op))
}

// asciiByte constrains a symbolic byte to ASCII (recorded as a bound) and returns it as rune value.
func asciiRune(c value) value {
	switch c := c.(type) {
	case uint8:
		return rune(c)
	case *Sym:
		eng.assumeSilently(symBool("(bvult "+c.E+" #x80)"), "symbolic string bytes are ASCII (< 0x80) where decoded as UTF-8")
		return mk(types.Int32, "((_ zero_extend 24) "+c.E+")")
	}
	panic(fmt.Sprintf("asciiRune: %T", c))
}

// runeToByte converts a rune value to a single byte under the ASCII assumption.
func runeToBytes(r value) []value {
	switch r := r.(type) {
	case int32:
		s := string(r)
		return strBytes(s)
	case *Sym:
		if r.K != types.Int32 {
			r = symConv(types.Int32, r).(*Sym)
		}
		eng.assumeSilently(symBool("(and (bvsge "+r.E+" #x00000000) (bvslt "+r.E+" #x00000080))"), "symbolic runes are ASCII (< 0x80) where encoded as UTF-8")
		return []value{mk(types.Uint8, "((_ extract 7 0) "+r.E+")")}
	}
	panic(fmt.Sprintf("runeToBytes: %T", r))
}

type sstrIter struct {
	s sstr
	i int
}

func (it *sstrIter) next() tuple {
	okv := make(tuple, 3)
	if it.i >= len(it.s.b) {
		okv[0] = false
		return okv
	}
	// concrete multi-byte sequences are decoded when all their bytes are concrete
	if c, ok := it.s.b[it.i].(uint8); ok && c >= 0x80 {
		j := it.i
		var bs []byte
		for j < len(it.s.b) && len(bs) < 4 {
			cb, ok := it.s.b[j].(uint8)
			if !ok {
				break
			}
			bs = append(bs, cb)
			j++
		}
		r, n := decodeRune(bs)
		okv[0], okv[1], okv[2] = true, it.i, r
		it.i += n
		return okv
	}
	okv[0], okv[1], okv[2] = true, it.i, asciiRune(it.s.b[it.i])
	it.i++
	return okv
}

func decodeRune(b []byte) (rune, int) {
	s := string(b)
	for _, r := range s {
		n := len(string(r))
		if r == 0xFFFD {
			n = 1
		}
		return r, n
	}
	return 0xFFFD, 1
}


func numAlphabet(c byte) bool { return (c >= '0' && c <= '9') || c == '-' }

// tokenEq compares two element lists that contain number tokens (decimal texts of symbolic
// integers).  Exact because such a text is canonical, consists of [-0-9] only, and - in every
// use - is followed by a byte outside that alphabet or by the end of the string; anything the
// walk cannot decide makes it give up (the caller then forces the tokens).
func tokenEq(a, b []value) (value, bool) {
	var res value = true
	i, j := 0, 0
	for i < len(a) && j < len(b) {
		ta, aTok := a[i].(lazyStr)
		tb, bTok := b[j].(lazyStr)
		switch {
		case aTok && bTok:
			r, ok := lazyEq(ta, tb)
			if !ok {
				return nil, false
			}
			res = andV(res, r)
			i, j = i+1, j+1
		case aTok || bTok:
			tok, other, k := ta, b, j
			if bTok {
				tok, other, k = tb, a, i
			}
			if tok.float || tok.base != 10 {
				return nil, false
			}
			// maximal run of concrete number characters on the other side
			e := k
			for e < len(other) {
				c, ok := other[e].(uint8)
				if !ok {
					if _, isTok := other[e].(lazyStr); isTok {
						break
					}
					return nil, false // symbolic byte next to a number: undecidable here
				}
				if !numAlphabet(c) {
					break
				}
				e++
			}
			run := make([]byte, 0, e-k)
			for _, c := range other[k:e] {
				run = append(run, c.(uint8))
			}
			if e < len(other) {
				if _, isTok := other[e].(lazyStr); isTok {
					return nil, false
				}
			}
			v, err := strconv.ParseInt(string(run), 10, 64)
			if err != nil || strconv.FormatInt(v, 10) != string(run) {
				return false, true // not the canonical text of any integer
			}
			res = andV(res, symBool("(= "+tok.sym.E+" "+lit(symOfValue(tok.sym.K, v))+")"))
			if bTok {
				i, j = e, j+1
			} else {
				i, j = i+1, e
			}
		default:
			res = andV(res, byteEq(a[i], b[j]))
			i, j = i+1, j+1
		}
		if res == false {
			return false, true
		}
	}
	if i != len(a) || j != len(b) {
		return false, true
	}
	if s, ok := res.(*Sym); ok {
		return mk(types.Bool, s.E), true
	}
	return res, true
}
