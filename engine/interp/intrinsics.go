package interp

// Concretisation helpers and the verif* harness intrinsics.

import (
	"fmt"
	"go/types"
	"strconv"
	"strings"
)

func (e *Engine) candidate(x *Sym) (int64, bool) {
	// Ask the solver for a value of x under the current path condition.
	n := "cz!" + strconv.Itoa(e.defs)
	e.defs++
	e.S.Send(fmt.Sprintf("(define-fun %s () %s %s)", n, sortOf(x.K), x.E))
	if r := e.S.CheckSat(); r != "sat" {
		return 0, false
	}
	vals, err := e.S.GetValues([]string{n})
	if err != nil {
		return 0, false
	}
	s := decodeModelValue(vals[n], x.K)
	if kindSigned(x.K) || isMathInt(x.K) {
		v, err := strconv.ParseInt(s, 10, 64)
		return v, err == nil
	}
	u, err := strconv.ParseUint(s, 10, 64)
	return int64(u), err == nil
}

func symOfValue(k types.BasicKind, v int64) value {
	switch k {
	case types.Int:
		return int(v)
	case types.Int8:
		return int8(v)
	case types.Int16:
		return int16(v)
	case types.Int32:
		return int32(v)
	case types.Int64:
		return v
	case types.Uint:
		return uint(v)
	case types.Uint8:
		return uint8(v)
	case types.Uint16:
		return uint16(v)
	case types.Uint32:
		return uint32(v)
	case types.Uint64:
		return uint64(v)
	case types.Uintptr:
		return uintptr(v)
	}
	panic(fmt.Sprintf("symOfValue: kind %v", k))
}

// concretize enumerates the feasible values of a symbolic integer by forking (at most 64).
func (e *Engine) concretize(x *Sym) int64 {
	if x.K == types.Bool {
		if e.Branch(x) {
			return 1
		}
		return 0
	}
	for n := 0; n < 512; n++ {
		i := len(e.trace)
		var v int64
		if i < len(e.prefix) {
			v = e.prefix[i].Val
		} else {
			var ok bool
			v, ok = e.candidate(x)
			if !ok {
				panic(inconclusive{"concretize: solver gave no value"})
			}
		}
		e.pendingVal = v
		e.hasPendingVal = true
		taken := e.Branch(symBool("(= " + x.E + " " + lit(symOfValue(x.K, v)) + ")"))
		e.hasPendingVal = false
		if taken {
			return v
		}
	}
	panic(inconclusive{"concretize: more than 512 feasible values for a symbolic size/index (bound)"})
}

// boundedIndex returns a concrete index in [0,n); out-of-range values raise the Go panic.
func boundedIndex(idx value, n int64, msg string) int64 {
	s, ok := idx.(*Sym)
	if !ok {
		i := asInt64(idx)
		if i < 0 || i >= n {
			panic(fmt.Sprintf("runtime error: %s [%d] with length %d", msg, i, n))
		}
		return i
	}
	var inr value
	if w := kindWidth(s.K); w < 64 && !isMathInt(s.K) {
		max := int64(1)<<uint(w) - 1
		if kindSigned(s.K) {
			max = int64(1)<<uint(w-1) - 1
		}
		if n > max {
			// the upper bound cannot be exceeded by a value of this type
			if kindSigned(s.K) {
				if eng.truth(symBool(fmt.Sprintf("(bvslt %s %s)", s.E, lit(symOfValue(s.K, 0))))) {
					panic(fmt.Sprintf("runtime error: %s [symbolic] with length %d", msg, n))
				}
			}
			return eng.concretize(s)
		}
	}
	nl := lit(symOfValue(s.K, n))
	zl := lit(symOfValue(s.K, 0))
	switch {
	case isMathInt(s.K):
		inr = symBool(fmt.Sprintf("(and (<= 0 %s) (< %s %s))", s.E, s.E, nl))
	case kindSigned(s.K):
		inr = symBool(fmt.Sprintf("(and (bvsle %s %s) (bvslt %s %s))", zl, s.E, s.E, nl))
	default:
		inr = symBool(fmt.Sprintf("(bvult %s %s)", s.E, nl))
	}
	if !eng.truth(inr) {
		panic(fmt.Sprintf("runtime error: %s [symbolic] with length %d", msg, n))
	}
	return eng.concretizeRange(s, 0, n-1)
}

// concretizeRange enumerates lo..hi in order (x is known to lie in that range).
func (e *Engine) concretizeRange(x *Sym, lo, hi int64) int64 {
	if hi-lo > 16 {
		return e.concretize(x) // model-guided: only feasible values are enumerated
	}
	for v := lo; v < hi; v++ {
		e.pendingVal = v
		if e.Branch(symBool("(= " + x.E + " " + lit(symOfValue(x.K, v)) + ")")) {
			return v
		}
	}
	return hi
}

// boundedSize concretises a make() size; negative sizes panic, sizes above 64 end the path.
func boundedSize(v value) int64 {
	s, ok := v.(*Sym)
	if !ok {
		n := asInt64(v)
		if n < 0 {
			panic("runtime error: makeslice: len out of range")
		}
		return n
	}
	zl := lit(symOfValue(s.K, 0))
	var neg *Sym
	if isMathInt(s.K) {
		neg = symBool("(< " + s.E + " 0)")
	} else {
		neg = symBool("(bvslt " + s.E + " " + zl + ")")
	}
	if eng.Branch(neg) {
		panic("runtime error: makeslice: len out of range")
	}
	return eng.concretize(s)
}

// Choice forks n ways and returns the concrete alternative.
func (e *Engine) Choice(name string, n int) int {
	k := e.choice(name, n)
	switch name {
	case "sched", "maporder", "select", "crash", "fault":
	default:
		e.choiceSig = append(e.choiceSig, fmt.Sprintf("%s=%d", name, k))
	}
	return k
}

func (e *Engine) choice(name string, n int) int {
	if n <= 1 {
		e.counts[name]++ // keep occurrence numbering aligned with the native intrinsics
		return 0
	}
	c := e.Fresh(name, types.Int).(*Sym)
	var rng string
	if isMathInt(types.Int) {
		rng = fmt.Sprintf("(and (<= 0 %s) (< %s %d))", c.E, c.E, n)
	} else {
		rng = fmt.Sprintf("(bvult %s %s)", c.E, bvLit(64, uint64(n)))
	}
	e.assert(rng)
	// enumerate in order 0..n-1 for determinism
	for k := 0; k < n-1; k++ {
		e.pendingVal, e.hasPendingVal = int64(k), true
		t := e.Branch(symBool("(= " + c.E + " " + lit(k) + ")"))
		e.hasPendingVal = false
		if t {
			return k
		}
	}
	return n - 1
}

func zeroLike(v value) value {
	switch v := v.(type) {
	case bool:
		return false
	case string, sstr:
		return ""
	case *value:
		return (*value)(nil)
	case iface:
		return iface{}
	case []value:
		return []value(nil)
	case structure:
		r := make(structure, len(v))
		for i := range v {
			r[i] = zeroLike(v[i])
		}
		return r
	case array:
		r := make(array, len(v))
		for i := range v {
			r[i] = zeroLike(v[i])
		}
		return r
	case *Sym:
		if v.K == types.Bool {
			return false
		}
		if kindIsFloat(v.K) {
			return float64(0)
		}
		return symOfValue(v.K, 0)
	}
	k := kindOf(v)
	if kindIsInt(k) {
		return symOfValue(k, 0)
	}
	if k == types.Float64 {
		return float64(0)
	}
	if k == types.Float32 {
		return float32(0)
	}
	return v
}

// ---------------------------------------------------------------------------------------

type intrinsicFn func(fr *frame, args []value) value

var intrinsics map[string]intrinsicFn

// Thorough selects the second argument of verifBound(quick, thorough).
var Thorough bool

func argString(v value) string {
	s, ok := v.(string)
	if !ok {
		panic(inconclusive{"intrinsic: label/name argument must be a constant string"})
	}
	return s
}

func init() {
	intrinsics = map[string]intrinsicFn{
		"verifInt":     func(fr *frame, a []value) value { return eng.Fresh(argString(a[0]), types.Int) },
		"verifInt64":   func(fr *frame, a []value) value { return eng.Fresh(argString(a[0]), types.Int64) },
		"verifInt32":   func(fr *frame, a []value) value { return eng.Fresh(argString(a[0]), types.Int32) },
		"verifRune":    func(fr *frame, a []value) value { return eng.Fresh(argString(a[0]), types.Int32) },
		"verifByte":    func(fr *frame, a []value) value { return eng.Fresh(argString(a[0]), types.Uint8) },
		"verifBool":    func(fr *frame, a []value) value { return eng.Fresh(argString(a[0]), types.Bool) },
		"verifFloat64": func(fr *frame, a []value) value { return eng.Fresh(argString(a[0]), types.Float64) },
		"verifChoice": func(fr *frame, a []value) value {
			return eng.Choice(argString(a[0]), int(asInt64(a[1])))
		},
		"verifAssume": func(fr *frame, a []value) value { eng.Assume(a[0]); return nil },
		"verifAssert": func(fr *frame, a []value) value { eng.Assert(argString(a[0]), a[1]); return nil },
		"verifReach":  func(fr *frame, a []value) value { eng.Reach(argString(a[0])); return nil },
		"verifObserve": func(fr *frame, a []value) value {
			eng.Observe(argString(a[0]), a[1])
			return nil
		},
		"verifObserveBool": func(fr *frame, a []value) value {
			eng.Observe(argString(a[0]), a[1])
			return nil
		},
		"verifObserveStr": func(fr *frame, a []value) value {
			if s, ok := a[1].(sstr); ok {
				for i, c := range s.b {
					eng.Observe(fmt.Sprintf("%s[%d]", argString(a[0]), i), c)
				}
				return nil
			}
			eng.Observe(argString(a[0]), a[1])
			return nil
		},
		"verifAnd": func(fr *frame, a []value) value { return andV(a[0], a[1]) },
		"verifOr":  func(fr *frame, a []value) value { return orV(a[0], a[1]) },
		"verifNot": func(fr *frame, a []value) value { return notV(a[0]) },
		"verifImplies": func(fr *frame, a []value) value {
			return orV(notV(a[0]), a[1])
		},
		"verifIteInt": func(fr *frame, a []value) value {
			c, ok := a[0].(*Sym)
			if !ok {
				if a[0].(bool) {
					return a[1]
				}
				return a[2]
			}
			return mk(kindOf(a[1]), "(ite "+c.E+" "+lit(a[1])+" "+lit(a[2])+")")
		},
		"verifBound": func(fr *frame, a []value) value {
			if Thorough {
				return a[1]
			}
			return a[0]
		},
		// verifAmplify: 1 here; in the native race-confirmation run a replication factor by which a
		// harness may repeat its (already chosen) rows so that the Go race detector gets enough
		// concurrent work to observe the race the engine found on the small instance
		"verifAmplify":    func(fr *frame, a []value) value { return int(1) },
		"verifMapOrder":   func(fr *frame, a []value) value { PermuteMaps = a[0].(bool); return nil },
		"verifSchedules":  func(fr *frame, a []value) value { ExploreSchedules = a[0].(bool); return nil },
		"verifRaces": func(fr *frame, a []value) value { RaceOn = a[0].(bool); return nil },
		"verifPreemptions": func(fr *frame, a []value) value { MaxPreemptions = int(asInt64(a[0])); return nil },
		"verifSymbolic":   func(fr *frame, a []value) value { return true },
		"verifConcretize": func(fr *frame, a []value) value { return int(asInt64(a[0])) },
		"verifNote": func(fr *frame, a []value) value {
			eng.assumptions[argString(a[0])] = true
			return nil
		},
		"verifIsConcrete": func(fr *frame, a []value) value { return !isSym(a[0]) },
		"verifTrace": func(fr *frame, a []value) value {
			if debugOn {
				var parts []string
				for _, x := range a {
					parts = append(parts, toString(x))
				}
				debugf("TRACE %s", strings.Join(parts, " "))
			}
			return nil
		},
	}
}
