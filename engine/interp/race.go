package interp

// Happens-before data-race detection on the interpreted heap (FastTrack-style, one epoch for the
// last write and a read set per cell).  Vector clocks advance at the synchronisation models
// (go statement, WaitGroup, Mutex/RWMutex, Once, channels, atomics, Pool hand-off).  Active only
// while more than one interpreted goroutine exists.

import (
	"fmt"
	"go/types"
)

type shadowCell struct {
	wT, wC int         // last write: thread, clock
	wFn    string      // function of the last write
	wL     []*value    // locks held at the last write
	reads  map[int]int // thread -> clock of its last read since the last write
	rFn    map[int]string
	rL     map[int][]*value
	// accesses made through sync/atomic: they do not conflict with each other, but a plain access
	// that is unordered with an atomic one is a data race (the Go memory model and its race detector
	// treat it so)
	aW, aR   map[int]int // thread -> clock of its last atomic write / read
	aFn      map[int]string
}

// A read lock protects against writers only: it is entered into the lockset under a derived key
// that writers (who hold the write lock, the plain key) also carry.
var rlockKeys = map[*value]*value{}

func rlockKey(p *value) *value {
	k := rlockKeys[p]
	if k == nil {
		k = new(value)
		rlockKeys[p] = k
	}
	return k
}

func acquireRLock(p *value) { acquireLock(rlockKey(p)) }

var (
	shadows  map[*value]*shadowCell
	RaceOn   bool
	raceSeen map[string]bool
)

func resetRace() {
	shadows = map[*value]*shadowCell{}
	raceSeen = map[string]bool{}
	rlockKeys = map[*value]*value{}
	RaceOn = false
}

func raceActive() bool {
	return RaceOn && sched != nil && len(sched.threads) > 1 && sched.cur != nil
}

func hb(t *gthread, u, c int) bool {
	// did (u, c) happen before t's current point?
	if u == t.id {
		return true
	}
	return u < len(t.vc) && c <= t.vc[u]
}

func curFn() string {
	if eng != nil && eng.curFrame != nil && eng.curFrame.fn != nil {
		return eng.curFrame.fn.String()
	}
	return "?"
}

func clockOf(t *gthread) int {
	for len(t.vc) <= t.id {
		t.vc = append(t.vc, 0)
	}
	if t.vc[t.id] == 0 {
		t.vc[t.id] = 1
	}
	return t.vc[t.id]
}

func raceRead(addr *value) {
	if !raceActive() || addr == nil {
		return
	}
	t := sched.cur
	s := shadows[addr]
	if s == nil {
		s = &shadowCell{wT: -1}
		shadows[addr] = s
	}
	if s.wT >= 0 && !hb(t, s.wT, s.wC) && !commonLock(s.wL, readerView(t.locks)) {
		reportRace("read", addr, s.wFn)
	}
	for u, c := range s.aW {
		if !hb(t, u, c) {
			reportRace("read", addr, s.aFn[u]+" (atomic)")
		}
	}
	if s.reads == nil {
		s.reads = map[int]int{}
		s.rFn = map[int]string{}
		s.rL = map[int][]*value{}
	}
	s.reads[t.id] = clockOf(t)
	s.rFn[t.id] = curFn()
	s.rL[t.id] = heldLocks()
}

// readerView: a reader holding the read lock of an RWMutex is protected against a writer holding
// its write lock: map the derived read keys back to the plain mutex keys.
func readerView(held map[*value]bool) map[*value]bool {
	if len(held) == 0 {
		return held
	}
	out := map[*value]bool{}
	for p := range held {
		out[p] = true
	}
	for plain, rk := range rlockKeys {
		if held[rk] {
			out[plain] = true
		}
	}
	return out
}

func raceWrite(addr *value) {
	if !raceActive() || addr == nil {
		return
	}
	t := sched.cur
	s := shadows[addr]
	if s == nil {
		s = &shadowCell{wT: -1}
		shadows[addr] = s
	}
	if s.wT >= 0 && !hb(t, s.wT, s.wC) && !commonLock(s.wL, t.locks) {
		reportRace("write", addr, s.wFn)
	}
	for u, c := range s.reads {
		if !hb(t, u, c) {
			// the earlier read may have been under the read lock of an RWMutex we hold for writing
			rl := map[*value]bool{}
			for _, p := range s.rL[u] {
				rl[p] = true
			}
			if !commonLock(heldLocks(), readerView(rl)) {
				reportRace("write", addr, s.rFn[u])
			}
		}
	}
	for u, c := range s.aW {
		if !hb(t, u, c) {
			reportRace("write", addr, s.aFn[u]+" (atomic)")
		}
	}
	for u, c := range s.aR {
		if !hb(t, u, c) {
			reportRace("write", addr, s.aFn[u]+" (atomic)")
		}
	}
	s.wT, s.wC, s.wFn, s.wL = t.id, clockOf(t), curFn(), heldLocks()
	s.reads, s.rFn, s.rL = nil, nil, nil
}

// raceAtomic records an access made through sync/atomic (after its acquire, before its release):
// it conflicts with plain accesses of other goroutines that are not ordered before it.
func raceAtomic(addr *value, write bool) {
	if !raceActive() || addr == nil {
		return
	}
	t := sched.cur
	s := shadows[addr]
	if s == nil {
		s = &shadowCell{wT: -1}
		shadows[addr] = s
	}
	if s.wT >= 0 && !hb(t, s.wT, s.wC) {
		reportRace("atomic access", addr, s.wFn)
	}
	if write {
		for u, c := range s.reads {
			if !hb(t, u, c) {
				reportRace("atomic write", addr, s.rFn[u])
			}
		}
	}
	if s.aW == nil {
		s.aW, s.aR, s.aFn = map[int]int{}, map[int]int{}, map[int]string{}
	}
	if write {
		s.aW[t.id] = clockOf(t)
	} else {
		s.aR[t.id] = clockOf(t)
	}
	s.aFn[t.id] = curFn()
}

func reportRace(kind string, addr *value, otherFn string) {
	here := curFn()
	a, b := here, otherFn
	if b < a {
		a, b = b, a
	}
	key := a + " <-> " + b
	if raceSeen[key] {
		return
	}
	raceSeen[key] = true
	what := "?"
	if addr != nil && *addr != nil {
		what = fmt.Sprintf("%T", *addr)
		if ifc, ok := (*addr).(iface); ok && ifc.t != nil {
			what = types.TypeString(ifc.t, nil)
		}
	}
	eng.raceFound = append(eng.raceFound, fmt.Sprintf("unsynchronised %s of a %s cell in %s conflicts with an access in %s", kind, what, here, otherFn))
	eng.raceKeys = append(eng.raceKeys, key)
}
