package interp

// Persistent SMT solver session (z3 -in). One process per gosmt worker.

import (
	"bufio"
	"fmt"
	"io"
	"os"
	"os/exec"
	"strings"
	"time"
)

var SolverSeed int

type Solver struct {
	cmd         *exec.Cmd
	in          io.WriteCloser
	out         *bufio.Reader
	log         io.Writer // optional transcript
	Slowest     time.Duration
	SlowQueries int
	lastAssert  string
	Queries     int
	Errors      int
	Time        time.Duration
	bin         string
	args        []string
}

func NewSolver(bin string, timeoutMs int, log io.Writer) (*Solver, error) {
	var args []string
	switch {
	case strings.Contains(bin, "cvc5"):
		args = []string{"--incremental", "--lang=smt2", "--produce-models", fmt.Sprintf("--tlimit-per=%d", timeoutMs)}
	default:
		args = []string{"-in", fmt.Sprintf("-t:%d", timeoutMs)}
	}
	s := &Solver{bin: bin, args: args, log: log}
	if err := s.start(); err != nil {
		return nil, err
	}
	return s, nil
}

func (s *Solver) start() error {
	cmd := exec.Command(s.bin, s.args...)
	in, err := cmd.StdinPipe()
	if err != nil {
		return err
	}
	out, err := cmd.StdoutPipe()
	if err != nil {
		return err
	}
	cmd.Stderr = os.Stderr
	if err := cmd.Start(); err != nil {
		return err
	}
	s.cmd, s.in, s.out = cmd, in, bufio.NewReaderSize(out, 1<<16)
	s.Send("(set-option :produce-models true)")
	if SolverSeed != 0 && !strings.Contains(s.bin, "cvc5") {
		s.Send(fmt.Sprintf("(set-option :smt.random_seed %d)", SolverSeed))
		s.Send(fmt.Sprintf("(set-option :sat.random_seed %d)", SolverSeed))
	}
	if strings.Contains(s.bin, "cvc5") {
		s.Send("(set-logic ALL)")
	}
	return nil
}

func (s *Solver) Close() {
	if s.cmd != nil {
		s.in.Close()
		s.cmd.Process.Kill()
		s.cmd.Wait()
		s.cmd = nil
	}
}

// Send writes a command that produces no output (assert, declare, define, push, pop).
func (s *Solver) Send(c string) {
	if strings.HasPrefix(c, "(assert") {
		s.lastAssert = c
	}
	if s.log != nil {
		fmt.Fprintln(s.log, c)
	}
	io.WriteString(s.in, c)
	io.WriteString(s.in, "\n")
}

// readSexp reads one complete answer: either an atom line or a balanced s-expression.
func (s *Solver) readSexp() (string, error) {
	var b strings.Builder
	depth := 0
	started := false
	for {
		line, err := s.out.ReadString('\n')
		if err != nil {
			return b.String(), err
		}
		t := strings.TrimSpace(line)
		if t == "" && !started {
			continue
		}
		started = true
		inStr := false
		for _, c := range t {
			switch {
			case c == '"':
				inStr = !inStr
			case inStr:
			case c == '(':
				depth++
			case c == ')':
				depth--
			}
		}
		b.WriteString(t)
		if depth <= 0 {
			return b.String(), nil
		}
		b.WriteByte(' ')
	}
}

// CheckSat returns "sat", "unsat" or "unknown" (any error output is mapped to "unknown").
func (s *Solver) CheckSat(assumptions ...string) string {
	t0 := time.Now()
	s.Queries++
	if len(assumptions) == 0 {
		s.Send("(check-sat)")
	} else {
		s.Send("(check-sat-assuming (" + strings.Join(assumptions, " ") + "))")
	}
	r, err := s.readSexp()
	d := time.Since(t0)
	s.Time += d
	if d > s.Slowest {
		s.Slowest = d
	}
	if d > 500*time.Millisecond {
		s.SlowQueries++
		if debugOn {
			debugf("slow query %.2fs -> %s; last assert: %s", d.Seconds(), r, truncate(s.lastAssert, 600))
		}
	}
	if s.log != nil {
		fmt.Fprintln(s.log, "; ->", r)
	}
	if err != nil {
		s.Errors++
		return "unknown"
	}
	switch r {
	case "sat", "unsat", "unknown":
		return r
	}
	s.Errors++
	fmt.Fprintf(os.Stderr, "gosmt: solver error output: %s\n", r)
	// drain possible further error lines is not needed: each command yields one answer
	return "unknown"
}

// GetValues asks the values of the given constant names after a sat answer.
func (s *Solver) GetValues(names []string) (map[string]string, error) {
	res := map[string]string{}
	if len(names) == 0 {
		return res, nil
	}
	t0 := time.Now()
	s.Send("(get-value (" + strings.Join(names, " ") + "))")
	r, err := s.readSexp()
	s.Time += time.Since(t0)
	if err != nil {
		return nil, err
	}
	if s.log != nil {
		fmt.Fprintln(s.log, "; ->", r)
	}
	if strings.HasPrefix(r, "(error") {
		s.Errors++
		return nil, fmt.Errorf("solver: %s", r)
	}
	toks := tokenize(r)
	// ((name value) (name value) ...)
	pos := 0
	var parse func() interface{}
	parse = func() interface{} {
		if toks[pos] == "(" {
			pos++
			var l []interface{}
			for toks[pos] != ")" {
				l = append(l, parse())
			}
			pos++
			return l
		}
		t := toks[pos]
		pos++
		return t
	}
	top, ok := parse().([]interface{})
	if !ok {
		return nil, fmt.Errorf("solver: bad get-value answer %q", r)
	}
	for _, p := range top {
		pl, ok := p.([]interface{})
		if !ok || len(pl) != 2 {
			continue
		}
		name, _ := pl[0].(string)
		res[name] = sexpString(pl[1])
	}
	return res, nil
}

func tokenize(s string) []string {
	var toks []string
	i := 0
	for i < len(s) {
		c := s[i]
		switch {
		case c == '(' || c == ')':
			toks = append(toks, string(c))
			i++
		case c == ' ' || c == '\t' || c == '\n':
			i++
		case c == '|':
			j := i + 1
			for j < len(s) && s[j] != '|' {
				j++
			}
			toks = append(toks, s[i:j+1])
			i = j + 1
		default:
			j := i
			for j < len(s) && s[j] != '(' && s[j] != ')' && s[j] != ' ' {
				j++
			}
			toks = append(toks, s[i:j])
			i = j
		}
	}
	return toks
}

func sexpString(x interface{}) string {
	switch x := x.(type) {
	case string:
		return x
	case []interface{}:
		parts := make([]string, len(x))
		for i, e := range x {
			parts[i] = sexpString(e)
		}
		return "(" + strings.Join(parts, " ") + ")"
	}
	return ""
}
