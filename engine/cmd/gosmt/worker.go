package main

// worker: explore one harness function in one process.

import (
	"encoding/json"
	"flag"
	"fmt"
	"os"
	"path/filepath"
	"runtime/pprof"
	"strings"
	"time"

	"verif/engine/interp"
)

type overlayList []string

func (o *overlayList) String() string     { return strings.Join(*o, ",") }
func (o *overlayList) Set(s string) error { *o = append(*o, s); return nil }

type WorkerOutput struct {
	Result    *interp.Result `json:"result"`
	Error     string         `json:"error,omitempty"`
	LoadS     float64        `json:"load_s"`
	InitS     float64        `json:"init_s"`
	StubsUsed []string       `json:"stubs_used"`
}

func workerMain(args []string) int {
	fs := flag.NewFlagSet("worker", flag.ExitOnError)
	repo := fs.String("repo", "/repo", "repository root")
	pkg := fs.String("pkg", "", "package directory relative to the repo, e.g. lib/query")
	fn := fs.String("fn", "", "harness function")
	mode := fs.String("mode", "bv", "bv | int | real (int implies mathematical ints; real adds exact-rational floats)")
	out := fs.String("out", "", "result JSON file")
	solver := fs.String("solver", "z3", "solver binary")
	qto := fs.Int("query-timeout-ms", 20000, "per-query solver timeout")
	deadline := fs.Duration("deadline", 10*time.Minute, "wall-clock budget for the exploration")
	maxPaths := fs.Int("max-paths", 0, "path budget")
	maxSteps := fs.Int64("max-steps", 0, "SSA steps per path (unwinding bound)")
	smtlog := fs.String("smtlog", "", "write the SMT-LIB transcript here")
	known := fs.String("known", "", "known findings file")
	traces := fs.Int("traces", 3, "validation traces to record")
	tier := fs.String("tier", "quick", "quick | thorough (value of the verifBound intrinsic)")
	seed := fs.Int("seed", 0, "solver random seed")
	frontierN := fs.Int("frontier", 0, "phase 1: expand breadth-first until this many prefixes are pending, write them to -frontier-file")
	frontierFile := fs.String("frontier-file", "", "prefix file (written in phase 1, read in phase 2)")
	share := fs.String("share", "", "phase 2: i/n — explore prefixes i, i+n, ... of -frontier-file")
	queue := fs.String("queue", "", "shared queue directory (cooperating workers)")
	workerID := fs.Int("worker-id", 0, "index of this worker in the shared queue")
	chunk := fs.Int("chunk-paths", 40, "paths explored per claimed chunk before handing work back")
	cpuprof := fs.String("cpuprofile", "", "write a CPU profile")
	var overlays, setups overlayList
	fs.Var(&overlays, "overlay", "real-file=virtual-name-in-package (repeatable)")
	fs.Var(&setups, "setup", "setup function run once after package initialisation (repeatable)")
	fs.Parse(args)

	if *cpuprof != "" {
		f, _ := os.Create(*cpuprof)
		pprof.StartCPUProfile(f)
		defer pprof.StopCPUProfile()
	}
	wo := &WorkerOutput{}
	code := 0
	func() {
		defer func() {
			if r := recover(); r != nil {
				wo.Error = fmt.Sprint("worker crashed: ", r)
			}
		}()
		ov := map[string][]byte{}
		for _, o := range overlays {
			parts := strings.SplitN(o, "=", 2)
			b, err := os.ReadFile(parts[0])
			if err != nil {
				wo.Error = err.Error()
				return
			}
			name := filepath.Base(parts[0])
			if len(parts) == 2 {
				name = parts[1]
			}
			if filepath.IsAbs(name) {
				ov[name] = b
			} else {
				ov[filepath.Join(*repo, *pkg, name)] = b
			}
		}
		t0 := time.Now()
		prog, err := interp.Load(*repo, ov, "./"+*pkg)
		if err != nil {
			wo.Error = "load: " + err.Error()
			return
		}
		wo.LoadS = time.Since(t0).Seconds()
		t1 := time.Now()
		for _, sname := range setups {
			sf := prog.Package(prog.Pkgs[0].PkgPath).Func(sname)
			if sf == nil {
				wo.Error = "no such setup function: " + sname
				return
			}
			prog.Setups = append(prog.Setups, sf)
		}
		if err := prog.Init(); err != nil {
			wo.Error = "init: " + err.Error()
			return
		}
		wo.InitS = time.Since(t1).Seconds()
		var target = prog.Pkgs[0].PkgPath
		sp := prog.Package(target)
		f := sp.Func(*fn)
		if f == nil {
			wo.Error = "no such harness function: " + *fn
			return
		}
		opt := interp.RunOptions{
			SolverBin: *solver, TimeoutMs: *qto, Deadline: *deadline, MaxPaths: *maxPaths, MaxSteps: *maxSteps,
			IntMode: *mode == "int" || *mode == "real", RealMode: *mode == "real", SMTLog: *smtlog, MaxTraces: *traces,
		}
		interp.Thorough = *tier == "thorough"
		interp.SolverSeed = *seed
		if *known != "" {
			opt.Known = loadKnown(*known)
		}
		opt.FrontierTarget = *frontierN
		if *share != "" {
			var i, n int
			fmt.Sscanf(*share, "%d/%d", &i, &n)
			fb, err := os.ReadFile(*frontierFile)
			if err != nil {
				wo.Error = err.Error()
				return
			}
			var all [][]interp.Decision
			json.Unmarshal(fb, &all)
			for k := i; k < len(all); k += n {
				opt.Initial = append(opt.Initial, all[k])
			}
			if len(opt.Initial) == 0 {
				wo.Result = &interp.Result{Harness: *fn, Reach: map[string]int{}, Functions: map[string]int{}}
				return
			}
		}
		var res *interp.Result
		if *queue != "" {
			res, err = prog.ExploreQueue(f, opt, *queue, *workerID, *chunk)
		} else {
			res, err = prog.Explore(f, opt)
		}
		if err != nil {
			wo.Error = "explore: " + err.Error()
			return
		}
		wo.Result = res
		if *frontierN > 0 && *frontierFile != "" {
			fb, _ := json.Marshal(interp.LastFrontier)
			os.WriteFile(*frontierFile, fb, 0o644)
		}
		for s := range interp.StubsUsed {
			wo.StubsUsed = append(wo.StubsUsed, s)
		}
	}()
	b, _ := json.MarshalIndent(wo, "", " ")
	if *out != "" {
		os.WriteFile(*out, b, 0o644)
	} else {
		os.Stdout.Write(b)
		fmt.Println()
	}
	if wo.Error != "" {
		fmt.Fprintln(os.Stderr, "gosmt worker:", wo.Error)
		code = 3
	}
	return code
}

// loadKnown parses /verif/known_findings.txt lines of the form
//   finding: id=<id> property=<P> harness=<fn> label=<label> region="<smt>" what="<text>"
func loadKnown(path string) []interp.KnownFinding {
	b, err := os.ReadFile(path)
	if err != nil {
		return nil
	}
	var res []interp.KnownFinding
	for _, line := range strings.Split(string(b), "\n") {
		line = strings.TrimSpace(line)
		if !strings.HasPrefix(line, "finding:") {
			continue
		}
		kv := parseKV(strings.TrimPrefix(line, "finding:"))
		res = append(res, interp.KnownFinding{ID: kv["id"], Harness: kv["harness"], Label: kv["label"], Region: kv["region"], What: kv["what"]})
	}
	return res
}

func parseKV(s string) map[string]string {
	m := map[string]string{}
	i := 0
	for i < len(s) {
		for i < len(s) && s[i] == ' ' {
			i++
		}
		j := i
		for j < len(s) && s[j] != '=' && s[j] != ' ' {
			j++
		}
		if j >= len(s) || s[j] != '=' {
			break
		}
		key := s[i:j]
		j++
		var val string
		if j < len(s) && s[j] == '"' {
			k := j + 1
			for k < len(s) && s[k] != '"' {
				k++
			}
			val = s[j+1 : k]
			i = k + 1
		} else {
			k := j
			for k < len(s) && s[k] != ' ' {
				k++
			}
			val = s[j:k]
			i = k
		}
		m[key] = val
	}
	return m
}
