package main

// check: run every harness of one property, replay counterexamples and validation traces on the
// real build, write the evidence file, print VIOLATION / KNOWN-FINDING / INCONCLUSIVE lines.

import (
	"bufio"
	"crypto/sha256"
	"encoding/json"
	"flag"
	"fmt"
	"os"
	"os/exec"
	"path/filepath"
	"regexp"
	"sort"
	"strconv"
	"strings"
	"sync"
	"time"

	"verif/engine/interp"
)

type harnessSpec struct {
	Setups   []string
	Property string
	Pkg      string // lib/query
	File     string // absolute path of the harness source
	Fn       string
	Mode     string
	Tier     string // quick | thorough
	Deadline time.Duration
	MaxSteps int64
	Extra    map[string]string
}

var directive = regexp.MustCompile(`^//verif:(\w+)\s+(.*)$`)

func parseHarnessFile(path string) (specs []harnessSpec, err error) {
	f, err := os.Open(path)
	if err != nil {
		return nil, err
	}
	defer f.Close()
	var prop, pkg string
	var setups []string
	defer func() {
		for i := range specs {
			specs[i].Setups = setups
		}
	}()
	sc := bufio.NewScanner(f)
	sc.Buffer(make([]byte, 1<<20), 1<<20)
	for sc.Scan() {
		m := directive.FindStringSubmatch(strings.TrimSpace(sc.Text()))
		if m == nil {
			continue
		}
		switch m[1] {
		case "property":
			prop = strings.TrimSpace(m[2])
		case "pkg":
			pkg = strings.TrimSpace(m[2])
		case "setup":
			setups = append(setups, strings.TrimSpace(m[2]))
		case "harness":
			fs := strings.Fields(m[2])
			h := harnessSpec{Property: prop, Pkg: pkg, File: path, Fn: fs[0], Mode: "bv", Tier: "quick", Extra: map[string]string{}}
			for _, kv := range fs[1:] {
				p := strings.SplitN(kv, "=", 2)
				if len(p) != 2 {
					continue
				}
				switch p[0] {
				case "mode":
					h.Mode = p[1]
				case "tier":
					h.Tier = p[1]
				case "deadline":
					h.Deadline, _ = time.ParseDuration(p[1])
				case "maxsteps":
					h.MaxSteps, _ = strconv.ParseInt(p[1], 10, 64)
				default:
					h.Extra[p[0]] = p[1]
				}
			}
			specs = append(specs, h)
		}
	}
	return specs, nil
}

type runOut struct {
	spec harnessSpec
	out  *WorkerOutput
	err  string
	wall float64
}

type replayCase struct {
	ID      int               `json:"id"`
	Harness string            `json:"harness"`
	Model   map[string]string `json:"model"`
}

type replayResult struct {
	began, ended  bool
	assumeFailed  bool
	fails         []string
	panicMsg      string
	obs           string
	crashedBefore bool
	deviated      bool // the native run could not be kept on the recorded interleaving
}

func checkMain(args []string) int {
	fs := flag.NewFlagSet("check", flag.ExitOnError)
	verif := fs.String("verif", "/verif", "verif root")
	repo := fs.String("repo", "/repo", "repository root")
	tier := fs.String("tier", "", "quick | thorough (default: $VERIF_TIER or quick)")
	jobs := fs.Int("jobs", 16, "parallel workers")
	only := fs.String("only", "", "run only harness functions matching this regexp")
	keep := fs.Bool("keep", false, "keep the scratch directory")
	deadlineFlag := fs.Duration("deadline", 0, "override the per-harness exploration deadline (debugging)")
	noReplay := fs.Bool("no-replay", false, "skip native replay (debugging only; candidates are then reported as unconfirmed)")
	fs.Parse(args)
	if fs.NArg() < 1 {
		fmt.Fprintln(os.Stderr, "usage: gosmt check <ID> [--tier quick|thorough]")
		return 2
	}
	prop := fs.Arg(0)
	if *tier == "" {
		*tier = os.Getenv("VERIF_TIER")
	}
	if *tier != "thorough" {
		*tier = "quick"
	}
	seed, _ := strconv.Atoi(os.Getenv("VERIF_SEED"))
	t0 := time.Now()

	files, _ := filepath.Glob(filepath.Join(*verif, "harness", prop, "*.go"))
	var specs []harnessSpec
	for _, f := range files {
		s, err := parseHarnessFile(f)
		if err != nil {
			fmt.Fprintln(os.Stderr, err)
			return 2
		}
		specs = append(specs, s...)
	}
	var onlyRe *regexp.Regexp
	if *only != "" {
		onlyRe = regexp.MustCompile(*only)
	}
	var sel []harnessSpec
	for _, s := range specs {
		if s.Tier == "thorough" && *tier != "thorough" {
			continue
		}
		if s.Tier == "quickonly" && *tier == "thorough" {
			continue
		}
		if onlyRe != nil && !onlyRe.MatchString(s.Fn) {
			continue
		}
		sel = append(sel, s)
	}
	if len(sel) == 0 {
		fmt.Fprintf(os.Stderr, "no harness for property %s\n", prop)
		return 2
	}

	scratch, err := os.MkdirTemp("", "gosmt-"+prop+"-")
	if err != nil {
		fmt.Fprintln(os.Stderr, err)
		return 2
	}
	if !*keep {
		defer os.RemoveAll(scratch)
	}

	// per package: intrinsics file + all harness files of this property in that package
	tmpl, err := os.ReadFile(filepath.Join(*verif, "harness", "intrinsics.go.tmpl"))
	if err != nil {
		fmt.Fprintln(os.Stderr, err)
		return 2
	}
	pkgFiles := map[string][]string{} // pkg -> real harness files
	for _, s := range sel {
		found := false
		for _, f := range pkgFiles[s.Pkg] {
			if f == s.File {
				found = true
			}
		}
		if !found {
			pkgFiles[s.Pkg] = append(pkgFiles[s.Pkg], s.File)
		}
	}
	// shared helper files (harness/common/*.go) join every overlay of their package
	commons, _ := filepath.Glob(filepath.Join(*verif, "harness", "common", "*.go"))
	for _, cf := range commons {
		cs, _ := parseCommon(cf)
		if _, ok := pkgFiles[cs.pkg]; ok {
			pkgFiles[cs.pkg] = append(pkgFiles[cs.pkg], cf)
		}
	}
	pkgSetups := map[string][]string{}
	for pkg, fl := range pkgFiles {
		for _, f := range fl {
			cs, _ := parseCommon(f)
			pkgSetups[pkg] = append(pkgSetups[pkg], cs.setups...)
		}
	}
	pkgName := func(pkg string) string {
		// package clause of the first harness file
		b, _ := os.ReadFile(pkgFiles[pkg][0])
		m := regexp.MustCompile(`(?m)^package\s+(\w+)`).FindSubmatch(b)
		if m == nil {
			return filepath.Base(pkg)
		}
		return string(m[1])
	}
	intrFile := map[string]string{}
	for pkg := range pkgFiles {
		p := filepath.Join(scratch, "intr_"+strings.ReplaceAll(pkg, "/", "_")+".go")
		src := strings.ReplaceAll(string(tmpl), "__PKG__", pkgName(pkg))
		src = strings.ReplaceAll(src, "__TIER__", *tier)
		os.WriteFile(p, []byte(src), 0o644)
		intrFile[pkg] = p
	}

	// the native intrinsics refer to gofile.VerifHook: make that declaration visible to the
	// engine's type checker as well (the engine itself models the file system and ignores it)
	hookOv := map[string]string{}
	if err := hookOverlay(*repo, scratch, hookOv); err != nil {
		fmt.Fprintln(os.Stderr, "hook overlay:", err)
	}
	var hookArgs []string
	for virt, real := range hookOv {
		if strings.Contains(virt, "go-file") && strings.HasSuffix(virt, "file.go") {
			hookArgs = append(hookArgs, "-overlay", real+"="+virt)
		}
	}
	self, _ := os.Executable()
	var results []runOut
	var resMu sync.Mutex
	sem := make(chan struct{}, *jobs)
	var wg sync.WaitGroup
	runWorker := func(s harnessSpec, tag string, extra ...string) runOut {
		sem <- struct{}{}
		defer func() { <-sem }()
		ts := time.Now()
		outFile := filepath.Join(scratch, fmt.Sprintf("res_%s_%s.json", s.Fn, tag))
		dl := s.Deadline
		if *deadlineFlag > 0 {
			dl = *deadlineFlag
		}
		if dl == 0 {
			dl = 8 * time.Minute
			if *tier == "thorough" {
				dl = 40 * time.Minute
			}
		}
		qto := 20000
		if *tier == "thorough" {
			qto = 120000
		}
		wargs := []string{"worker", "-repo", *repo, "-pkg", s.Pkg, "-fn", s.Fn, "-mode", s.Mode, "-out", outFile,
			"-deadline", dl.String(), "-query-timeout-ms", strconv.Itoa(qto),
			"-known", filepath.Join(*verif, "known_findings.txt"),
			"-tier", *tier, "-seed", strconv.Itoa(seed),
			"-overlay", intrFile[s.Pkg] + "=zz_verif_intrinsics.go"}
		if s.MaxSteps > 0 {
			wargs = append(wargs, "-max-steps", strconv.FormatInt(s.MaxSteps, 10))
		}
		for k, f := range pkgFiles[s.Pkg] {
			wargs = append(wargs, "-overlay", fmt.Sprintf("%s=zz_verif_h%d.go", f, k))
		}
		for _, su := range pkgSetups[s.Pkg] {
			wargs = append(wargs, "-setup", su)
		}
		wargs = append(wargs, hookArgs...)
		wargs = append(wargs, extra...)
		cmd := exec.Command(self, wargs...)
		cmd.Stderr = os.Stderr
		cmd.Env = append(os.Environ(), "GOFLAGS=-mod=mod", "GOPROXY=off", "GOSUMDB=off", "GOTOOLCHAIN=local")
		runErr := cmd.Run()
		ro := runOut{spec: s, wall: time.Since(ts).Seconds()}
		b, err := os.ReadFile(outFile)
		if err != nil {
			ro.err = fmt.Sprintf("worker produced no result (%v)", runErr)
		} else {
			var wo WorkerOutput
			if err := json.Unmarshal(b, &wo); err != nil {
				ro.err = "bad worker output: " + err.Error()
			} else {
				ro.out = &wo
				ro.err = wo.Error
			}
		}
		return ro
	}
	for _, s := range sel {
		wg.Add(1)
		go func(s harnessSpec) {
			defer wg.Done()
			split, _ := strconv.Atoi(s.Extra["split"])
			if *tier == "thorough" {
				if ts, err := strconv.Atoi(s.Extra["tsplit"]); err == nil {
					split = ts
				}
			}
			if split <= 1 {
				ro := runWorker(s, "all")
				resMu.Lock()
				results = append(results, ro)
				resMu.Unlock()
				return
			}
			qdir := filepath.Join(scratch, "queue_"+s.Fn)
			os.MkdirAll(qdir, 0o755)
			os.WriteFile(filepath.Join(qdir, "p_init.json"), []byte("[[]]"), 0o644)
			var wg3 sync.WaitGroup
			for i := 0; i < split; i++ {
				wg3.Add(1)
				go func(i int) {
					defer wg3.Done()
					tr := "1"
					r := runWorker(s, fmt.Sprintf("q%d", i), "-queue", qdir, "-worker-id", strconv.Itoa(i), "-traces", tr)
					resMu.Lock()
					results = append(results, r)
					resMu.Unlock()
				}(i)
			}
			wg3.Wait()
		}(s)
	}
	wg.Wait()

	// ---- collect ----------------------------------------------------------------------------
	type cand struct {
		v    *interp.Violation
		spec harnessSpec
		id   int
	}
	var cands []cand
	type trc struct {
		t    interp.ValidationTrace
		spec harnessSpec
		id   int
	}
	var traces []trc
	nextID := 0
	var inconclusive []string
	raceSeen := map[string]bool{}
	racePool := map[string][]cand{}
	for _, r := range results {
		if r.err != "" || r.out == nil || r.out.Result == nil {
			inconclusive = append(inconclusive, fmt.Sprintf("harness=%s reason=%s", r.spec.Fn, oneLine(r.err)))
			continue
		}
		res := r.out.Result
		for _, v := range res.Violations {
			if v.Kind == "race" {
				// one candidate per harness-level input signature; a diverse subset is chosen below
				sig := v.Harness + "|" + v.Label + "|" + inputSignature(v.Model)
				if raceSeen[sig] {
					continue
				}
				raceSeen[sig] = true
				racePool[v.Harness+"|"+v.Label] = append(racePool[v.Harness+"|"+v.Label], cand{v, r.spec, 0})
				continue
			}
			cands = append(cands, cand{v, r.spec, nextID})
			nextID++
		}
		for _, v := range res.Known {
			cands = append(cands, cand{v, r.spec, nextID})
			nextID++
		}
		for _, t := range res.Traces {
			traces = append(traces, trc{t, r.spec, nextID})
			nextID++
		}
		for _, ic := range res.Inconclusive {
			inconclusive = append(inconclusive, fmt.Sprintf("harness=%s reason=%s (x%d)", r.spec.Fn, oneLine(ic.Reason), ic.Count))
		}
	}
	// race candidates: per pair of racing functions at most 12 are replayed, chosen greedily so that
	// each differs from those already chosen in as many harness-level inputs as possible (whether
	// the Go race detector can confirm a candidate depends on the query shape)
	var raceLabels []string
	for k := range racePool {
		raceLabels = append(raceLabels, k)
	}
	sort.Strings(raceLabels)
	for _, k := range raceLabels {
		pool := racePool[k]
		var chosen []cand
		for len(chosen) < 12 && len(pool) > 0 {
			best, bestScore := 0, -1
			for i, c := range pool {
				score := 1 << 30
				for _, d := range chosen {
					if h := inputDistance(c.v.Model, d.v.Model); h < score {
						score = h
					}
				}
				if score > bestScore {
					best, bestScore = i, score
				}
			}
			chosen = append(chosen, pool[best])
			pool = append(pool[:best], pool[best+1:]...)
		}
		for _, c := range chosen {
			c.id = nextID
			nextID++
			cands = append(cands, c)
		}
	}
	completedBy := map[string]int{}
	foundBy := map[string]int{}
	for _, r := range results {
		if r.out != nil && r.out.Result != nil {
			completedBy[r.spec.Fn] += r.out.Result.PathsCompleted
			foundBy[r.spec.Fn] += len(r.out.Result.Violations) + len(r.out.Result.Known)
		}
	}
	for _, s := range sel {
		if completedBy[s.Fn] == 0 && foundBy[s.Fn] == 0 {
			inconclusive = append(inconclusive, fmt.Sprintf("harness=%s reason=vacuous: no path reached the end of the harness", s.Fn))
		}
	}

	// ---- native replay ----------------------------------------------------------------------
	replayed := map[int]*replayResult{}
	replayErr := map[string]string{}
	raceIDs := map[int]bool{}
	candIDs := map[int]bool{}
	for _, c := range cands {
		candIDs[c.id] = true
	}
	if !*noReplay && (len(cands) > 0 || len(traces) > 0) {
		byPkg := map[string][]replayCase{}
		for _, c := range cands {
			if c.v.Kind == "race" {
				raceIDs[c.id] = true
			}
			byPkg[c.spec.Pkg] = append(byPkg[c.spec.Pkg], replayCase{c.id, c.v.Harness, withTier(c.v.Model, *tier)})
		}
		for _, t := range traces {
			byPkg[t.spec.Pkg] = append(byPkg[t.spec.Pkg], replayCase{t.id, t.t.Harness, withTier(t.t.Model, *tier)})
		}
		var mu sync.Mutex
		var wg2 sync.WaitGroup
		for pkg, cases := range byPkg {
			wg2.Add(1)
			go func(pkg string, cases []replayCase) {
				defer wg2.Done()
				var fns []string
				seen := map[string]bool{}
				for _, s := range sel {
					if s.Pkg == pkg && !seen[s.Fn] {
						seen[s.Fn] = true
						fns = append(fns, s.Fn)
					}
				}
				var plain, racy []replayCase
				for _, c := range cases {
					if raceIDs[c.ID] {
						racy = append(racy, c)
					} else {
						plain = append(plain, c)
					}
				}
				for pass, set := range [][]replayCase{plain, racy} {
					if len(set) == 0 {
						continue
					}
					rr, err := nativeReplay(*repo, scratch, pkg, pkgName(pkg), intrFile[pkg], pkgFiles[pkg], fns, pkgSetups[pkg], set, []string{"", "race"}[pass])
					mu.Lock()
					if err != nil {
						replayErr[pkg] = err.Error()
					}
					for id, r := range rr {
						replayed[id] = r
					}
					mu.Unlock()
					if pass == 0 {
						// schedule-dependent counterexamples that the small instance did not
						// reproduce get a second attempt with the rows amplified
						var again []replayCase
						for _, c := range set {
							if !candIDs[c.ID] || !schedDependent(c.Model) {
								continue
							}
							if r := rr[c.ID]; r != nil && r.began && r.ended && len(r.fails) == 0 && r.panicMsg == "" && !r.assumeFailed && len(again) < 6 {
								again = append(again, c)
							}
						}
						if len(again) > 0 {
							rr2, _ := nativeReplay(*repo, scratch, pkg, pkgName(pkg), intrFile[pkg], pkgFiles[pkg], fns, pkgSetups[pkg], again, "amplify")
							mu.Lock()
							for id, r := range rr2 {
								if r != nil && (len(r.fails) > 0 || r.panicMsg != "" || !r.ended) {
									replayed[id] = r
								}
							}
							mu.Unlock()
						}
					}
				}
			}(pkg, cases)
		}
		wg2.Wait()
	}

	// ---- verdicts ---------------------------------------------------------------------------
	exit := 0
	violations := 0
	var knownLines, spurious, vioLines []string
	replayDir := filepath.Join(*verif, "replays", prop)
	known := loadKnown(filepath.Join(*verif, "known_findings.txt"))
	knownWhat := map[string]string{}
	for _, k := range known {
		knownWhat[k.ID] = k.What
	}
	reported := map[string]bool{}
	fatalDiag := 0
	_ = fatalDiag
	for _, c := range cands {
		key := c.v.Harness + "|" + c.v.Label + "|" + c.v.Known
		if reported[key] {
			continue
		}
		rr := replayed[c.id]
		confirmed := false
		detail := ""
		switch {
		case *noReplay:
			detail = "not replayed"
		case rr == nil || !rr.began:
			detail = "replay did not run: " + oneLine(replayErr[c.spec.Pkg])
		case rr.assumeFailed:
			detail = "replay: model violates a harness assumption natively"
		case c.v.Kind == "assert":
			for _, f := range rr.fails {
				if f == c.v.Label {
					confirmed = true
				}
			}
			if !confirmed && rr.panicMsg != "" {
				confirmed = true
				detail = "replay panicked: " + rr.panicMsg
			}
			if !confirmed && len(rr.fails) > 0 {
				confirmed = true
				detail = "replay failed a different assertion: " + strings.Join(rr.fails, ",")
			}
			if !confirmed && !rr.ended {
				confirmed = true
				detail = "replay crashed the test process"
			}
		default: // panic / fatal
			if rr.panicMsg != "" || !rr.ended {
				confirmed = true
				detail = rr.panicMsg
			}
		}
		if !confirmed && c.v.Label == "fatal-error" {
			// engine-side diagnostic (a FatalError value was built): natively visible only through
			// what the harness asserts about the returned error; not a candidate of its own
			fatalDiag++
			continue
		}
		if !confirmed {
			spurious = append(spurious, fmt.Sprintf("harness=%s label=%q model=%v (%s)", c.v.Harness, c.v.Label, c.v.Model, detail))
			continue
		}
		reported[key] = true
		if c.v.Known != "" {
			knownLines = append(knownLines, fmt.Sprintf("KNOWN-FINDING: property=%s %s [%s, harness=%s label=%q model=%s]", prop, knownWhat[c.v.Known], c.v.Known, c.v.Harness, c.v.Label, modelString(c.v)))
			continue
		}
		os.MkdirAll(replayDir, 0o755)
		h := sha256.Sum256([]byte(c.v.Harness + "|" + c.v.Label))
		rp := filepath.Join(replayDir, fmt.Sprintf("%s_%x.json", c.v.Harness, h[:4]))
		rb, _ := json.MarshalIndent(map[string]interface{}{
			"property": prop, "harness": c.v.Harness, "harness_file": c.spec.File, "package": c.spec.Pkg, "label": c.v.Label, "kind": c.v.Kind,
			"detail": c.v.Detail + " " + detail, "model": c.v.Model, "order": c.v.Order, "tier": *tier,
			"how": "gosmt replay " + rp + " (runs the harness natively against /repo with this assignment of the nondet inputs)",
		}, "", " ")
		os.WriteFile(rp, rb, 0o644)
		vioLines = append(vioLines, fmt.Sprintf("VIOLATION property=%s replay=%s", prop, rp))
		fmt.Printf("  counterexample: harness=%s label=%q kind=%s inputs: %s %s\n", c.v.Harness, c.v.Label, c.v.Kind, modelString(c.v), detail)
		violations++
		exit = 1
	}
	tracesOK, tracesBad := 0, 0
	var mismatch []string
	for _, t := range traces {
		rr := replayed[t.id]
		if rr == nil || !rr.began || !rr.ended || rr.deviated {
			continue
		}
		uncontrolled := false
		for k := range t.t.Model {
			if strings.HasPrefix(k, "select") || strings.HasPrefix(k, "maporder") {
				uncontrolled = true // Go chooses among ready select cases / map orders at random
			}
			if _, enforced := t.t.Model["__ops"]; strings.HasPrefix(k, "sched") && !enforced {
				uncontrolled = true // goroutine schedules are only enforced for file-system processes
			}
		}
		if uncontrolled {
			continue
		}
		want := strings.Join(t.t.Observe, ";")
		if rr.obs == want && rr.panicMsg == "" && !rr.assumeFailed {
			tracesOK++
		} else {
			tracesBad++
			mismatch = append(mismatch, fmt.Sprintf("harness=%s model=%v engine=[%s] native=[%s] panic=%q assumeFailed=%v fs=%s", t.t.Harness, t.t.Model, want, rr.obs, rr.panicMsg, rr.assumeFailed, t.t.FSTrace))
		}
	}
	for _, m := range mismatch {
		inconclusive = append(inconclusive, "translator validation mismatch: "+m)
	}
	for _, s := range spurious {
		inconclusive = append(inconclusive, "SPURIOUS candidate (did not reproduce on the real build): "+s)
	}
	for pkg, e := range replayErr {
		inconclusive = append(inconclusive, "native replay of "+pkg+" failed: "+oneLine(e))
	}

	// ---- evidence ---------------------------------------------------------------------------
	ev := buildEvidence(prop, *tier, seed, results, violations, knownLines, inconclusive, tracesOK, tracesBad, time.Since(t0).Seconds())
	// a partial run (--only) or a run against another tree (--repo, mutation trials) must not
	// replace the evidence of the registered check
	evDir := filepath.Join(*verif, "evidence")
	if d := os.Getenv("VERIF_EVIDENCE_DIR"); d != "" {
		evDir = d
	} else if *only != "" || *repo != "/repo" {
		evDir = filepath.Join(os.TempDir(), "gosmt-evidence")
	}
	os.MkdirAll(evDir, 0o755)
	eb, _ := json.MarshalIndent(ev, "", " ")
	os.WriteFile(filepath.Join(evDir, prop+".json"), eb, 0o644)

	sort.Strings(knownLines)
	for _, l := range dedupe(knownLines) {
		fmt.Println(l)
	}
	for _, l := range inconclusive {
		fmt.Printf("INCONCLUSIVE property=%s %s\n", prop, l)
	}
	for _, l := range vioLines {
		fmt.Println(l)
	}
	cov := ev["coverage"].(map[string]interface{})
	fmt.Printf("%s %s: harnesses=%d paths=%v obligations=%v discharged=%v queries=%v solver_s=%.1f wall_s=%.1f violations=%d known=%d inconclusive=%d traces_validated=%d\n",
		prop, *tier, len(sel), cov["states"], cov["obligations"], cov["discharged"], cov["evaluations"], cov["solver_s"], time.Since(t0).Seconds(), violations, len(dedupe(knownLines)), len(inconclusive), tracesOK)
	return exit
}

func withTier(m map[string]string, tier string) map[string]string {
	r := map[string]string{"__tier": tier}
	for k, v := range m {
		r[k] = v
	}
	return r
}

func dedupe(l []string) []string {
	var r []string
	seen := map[string]bool{}
	for _, s := range l {
		if !seen[s] {
			seen[s] = true
			r = append(r, s)
		}
	}
	return r
}

func modelString(v *interp.Violation) string {
	var parts []string
	for _, n := range v.Order {
		parts = append(parts, n+"="+v.Model[n])
	}
	return strings.Join(parts, " ")
}

func oneLine(s string) string {
	s = strings.ReplaceAll(s, "\n", " | ")
	if len(s) > 400 {
		s = s[:400] + "…"
	}
	return s
}

// nativeReplay compiles the harnesses with the native intrinsics into the package's test binary
// (build overlay; nothing is written into the repository) and runs the recorded models.
type commonSpec struct {
	pkg    string
	setups []string
}

func parseCommon(path string) (commonSpec, error) {
	var cs commonSpec
	b, err := os.ReadFile(path)
	if err != nil {
		return cs, err
	}
	for _, line := range strings.Split(string(b), "\n") {
		m := directive.FindStringSubmatch(strings.TrimSpace(line))
		if m == nil {
			continue
		}
		switch m[1] {
		case "pkg":
			cs.pkg = strings.TrimSpace(m[2])
		case "setup":
			cs.setups = append(cs.setups, strings.TrimSpace(m[2]))
		}
	}
	return cs, nil
}

// nativeReplay modes: "" = the recorded inputs as they are; "race" = built with -race, rows
// amplified (verifAmplify); "amplify" = rows amplified without the race detector (second attempt at
// schedule-dependent counterexamples that the small instance did not reproduce).
func nativeReplay(repo, scratch, pkg, pkgName, intr string, harnessFiles, fns, setups []string, cases []replayCase, mode string) (map[int]*replayResult, error) {
	race := mode == "race"
	tag := strings.ReplaceAll(pkg, "/", "_")
	if mode != "" {
		tag += "_" + mode
	}
	var b strings.Builder
	fmt.Fprintf(&b, "package %s\n\nimport (\n\t\"encoding/json\"\n\t\"fmt\"\n\t\"os\"\n\t\"strconv\"\n\t\"strings\"\n\t\"testing\"\n)\n\n", pkgName)
	b.WriteString("var verifHarnesses = map[string]func(){\n")
	for _, f := range fns {
		fmt.Fprintf(&b, "\t%q: %s,\n", f, f)
	}
	b.WriteString("}\n\nvar verifSetups = []func(){")
	for _, su := range setups {
		fmt.Fprintf(&b, "%s, ", su)
	}
	b.WriteString("}\n\n")
	b.WriteString(`func TestVerifReplay(t *testing.T) {
	b, err := os.ReadFile(os.Getenv("VERIF_REPLAY_FILE"))
	if err != nil {
		t.Fatal(err)
	}
	var cases []struct {
		ID      int               ` + "`json:\"id\"`" + `
		Harness string            ` + "`json:\"harness\"`" + `
		Model   map[string]string ` + "`json:\"model\"`" + `
	}
	if err := json.Unmarshal(b, &cases); err != nil {
		t.Fatal(err)
	}
	only := os.Getenv("VERIF_REPLAY_ONLY")
	for _, su := range verifSetups {
		su()
	}
	for _, c := range cases {
		if only != "" && only != fmt.Sprint(c.ID) {
			continue
		}
		fmt.Printf("\nREPLAY-BEGIN %d\n", c.ID)
		// counterexamples that depend on map iteration order or goroutine scheduling cannot be
		// forced natively: repeat until the failure shows (the Go runtime randomises both)
		tries := 1
		if n, err := strconv.Atoi(os.Getenv("VERIF_REPLAY_TRIES")); err == nil && n > 1 {
			tries = n
		}
		for k := range c.Model {
			if (strings.HasPrefix(k, "maporder") || strings.HasPrefix(k, "sched") || strings.HasPrefix(k, "select")) && tries < 60 {
				tries = 60
			}
		}
		for try := 0; try < tries; try++ {
			failed := false
			func() {
				defer func() {
					switch r := recover().(type) {
					case nil:
					case verifAssumeFailed:
						fmt.Printf("\nREPLAY-ASSUME-FAILED %d\n", c.ID)
					case verifAssertStop:
					default:
						failed = true
						fmt.Printf("\nREPLAY-PANIC %d %s\n", c.ID, strings.ReplaceAll(fmt.Sprint(r), "\n", " "))
					}
				}()
				verifReset(c.Model)
				verifHarnesses[c.Harness]()
			}()
			if failed || len(verifFailures) > 0 {
				break
			}
		}
		for _, f := range verifFailures {
			fmt.Printf("\nREPLAY-FAIL %d %s\n", c.ID, f)
		}
		if verifDeviated {
			fmt.Printf("\nREPLAY-DEVIATED %d\n", c.ID)
		}
		fmt.Printf("\nREPLAY-OBS %d %s\n", c.ID, strings.Join(verifObs, ";"))
		fmt.Printf("\nREPLAY-END %d\n", c.ID)
	}
}
`)
	testFile := filepath.Join(scratch, "replay_"+tag+"_test.go")
	if err := os.WriteFile(testFile, []byte(b.String()), 0o644); err != nil {
		return nil, err
	}
	ov := map[string]string{
		filepath.Join(repo, pkg, "zz_verif_intrinsics.go"):  intr,
		filepath.Join(repo, pkg, "zz_verif_replay_test.go"): testFile,
	}
	for k, f := range harnessFiles {
		ov[filepath.Join(repo, pkg, fmt.Sprintf("zz_verif_h%d.go", k))] = f
	}
	if err := hookOverlay(repo, scratch, ov); err != nil {
		return nil, err
	}
	ob, _ := json.Marshal(map[string]interface{}{"Replace": ov})
	ovFile := filepath.Join(scratch, "overlay_"+tag+".json")
	os.WriteFile(ovFile, ob, 0o644)
	cf := filepath.Join(scratch, "cases_"+tag+".json")
	cb, _ := json.Marshal(cases)
	os.WriteFile(cf, cb, 0o644)

	res := map[int]*replayResult{}
	// Build once, then run; if the process dies on one case, rerun the remaining cases one by one.
	bin := filepath.Join(scratch, "replay_"+tag+".test")
	bargs := []string{"test", "-c", "-vet=off", "-overlay", ovFile, "-o", bin}
	if race {
		bargs = append(bargs, "-race")
	}
	bargs = append(bargs, "./"+pkg)
	build := exec.Command("go", bargs...)
	build.Dir = repo
	build.Env = append(os.Environ(), "GOFLAGS=-mod=mod", "GOPROXY=off", "GOSUMDB=off", "GOTOOLCHAIN=local")
	if out, err := build.CombinedOutput(); err != nil {
		return res, fmt.Errorf("go test -c failed: %v: %s", err, oneLine(string(out)))
	}
	run := func(only string) string {
		cmd := exec.Command(bin, "-test.run", "^TestVerifReplay$", "-test.timeout", "10m")
		cmd.Dir = filepath.Join(repo, pkg)
		cmd.Env = append(os.Environ(), "VERIF_REPLAY_FILE="+cf, "VERIF_REPLAY_ONLY="+only, "GORACE=halt_on_error=0")
		if race {
			// stop at the first report: the remaining cases are rerun one by one below
			cmd.Env = append(cmd.Env, "GORACE=halt_on_error=1")
			cmd.Env = append(cmd.Env, "VERIF_REPLAY_TRIES=10", "VERIF_AMPLIFY=32")
		}
		if mode == "amplify" {
			cmd.Env = append(cmd.Env, "VERIF_AMPLIFY=128", "VERIF_REPLAY_TRIES=500")
		}
		out, _ := cmd.CombinedOutput()
		return string(out)
	}
	parse := func(out string) {
		cur := -1
		for _, line := range strings.Split(out, "\n") {
			if strings.Contains(line, "WARNING: DATA RACE") && cur >= 0 && res[cur] != nil {
				res[cur].panicMsg = "DATA RACE reported by the Go race detector"
			}
			f := strings.SplitN(strings.TrimSpace(line), " ", 3)
			if len(f) < 2 || !strings.HasPrefix(f[0], "REPLAY-") {
				continue
			}
			id, err := strconv.Atoi(f[1])
			if err != nil {
				continue
			}
			r := res[id]
			if r == nil {
				r = &replayResult{}
				res[id] = r
			}
			rest := ""
			if len(f) == 3 {
				rest = f[2]
			}
			switch f[0] {
			case "REPLAY-BEGIN":
				r.began = true
				cur = id
			case "REPLAY-END":
				r.ended = true
			case "REPLAY-ASSUME-FAILED":
				r.assumeFailed = true
			case "REPLAY-FAIL":
				r.fails = append(r.fails, rest)
			case "REPLAY-PANIC":
				r.panicMsg = rest
			case "REPLAY-DEVIATED":
				r.deviated = true
			case "REPLAY-OBS":
				r.obs = rest
			}
		}
	}
	out := run("")
	parse(out)
	// cases that never began (process died earlier) are rerun individually
	for _, c := range cases {
		if r := res[c.ID]; r == nil || !r.began {
			parse(run(strconv.Itoa(c.ID)))
		} else if !r.ended && r.panicMsg == "" {
			// died inside this case: keep the crash output as the panic message
			r.panicMsg = "process died: " + oneLine(lastLines(out, 6))
		}
	}
	for _, c := range cases {
		if r := res[c.ID]; r != nil && r.began && !r.ended && r.panicMsg == "" {
			r.panicMsg = "process died during replay"
		}
	}
	os.Remove(bin)
	return res, nil
}

// inputDistance: number of harness-level inputs in which two models differ.
func inputDistance(a, b map[string]string) int {
	d := 0
	seen := map[string]bool{}
	for _, m := range []map[string]string{a, b} {
		for k := range m {
			base := k
			if i := strings.IndexByte(k, '#'); i >= 0 {
				base = k[:i]
			}
			switch base {
			case "sched", "maporder", "select", "crash", "fault", "__ops", "__tier":
				continue
			}
			if !seen[k] {
				seen[k] = true
				if a[k] != b[k] {
					d++
				}
			}
		}
	}
	return d
}

func schedDependent(m map[string]string) bool {
	for k := range m {
		if strings.HasPrefix(k, "sched") || strings.HasPrefix(k, "select") {
			return true
		}
	}
	return false
}

// inputSignature: the harness-level inputs of a model (everything but scheduling, map-order,
// select, crash and fault choices), in a canonical order.
func inputSignature(m map[string]string) string {
	var ks []string
	for k := range m {
		base := k
		if i := strings.IndexByte(k, '#'); i >= 0 {
			base = k[:i]
		}
		switch base {
		case "sched", "maporder", "select", "crash", "fault", "__ops", "__tier":
			continue
		}
		ks = append(ks, k+"="+m[k])
	}
	sort.Strings(ks)
	return strings.Join(ks, ",")
}

func lastLines(s string, n int) string {
	l := strings.Split(strings.TrimSpace(s), "\n")
	if len(l) > n {
		l = l[len(l)-n:]
	}
	return strings.Join(l, " | ")
}

func buildEvidence(prop, tier string, seed int, results []runOut, violations int, knownLines, inconclusive []string, tracesOK, tracesBad int, wall float64) map[string]interface{} {
	var paths, completed, decisions, queries, obligations, discharged, trivial, nontrivial, unknownBr int
	var steps int64
	var solverS float64
	funcs := map[string]int{}
	assumptions := map[string]bool{}
	stubs := map[string]bool{}
	var samples []interface{}
	var harnesses []interface{}
	for _, r := range results {
		h := map[string]interface{}{"harness": r.spec.Fn, "package": r.spec.Pkg, "mode": r.spec.Mode, "wall_s": r.wall}
		if r.out != nil && r.out.Result != nil {
			res := r.out.Result
			paths += res.Paths
			completed += res.PathsCompleted
			decisions += res.Decisions
			queries += res.Queries
			obligations += res.Obligations
			discharged += res.Discharged
			trivial += res.TrivialTrue
			nontrivial += res.NontrivialPaths
			unknownBr += res.UnknownBranches
			steps += res.Steps
			solverS += res.SolverSeconds
			for f, n := range res.Functions {
				funcs[f] = n
			}
			for _, a := range res.Assumptions {
				assumptions[a] = true
			}
			for _, s := range r.out.StubsUsed {
				stubs[s] = true
			}
			for i, s := range res.Samples {
				if i < 2 {
					samples = append(samples, r.spec.Fn+": "+s)
				}
			}
			for i, t := range res.Traces {
				if i < 1 {
					samples = append(samples, map[string]interface{}{"harness": t.Harness, "inputs": t.Model, "observed": t.Observe})
				}
			}
			h["paths"] = res.Paths
			h["paths_completed"] = res.PathsCompleted
			h["obligations"] = res.Obligations
			h["discharged"] = res.Discharged
			h["queries"] = res.Queries
			h["solver_s"] = res.SolverSeconds
			h["reach"] = res.Reach
			h["budget_exceeded"] = res.BudgetExceeded
		} else {
			h["error"] = oneLine(r.err)
		}
		harnesses = append(harnesses, h)
	}
	if len(samples) == 0 {
		samples = append(samples, "no path completed")
	}
	var fl []string
	for f, n := range funcs {
		if strings.Contains(f, "verif") || strings.Contains(f, "Verif") {
			continue
		}
		fl = append(fl, fmt.Sprintf("%s (%d instr)", f, n))
	}
	sort.Strings(fl)
	own := 0
	var ownList []string
	for _, f := range fl {
		if strings.Contains(f, "mithrandie") {
			own++
			ownList = append(ownList, f)
		}
	}
	var as []string
	for a := range assumptions {
		as = append(as, "bound/assumption: "+a)
	}
	for s := range stubs {
		as = append(as, "stub: "+s)
	}
	as = append(as,
		"SMT solver z3 (answers trusted; unknown/timeout/error answers are reported as INCONCLUSIVE, never as success)",
		"go/ssa (x/tools v0.29.0) is a faithful lowering of the Go source; the symbolic interpreter is validated per run by replaying sampled models natively (traces_validated_against_impl)",
		"claims hold only within the bounds stated in each harness (sizes, ranges, unwinding caps)")
	sort.Strings(as)
	cov := map[string]interface{}{
		"states":                        paths,
		"transitions":                   decisions + paths,
		"traces_validated_against_impl": tracesOK,
		"traces_mismatched":             tracesBad,
		"samples":                       samples,
		"evaluations":                   queries,
		"distinct_nontrivial":           nontrivial,
		"rule":                          "states = symbolic execution paths of the harnesses (each a distinct vector of branch decisions over the real SSA); non-trivial = feasible paths that reached the end of the harness with at least one obligation checked; evaluations = SMT queries discharged",
		"obligations":                   obligations,
		"discharged":                    discharged,
		"discharged_trivially":          trivial,
		"paths_completed":               completed,
		"ssa_steps":                     steps,
		"solver_s":                      solverS,
		"unknown_branches":              unknownBr,
		"functions_encoded":             ownList,
		"functions_encoded_count":       len(fl),
		"functions_encoded_csvq":        own,
		"harnesses":                     harnesses,
		"known_findings":                dedupe(knownLines),
		"inconclusive":                  inconclusive,
		"exhaustive":                    false,
	}
	return map[string]interface{}{
		"property_id": prop,
		"tier":        tier,
		"seed":        seed,
		"level":       "model_checking",
		"coverage":    cov,
		"assumptions": as,
		"wall_s":      wall,
		"violations":  violations,
	}
}


// hookOverlay adds, to a replay build overlay, copies of lib/file/*.go and of go-file's file.go in
// which the file-system calls go through gofile.VerifHook (generated from the current sources at
// run time; nothing is written into the repository or the module cache).
func hookOverlay(repo, scratch string, ov map[string]string) error {
	cmd := exec.Command("go", "list", "-m", "-f", "{{.Dir}}", "github.com/mithrandie/go-file/v2")
	cmd.Dir = repo
	cmd.Env = append(os.Environ(), "GOFLAGS=-mod=mod", "GOPROXY=off", "GOSUMDB=off", "GOTOOLCHAIN=local")
	out, err := cmd.Output()
	if err != nil {
		return fmt.Errorf("go list go-file: %v", err)
	}
	gfDir := strings.TrimSpace(string(out))
	hdir := filepath.Join(scratch, "hook")
	os.MkdirAll(hdir, 0o755)
	write := func(virtual, content string) {
		real := filepath.Join(hdir, strings.ReplaceAll(strings.TrimPrefix(virtual, "/"), "/", "_"))
		os.WriteFile(real, []byte(content), 0o644)
		ov[virtual] = real
	}
	// go-file: open and close
	b, err := os.ReadFile(filepath.Join(gfDir, "file.go"))
	if err != nil {
		return err
	}
	src := string(b)
	src = strings.ReplaceAll(src, "os.OpenFile(path, flag, perm)", "hookOpenFile(path, flag, perm)")
	src = strings.ReplaceAll(src, "fp.Close()", "hookCloseFile(fp)")
	src += `

// ---- appended by the replay overlay ----

// VerifHook is set by the replay harness; it may block (recorded interleaving), panic (recorded
// crash) or report an injected fault.
var VerifHook func(op, path string) bool

// VerifForeignFlock: advisory locks held by a process outside the replay (base name -> 1 shared,
// 2 exclusive); written by the harness intrinsic verifForeignFlock before the code under test runs.
var VerifForeignFlock = map[string]int{}

func VerifPoint(op, path string) bool {
	if VerifHook != nil {
		return VerifHook(op, path)
	}
	return false
}

func hookOpenFile(path string, flag int, perm os.FileMode) (*os.File, error) {
	if VerifPoint("open", path) {
		return nil, &os.PathError{Op: "open", Path: path, Err: os.ErrInvalid}
	}
	return os.OpenFile(path, flag, perm)
}

func hookCloseFile(fp *os.File) error {
	if VerifPoint("close", fp.Name()) {
		return &os.PathError{Op: "close", Path: fp.Name(), Err: os.ErrInvalid}
	}
	return fp.Close()
}
`
	write(filepath.Join(gfDir, "file.go"), src)
	// advisory flock: replays run the configuration in which it is unavailable (what go-file's own
	// lock.go provides on platforms without flock): the control-file protocol has to stand alone
	write(filepath.Join(gfDir, "lock_unix.go"), `//go:build darwin || dragonfly || freebsd || linux || netbsd || openbsd

package file

import (
	"os"
	"syscall"
)

func verifForeign(fp *os.File) int {
	name := fp.Name()
	for i := len(name) - 1; i >= 0; i-- {
		if name[i] == '/' {
			name = name[i+1:]
			break
		}
	}
	return VerifForeignFlock[name]
}

func LockSH(_ *os.File) error { return nil }
func LockEX(_ *os.File) error { return nil }
func TryLockSH(fp *os.File) error {
	if verifForeign(fp) == 2 {
		return syscall.EWOULDBLOCK
	}
	return nil
}
func TryLockEX(fp *os.File) error {
	if verifForeign(fp) != 0 {
		return syscall.EWOULDBLOCK
	}
	return nil
}
func Unlock(_ *os.File) error { return nil }
`)
	// lib/file: stat, remove, rename, glob
	files, _ := filepath.Glob(filepath.Join(repo, "lib", "file", "*.go"))
	for _, f := range files {
		if strings.HasSuffix(f, "_test.go") {
			continue
		}
		b, err := os.ReadFile(f)
		if err != nil {
			return err
		}
		src := string(b)
		n := src
		n = strings.ReplaceAll(n, "os.Stat(", "verifStat(")
		n = strings.ReplaceAll(n, "os.Remove(", "verifRemove(")
		n = strings.ReplaceAll(n, "os.Rename(", "verifRename(")
		n = strings.ReplaceAll(n, "filepath.Glob(", "verifGlob(")
		if n == src {
			continue
		}
		if strings.Contains(n, "\"os\"") {
			n += "\nvar _ = os.DevNull\n"
		}
		if strings.Contains(n, "\"path/filepath\"") {
			n += "\nvar _ = filepath.Separator\n"
		}
		write(f, n)
	}
	write(filepath.Join(repo, "lib", "file", "zz_verif_os.go"), `package file

import (
	"errors"
	"os"
	"path/filepath"

	gofile "github.com/mithrandie/go-file/v2"
)

var errVerifFault = errors.New("injected fault")

func verifStat(path string) (os.FileInfo, error) {
	if gofile.VerifPoint("stat", path) {
		return nil, &os.PathError{Op: "stat", Path: path, Err: errVerifFault}
	}
	return os.Stat(path)
}

func verifRemove(path string) error {
	if gofile.VerifPoint("remove", path) {
		return &os.PathError{Op: "remove", Path: path, Err: errVerifFault}
	}
	return os.Remove(path)
}

func verifRename(from, to string) error {
	if gofile.VerifPoint("rename", from) {
		return &os.PathError{Op: "rename", Path: from, Err: errVerifFault}
	}
	return os.Rename(from, to)
}

func verifGlob(pattern string) ([]string, error) {
	if gofile.VerifPoint("glob", pattern) {
		return nil, nil
	}
	return filepath.Glob(pattern)
}
`)
	return nil
}
