// gosmt: symbolic execution of in-package Go harnesses over go/ssa with an SMT back end.
package main

import (
	"fmt"
	"os"
)

func main() {
	if len(os.Args) < 2 {
		fmt.Fprintln(os.Stderr, "usage: gosmt worker|check|replay ...")
		os.Exit(2)
	}
	switch os.Args[1] {
	case "worker":
		os.Exit(workerMain(os.Args[2:]))
	case "check":
		os.Exit(checkMain(os.Args[2:]))
	case "replay":
		os.Exit(replayMain(os.Args[2:]))
	default:
		fmt.Fprintln(os.Stderr, "unknown subcommand", os.Args[1])
		os.Exit(2)
	}
}
