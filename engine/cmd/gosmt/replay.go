package main

// replay: run one recorded counterexample natively against /repo's current tree.

import (
	"encoding/json"
	"flag"
	"fmt"
	"os"
	"path/filepath"
	"regexp"
	"strings"
)

func replayMain(args []string) int {
	fs := flag.NewFlagSet("replay", flag.ExitOnError)
	verif := fs.String("verif", "/verif", "verif root")
	repo := fs.String("repo", "/repo", "repository root")
	fs.Parse(args)
	if fs.NArg() < 1 {
		fmt.Fprintln(os.Stderr, "usage: gosmt replay <replay.json>")
		return 2
	}
	b, err := os.ReadFile(fs.Arg(0))
	if err != nil {
		fmt.Fprintln(os.Stderr, err)
		return 2
	}
	var r struct {
		Property, Harness, Package, Label, Kind, Tier string
		HarnessFile                                   string `json:"harness_file"`
		Model                                         map[string]string
	}
	if err := json.Unmarshal(b, &r); err != nil {
		fmt.Fprintln(os.Stderr, err)
		return 2
	}
	scratch, _ := os.MkdirTemp("", "gosmt-replay-")
	defer os.RemoveAll(scratch)
	files, _ := filepath.Glob(filepath.Join(*verif, "harness", r.Property, "*.go"))
	var hfiles, fns, setups []string
	for _, f := range files {
		specs, _ := parseHarnessFile(f)
		same := false
		for _, s := range specs {
			if s.Pkg == r.Package {
				same = true
				fns = append(fns, s.Fn)
			}
		}
		if same {
			hfiles = append(hfiles, f)
			cs, _ := parseCommon(f)
			setups = append(setups, cs.setups...)
		}
	}
	commons, _ := filepath.Glob(filepath.Join(*verif, "harness", "common", "*.go"))
	for _, cf := range commons {
		cs, _ := parseCommon(cf)
		if cs.pkg == r.Package {
			hfiles = append(hfiles, cf)
			setups = append(setups, cs.setups...)
		}
	}
	if len(hfiles) == 0 {
		fmt.Fprintln(os.Stderr, "no harness files for", r.Property, r.Package)
		return 2
	}
	src, _ := os.ReadFile(hfiles[0])
	pkgName := filepath.Base(r.Package)
	if m := regexp.MustCompile(`(?m)^package\s+(\w+)`).FindSubmatch(src); m != nil {
		pkgName = string(m[1])
	}
	tmpl, _ := os.ReadFile(filepath.Join(*verif, "harness", "intrinsics.go.tmpl"))
	intr := filepath.Join(scratch, "intr.go")
	os.WriteFile(intr, []byte(strings.ReplaceAll(string(tmpl), "__PKG__", pkgName)), 0o644)
	tier := r.Tier
	if tier == "" {
		tier = "quick"
	}
	cases := []replayCase{{ID: 0, Harness: r.Harness, Model: withTier(r.Model, tier)}}
	res, err := nativeReplay(*repo, scratch, r.Package, pkgName, intr, hfiles, fns, setups, cases, map[bool]string{true: "race", false: ""}[r.Kind == "race"])
	if err != nil {
		fmt.Fprintln(os.Stderr, "replay failed to run:", err)
		return 2
	}
	rr := res[0]
	if rr != nil && rr.began && rr.ended && len(rr.fails) == 0 && rr.panicMsg == "" && r.Kind != "race" && schedDependent(r.Model) {
		// schedule-dependent: second attempt with the rows amplified (verifAmplify), as check does
		if res2, err2 := nativeReplay(*repo, scratch, r.Package, pkgName, intr, hfiles, fns, setups, cases, "amplify"); err2 == nil && res2[0] != nil && res2[0].began {
			rr = res2[0]
		}
	}
	if rr == nil || !rr.began {
		fmt.Println("REPLAY did not run")
		return 2
	}
	fmt.Printf("REPLAY harness=%s label=%q: failed assertions=%v panic=%q assumption-violated=%v observations=[%s]\n", r.Harness, r.Label, rr.fails, rr.panicMsg, rr.assumeFailed, rr.obs)
	if len(rr.fails) > 0 || rr.panicMsg != "" || !rr.ended {
		fmt.Printf("VIOLATION property=%s replay=%s\n", r.Property, fs.Arg(0))
		return 1
	}
	fmt.Println("the recorded inputs no longer fail on the current tree")
	return 0
}
